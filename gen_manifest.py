#!/usr/bin/env python3
"""Writes MANIFEST.json. Edit CLAIMED / NOT_YET below, run, commit."""
import json

TECH = "deterministic simulation with fault injection: seeded swarm histories over the real contracts in one cw-multi-test chain, per-step reference-model oracles, minimised replay files"

CLAIMED = {
 "C01": ("exploration", "4 C01", "Seeded search over operation histories (deposits, withdrawals, swaps, collections, fee changes, donations, scripted deposit-withdraw) of >=3 users on the real pair + factory + router; solvency, LP-value monotonicity (exact 1024-bit cross multiplication), pro-rata bounds and the minimum-liquidity lock are evaluated after every step. Sampling, not proof."),
 "C02": ("exploration", "4 C02", "Every Simulation query and every executed swap in the POOL2 histories is compared with an exact wide-integer model (gross = floor(ask*offer/(pool+offer)), each fee = floor(share*gross)); totality is demanded whenever the results fit in 128 bits; scripted there-and-back swaps after random prefixes. States are reached through real histories (pending fees, donations, both offer kinds)."),
 "C03": ("exploration", "4 C03", "Stableswap pair histories (swap/provide/withdraw, amp 1..1e6, six decimal settings); every quote and swap is compared with an independent bisection solution of the curve invariant on decimal-normalised reserves over exact 1024-bit integers with a derived dust tolerance, output monotonicity in the offer is probed, and the exact invariant per LP is compared before/after every deposit and withdrawal."),
 "C04": ("exploration", "4 C04", "Histories on the real 3-pool (all six swap directions, provide/withdraw/collect, valid/boundary/invalid amplification ramps on a block-height clock that lands inside, at and after ramps): solvency, exact D (bisection, n=3, Ann=3*amp) per LP before/after every step, swaps inside the slope box of the independent curve at the independently interpolated amplification, exact fee split, there-and-back swaps, accepted ramps within the documented bounds and stored as requested."),
 "C05": ("exploration", "4 C05", "Seeded search over histories of deposits, withdrawals, flash loans (direct and via router, generated borrower programs incl. nested loans, re-entrant deposit/withdraw/collect), collections, fee changes and donations by >=3 users and a borrower contract on the real vault + factory + router; share price (vault balance minus pending protocol fees, per share) compared before/after every step with exact 512-bit cross multiplication; pro-rata bounds, minimum-liquidity lock, deposit-then-withdraw."),
 "C06": ("fault_enumeration", "4 C06", "The borrower's callback behaviour is a generated program; ALL programs over the stated alphabet up to nesting depth 2 / length 2 (plus depth-1 length-3 and router payloads) are enumerated for a native and a cw20 vault, deeper ones are sampled with injected sub-call/bank faults; every loan transaction is checked for revert-or-fees-paid, burn destroyed, no mint during a loan, loan counter back to 0, exact-repay suffices / one unit less does not, router keeps nothing."),
 "C07": ("exploration", "4 C07", "A ledger model (charged - received by the collector) is compared with ProtocolFees / BurnedFees after every step of the pool histories, collections are scheduled at pending amounts of 0, <=1000, 1001 and large, burns are checked against total supply. Covers the pair (constant product and stableswap), the vault and the 3-pool."),
 "C14": ("exploration", "4 C14", "Every executed swap is preceded by the matching Simulation in the same state; attributes, balance deltas and ledger deltas must equal the quote field by field; router multi-hop quotes are compared with the receiver's realised balance increase."),
 "C15": ("exploration", "4 C15", "Boundary generator puts max_spread / belief_price / slippage_tolerance / minimum_receive one ulp around the realised values; acceptance and rejection are compared with exact rational bounds (one-sided, with the rounding band the fixed-point arithmetic is entitled to)."),
 "C17": ("fault_enumeration", "4 C17", "The complete product of {constant-product pair, stableswap pair, 3-pool, vault} x 2^3 toggle combinations x {empty, funded} is executed (64 cases per 64 run indices), every entry path of every operation is attempted under the toggles and again after re-enabling; a disabled path must fail with the full-chain fingerprint unchanged, an enabled path must never be refused as disabled and must succeed when liquidity is present; fresh contracts report all flags on."),

 "C08": ("exploration", "4 C08", "Histories of Bond / Unbond / Withdraw (single, several per block, several per multi-message tx, >30 records) by 3-5 users over 2 denoms on the real whale-lair behind the real fee distributor + collector (or a settable stub), on the clock alphabet around the unbonding period, with invalid variants and injected sub-call / bank / query faults; conservation (balance = bonded + unbonding), totals, per-record model agreement, withdraw pays exactly the caller's matured records, end-of-run liveness."),
 "C09": ("exploration", "4 C09", "HUB scenario (real collector, distributor, lair, factories, pairs, router, vaults): every Epoch{id} is mirrored after every transaction; ledger identity, roll-over exactly once into the newly created epoch, available backed by the distributor balance, claims paid once per (address, epoch), never for epochs that started before the bonding, payout = ledger decrease; grace-period changes mid-history."),
 "C10": ("exploration", "4 C10", "Per successful NewEpoch in the HUB scenario the balance deltas of pools, vaults, collector, DAO and distributor are compared with the model: pending fees collected, non-distribution assets either fully swapped through registered routes or untouched, DAO gets floor(rate x balance) recorded in TakeRateHistory, distributor delta = total - roll-over, conservation; ForwardFees by anyone else refused; sub-call / bank / query faults at k in 1..60 of the NewEpoch transaction must revert everything except for the documented query fallbacks."),
 "C11": ("exploration", "4 C11", "INCENT scenario (real incentive factory + incentive, pair, frontend helper; distributor mock as epoch source): LP custody equals positions + LP-asset flow funds after every step, positions only backed by received LP, withdraw pays exactly the caller's closed positions, helper retains nothing, sub-call faults inside the helper deposit chain revert everything."),
 "C12": ("exploration", "4 C12", "Flow funding model (received net of fee, claimed) compared with the Flow query and balances after every step over all fee/reward asset kind combinations, declared vs sent amounts, expansions, closes by creator / owner / stranger."),
 "C13": ("exploration", "4 C13", "Raw GLOBAL_WEIGHT vs sum of raw ADDRESS_WEIGHT after every step, weight monotonicity on paired positions, reward shares vs the snapshot with the permissionless snapshot placed anywhere in the epoch, second claim pays nothing, claims bounded by the epoch emission and equal to the Rewards query taken immediately before."),
 "C16": ("fault_enumeration", "4 C16", "The complete matrix of 42 privileged / internal-callback variants x {before, after ownership transfer} x 8 caller roles (504 existing cells; run index i executes cell i mod 504 with a payload valid by construction at a random point of background traffic) on the fully wired hub: an unauthorised caller must fail with the full-chain fingerprint unchanged, an authorised caller is never refused for authorisation, ownership transfer moves the rights."),
 "C18": ("exploration", "4 C18", "Sequences of instantiate / direct update / factory-mediated update / factory create with every bounded parameter on, just inside and just outside its bound through every write path; after every step the Config answers of every tracked instance are compared with the bounds of the property text and a rejected update must leave the fingerprint unchanged."),
 "C19": ("exploration", "4 C19", "Create / remove / re-create of pairs, trios, vaults, incentives over 6-8 native and cw20 assets in every order against a registry model keyed by asset set; lookups in every permutation, registry entry equals the child's own answers, paginated walks with every page size 1..31 and every cursor return the model set exactly once; router routes only over registered hops, hops over removed pairs never execute."),
 "C20": ("exploration", "4 C20", "Epoch manager (EPOCH scenario with 0..3 hook receivers that can be made to fail) and fee distributor (HUB scenario): creation attempts by anyone on the clock alphabet (before/at genesis, boundary -1 ns / 0 / +1 ns, k durations late, repeated in one block or one tx) against the exact model: accepted iff due, id+1, start = previous start + duration, k late periods = k consecutive creations, rejected attempt leaves the fingerprint unchanged, every hook notified exactly once per creation, failing hook reverts the creation."),
}

NOT_YET = {
}

FAULT_ENUM = {"C06", "C16", "C17"}

def main():
    checks = []
    for pid in sorted(CLAIMED):
        cat, ref, text = CLAIMED[pid]
        checks.append({
            "property_id": pid,
            "quick_cmd": f"./check {pid} quick",
            "thorough_cmd": f"./check {pid} thorough",
            "evidence_file": f"evidence/{pid}.json",
            "replay_cmd_template": f"./check {pid} --replay {{path}}",
            "engine": "wwsim",
            "level_claimed": {"category": cat, "text": text, "design_ref": f"DESIGN.md section {ref}"},
            "level_note": "Trusted base: cw-multi-test 0.16.5 as the chain (message routing, atomic commit/rollback, bank, MockApi), default cargo features only (no osmosis/injective/token-factory builds), sampled histories. Real code: all contracts and white-whale-std from /repo's working tree.",
            "technique": TECH,
        })
    m = {
        "version": 1,
        "setup_cmd": "cd sim && CARGO_NET_OFFLINE=true cargo build --release --offline",
        "hooks": {
            "guard": "wwcore_verif",
            "enable": "no hooks are needed: the simulator links the unmodified contract crates from /repo by path (and patches white-whale-std to /repo/packages/white-whale-std); the guard name is reserved only",
            "baseline_off_cmd": "cd /repo && cargo test --workspace --no-fail-fast --offline",
            "source_commits": [],
            "add_only": True,
        },
        "engines": [{
            "name": "wwsim",
            "path": "sim",
            "serves_properties": sorted(CLAIMED),
            "kind_free_text": "deterministic simulator: one cw-multi-test chain per run hosting the real contracts, seeded scheduler over users / block clock / faults, FaultyBank and fault-ticking contract wrappers as seams, reference-model oracles, ddmin shrinking, replay files",
        }],
        "checks": checks,
        "not_applicable": [{"property_id": k, "reason": v} for k, v in sorted(NOT_YET.items()) if k not in CLAIMED],
        "notes": "Exit codes: 0 held, 1 VIOLATION line (self-replayed in a fresh process first), 2 harness/build error. known_findings.json lists recorded findings and fixed defects.",
    }
    json.dump(m, open("MANIFEST.json", "w"), indent=1)
    print("claimed", sorted(CLAIMED), "unclaimed", [x["property_id"] for x in m["not_applicable"]])

if __name__ == "__main__":
    main()
