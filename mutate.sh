#!/bin/sh
# Sensitivity harness (not a registered check): applies a patch to a scratch worktree of /repo,
# builds a copy of the simulator against it and runs the named checks at quick size.
# usage: mutate.sh <patch> <ID> [ID...]     prints one line per check: CAUGHT / MISSED / ERROR
# env MUT_WT / MUT_SIM / MUT_SRC: scratch worktree, scratch simulator copy, simulator source (to run two at once);
# when /tmp/sim_stable/sim exists (a copy of the simulator taken at a commit) it is the default source, so that
# a pipeline running in the background is not disturbed by edits in progress
set -u
PATCH="$(realpath "$1")"; shift
WT=${MUT_WT:-/tmp/wt_mut}; SIM=${MUT_SIM:-/tmp/mut_sim}; SRC=${MUT_SRC:-$( [ -d /tmp/sim_stable/sim ] && echo /tmp/sim_stable/sim || echo /verif/sim )}
git -C /repo worktree remove --force "$WT" >/dev/null 2>&1
git -C /repo worktree add --detach "$WT" >/dev/null 2>&1 || { echo "ERROR worktree"; exit 2; }
if ! git -C "$WT" apply "$PATCH"; then echo "ERROR patch does not apply: $PATCH"; git -C /repo worktree remove --force "$WT"; exit 2; fi
mkdir -p "$SIM"
rsync -a --delete --exclude target "$SRC/" "$SIM/sim/"
cp /verif/known_findings.json "$SIM/"; rm -rf "$SIM/findings"; cp -r /verif/findings "$SIM/"
sed -i "s#/repo/#$WT/#g" "$SIM/sim/Cargo.toml"
cd "$SIM/sim" || exit 2
if ! CARGO_NET_OFFLINE=true cargo build --release --offline >build.log 2>&1; then echo "ERROR mutant does not build"; grep -E "^error" -A6 build.log | head -20; git -C /repo worktree remove --force "$WT"; exit 2; fi
for ID in "$@"; do
  out=$(WWSIM_VERIF_DIR="$SIM" ./target/release/wwsim check "$ID" --tier quick 2>&1); rc=$?
  case $rc in
    1) echo "CAUGHT $ID $(basename "$PATCH"): $(echo "$out" | grep '^violation:' | head -1 | cut -c1-260)";;
    0) echo "MISSED $ID $(basename "$PATCH")";;
    *) echo "ERROR  $ID $(basename "$PATCH"): $(echo "$out" | tail -2 | tr '\n' ' ' | cut -c1-300)";;
  esac
done
git -C /repo worktree remove --force "$WT" >/dev/null 2>&1
