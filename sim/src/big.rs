//! Exact integer helpers for the reference models (independent of cosmwasm's Decimal types).

pub use bnum::types::{U1024, U2048, U256, U512};

pub const E18: u128 = 1_000_000_000_000_000_000;

pub fn u256(x: u128) -> U256 {
    U256::from(x)
}
pub fn u512(x: u128) -> U512 {
    U512::from(x)
}
pub fn u1024(x: u128) -> U1024 {
    U1024::from(x)
}

pub fn to_u128_256(x: U256) -> Option<u128> {
    if x > U256::from(u128::MAX) {
        None
    } else {
        Some(x.digits()[0] as u128 | ((x.digits()[1] as u128) << 64))
    }
}
pub fn to_u128_512(x: U512) -> Option<u128> {
    if x > U512::from(u128::MAX) {
        None
    } else {
        Some(x.digits()[0] as u128 | ((x.digits()[1] as u128) << 64))
    }
}

/// floor(a*b/c) as exact wide integer
pub fn muldiv(a: u128, b: u128, c: u128) -> U256 {
    u256(a) * u256(b) / u256(c)
}

/// floor(a*b/c) if it fits u128
pub fn muldiv128(a: u128, b: u128, c: u128) -> Option<u128> {
    if c == 0 {
        return None;
    }
    to_u128_256(muldiv(a, b, c))
}

/// floor(share_atomics * x / 1e18): the fee formula stated by the properties
pub fn fee_of(share_atomics: u128, x: u128) -> u128 {
    to_u128_256(u256(share_atomics) * u256(x) / u256(E18)).expect("fee fits")
}

/// parse a decimal string with up to 18 fractional digits into atomics
pub fn dec_atomics(s: &str) -> u128 {
    let (i, f) = match s.split_once('.') {
        Some((i, f)) => (i, f),
        None => (s, ""),
    };
    let mut frac = f.to_string();
    assert!(frac.len() <= 18, "too many decimals: {s}");
    while frac.len() < 18 {
        frac.push('0');
    }
    let ip: u128 = if i.is_empty() { 0 } else { i.parse().unwrap() };
    ip * E18 + frac.parse::<u128>().unwrap()
}

pub fn atomics_to_dec(a: u128) -> String {
    let i = a / E18;
    let f = a % E18;
    if f == 0 {
        format!("{i}")
    } else {
        let s = format!("{:018}", f);
        format!("{i}.{}", s.trim_end_matches('0'))
    }
}

pub fn isqrt_u256(n: U256) -> U256 {
    if n == U256::ZERO {
        return n;
    }
    let mut x = U256::ONE << ((n.bits() + 1) / 2);
    loop {
        let y = (x + n / x) >> 1;
        if y >= x {
            return x;
        }
        x = y;
    }
}
