//! Run driver: seeded generation, oracle context, replay, shrinking, evidence.

use std::collections::{BTreeMap, BTreeSet};
use std::panic::{catch_unwind, AssertUnwindSafe};
use std::sync::atomic::{AtomicU64, Ordering};
use std::sync::{Arc, Mutex};

use serde::de::DeserializeOwned;
use serde::{Deserialize, Serialize};
use serde_json::{json, Value};
use sha2::{Digest, Sha256};

use crate::rng::{mix, Rng};

#[derive(Clone, Copy, Debug, PartialEq, Eq)]
pub enum Tier {
    Quick,
    Thorough,
}
impl Tier {
    pub fn name(&self) -> &'static str {
        match self {
            Tier::Quick => "quick",
            Tier::Thorough => "thorough",
        }
    }
}

#[derive(Serialize, Deserialize, Clone, Debug, PartialEq, Eq)]
pub struct Violation {
    pub property: String,
    /// id of the oracle that failed
    pub check: String,
    /// violation class within the oracle (used for shrinking and known-finding matching)
    pub sig: String,
    /// id of the known defect whose bug-compatible model explains the observation exactly
    pub known: Option<String>,
    pub step: usize,
    pub detail: String,
}

/// Known findings currently listed for the property under check: finding ids.
pub type KnownSet = Arc<BTreeSet<String>>;

pub struct Ctx {
    pub prop: String,
    pub known: KnownSet,
    pub step: usize,
    pub violation: Option<Violation>,
    pub known_hits: BTreeMap<String, u64>,
    pub known_first: BTreeMap<String, String>,
    pub other_prop_fails: BTreeMap<String, u64>,
    pub probes: BTreeMap<String, u64>,
    pub ops: BTreeMap<String, [u64; 3]>,
    pub faults: BTreeMap<String, u64>,
    pub evals: u64,
    pub txs: u64,
    pub states: Vec<u64>,
    pub bigrams: BTreeSet<(String, String)>,
    last_op: Option<String>,
    hasher: Sha256,
}

impl Ctx {
    pub fn new(prop: &str, known: KnownSet) -> Self {
        Ctx {
            prop: prop.to_string(),
            known,
            step: 0,
            violation: None,
            known_hits: BTreeMap::new(),
            known_first: BTreeMap::new(),
            other_prop_fails: BTreeMap::new(),
            probes: BTreeMap::new(),
            ops: BTreeMap::new(),
            faults: BTreeMap::new(),
            evals: 0,
            txs: 0,
            states: vec![],
            bigrams: BTreeSet::new(),
            last_op: None,
            hasher: Sha256::new(),
        }
    }
    /// Is `property` the one whose oracles report in this run?
    pub fn on(&self, property: &str) -> bool {
        self.prop == property
    }
    pub fn stopped(&self) -> bool {
        self.violation.is_some()
    }
    /// An oracle of `property` was evaluated (non-vacuously).
    pub fn eval(&mut self, property: &str) {
        if self.prop == property {
            self.evals += 1;
        }
    }
    /// Records an oracle failure.
    pub fn fail(&mut self, property: &str, check: &str, sig: &str, known: Option<&str>, detail: String) {
        if property != self.prop {
            *self.other_prop_fails.entry(property.to_string()).or_insert(0) += 1;
            return;
        }
        if let Some(k) = known {
            if self.known.contains(k) {
                *self.known_hits.entry(k.to_string()).or_insert(0) += 1;
                self.known_first
                    .entry(k.to_string())
                    .or_insert_with(|| format!("{check}/{sig}: {detail}"));
                self.trace(&format!("known:{k}"));
                return;
            }
        }
        if self.violation.is_none() {
            self.violation = Some(Violation {
                property: property.to_string(),
                check: check.to_string(),
                sig: sig.to_string(),
                known: known.map(|s| s.to_string()),
                step: self.step,
                detail,
            });
        }
    }
    pub fn probe(&mut self, name: &str) {
        *self.probes.entry(name.to_string()).or_insert(0) += 1;
    }
    pub fn fault(&mut self, name: &str) {
        *self.faults.entry(name.to_string()).or_insert(0) += 1;
    }
    /// kind: 0 ok, 1 err, 2 panic
    pub fn op(&mut self, name: &str, kind: usize) {
        self.ops.entry(name.to_string()).or_insert([0; 3])[kind] += 1;
        self.txs += 1;
        if let Some(prev) = self.last_op.take() {
            self.bigrams.insert((prev, name.to_string()));
        }
        self.last_op = Some(name.to_string());
    }
    pub fn trace(&mut self, s: &str) {
        // debugging aid for replays (stderr only; the digest is unaffected)
        if trace_echo() {
            eprintln!("trace[{}]: {s}", self.step);
        }
        self.hasher.update((s.len() as u32).to_be_bytes());
        self.hasher.update(s.as_bytes());
    }
    /// A state reached after a successful state-changing step on which the oracle was non-vacuous.
    pub fn state(&mut self, digest: &[u8]) {
        let mut b = [0u8; 8];
        b.copy_from_slice(&digest[..8]);
        self.states.push(u64::from_be_bytes(b));
    }
    pub fn state_of(&mut self, s: &str) {
        let d = Sha256::digest(s.as_bytes());
        self.state(&d);
    }
    pub fn digest(&self) -> String {
        hex::encode(self.hasher.clone().finalize())
    }
}

pub trait Scenario: Sized {
    const NAME: &'static str;
    type Cfg: Serialize + DeserializeOwned + Clone + std::fmt::Debug;
    type Step: Serialize + DeserializeOwned + Clone + std::fmt::Debug;
    /// Swarm configuration of one run; `idx` is the run index (used by enumerations).
    fn gen_cfg(rng: &mut Rng, prop: &str, tier: Tier, idx: u64) -> Self::Cfg;
    fn max_steps(cfg: &Self::Cfg) -> usize;
    fn build(cfg: &Self::Cfg, ctx: &mut Ctx) -> Self;
    /// State-aware generation of the next concrete step. `None` ends the run.
    fn gen_step(&mut self, rng: &mut Rng, ctx: &mut Ctx) -> Option<Self::Step>;
    fn apply(&mut self, step: &Self::Step, ctx: &mut Ctx);
    fn finish(&mut self, _ctx: &mut Ctx) {}
    /// Simpler variants of a step, tried by the shrinker.
    fn simplify(_step: &Self::Step) -> Vec<Self::Step> {
        vec![]
    }
    /// (simulated nanoseconds elapsed, simulated blocks elapsed)
    fn sim_clock(&self) -> (u64, u64);
}

pub struct RunOut {
    pub cfg: Value,
    pub steps: Vec<Value>,
    pub ctx: Ctx,
    pub sim_ns: u64,
    pub sim_blocks: u64,
    pub harness_error: Option<String>,
}

pub fn run_generated<S: Scenario>(seed: u64, prop: &str, tier: Tier, idx: u64, known: KnownSet) -> RunOut {
    let mut ctx = Ctx::new(prop, known);
    let mut rng = Rng::new(seed);
    let mut steps_v = vec![];
    let mut cfg_v = Value::Null;
    let mut clock = (0, 0);
    let r = catch_unwind(AssertUnwindSafe(|| {
        let cfg = S::gen_cfg(&mut rng, prop, tier, idx);
        cfg_v = serde_json::to_value(&cfg).unwrap();
        ctx.trace(&cfg_v.to_string());
        let mut s = S::build(&cfg, &mut ctx);
        let max = S::max_steps(&cfg);
        while ctx.step < max && !ctx.stopped() {
            let Some(step) = s.gen_step(&mut rng, &mut ctx) else { break };
            steps_v.push(serde_json::to_value(&step).unwrap());
            s.apply(&step, &mut ctx);
            ctx.step += 1;
        }
        if !ctx.stopped() {
            s.finish(&mut ctx);
        }
        clock = s.sim_clock();
    }));
    let harness_error = r.err().map(|_| {
        format!(
            "harness panic in scenario {} seed {seed}: {}",
            S::NAME,
            crate::world::last_panic()
        )
    });
    RunOut {
        cfg: cfg_v,
        steps: steps_v,
        ctx,
        sim_ns: clock.0,
        sim_blocks: clock.1,
        harness_error,
    }
}

pub fn run_replay<S: Scenario>(cfg: &Value, steps: &[Value], prop: &str, known: KnownSet) -> RunOut {
    let mut ctx = Ctx::new(prop, known);
    let mut clock = (0, 0);
    let r = catch_unwind(AssertUnwindSafe(|| {
        let cfg_t: S::Cfg = serde_json::from_value(cfg.clone()).expect("replay: bad cfg");
        ctx.trace(&cfg.to_string());
        let mut s = S::build(&cfg_t, &mut ctx);
        for st in steps {
            if ctx.stopped() {
                break;
            }
            let step: S::Step = serde_json::from_value(st.clone()).expect("replay: bad step");
            s.apply(&step, &mut ctx);
            ctx.step += 1;
        }
        if !ctx.stopped() {
            s.finish(&mut ctx);
        }
        clock = s.sim_clock();
    }));
    let harness_error = r
        .err()
        .map(|_| format!("harness panic in replay of {}: {}", S::NAME, crate::world::last_panic()));
    RunOut {
        cfg: cfg.clone(),
        steps: steps.to_vec(),
        ctx,
        sim_ns: clock.0,
        sim_blocks: clock.1,
        harness_error,
    }
}

fn simplify_erased<S: Scenario>(step: &Value) -> Vec<Value> {
    match serde_json::from_value::<S::Step>(step.clone()) {
        Ok(s) => S::simplify(&s)
            .into_iter()
            .map(|x| serde_json::to_value(&x).unwrap())
            .collect(),
        Err(_) => vec![],
    }
}

/// Type-erased scenario.
#[derive(Clone, Copy)]
pub struct ScenDef {
    pub name: &'static str,
    pub generate: fn(u64, &str, Tier, u64, KnownSet) -> RunOut,
    pub replay: fn(&Value, &[Value], &str, KnownSet) -> RunOut,
    pub simplify: fn(&Value) -> Vec<Value>,
}

pub fn scen<S: Scenario>() -> ScenDef {
    ScenDef {
        name: S::NAME,
        generate: run_generated::<S>,
        replay: run_replay::<S>,
        simplify: simplify_erased::<S>,
    }
}

/// How a property is decided: which scenarios, how many runs per tier.
pub struct Plan {
    pub property: &'static str,
    pub level: &'static str,
    pub rule: &'static str,
    pub parts: Vec<PlanPart>,
    pub real: Vec<&'static str>,
    pub stubbed: Vec<&'static str>,
    pub assumptions: Vec<&'static str>,
    /// probes that must be hit at least once in a thorough run, else reported as coverage gap
    pub want_probes: Vec<&'static str>,
    pub exhaustive: bool,
}

pub struct PlanPart {
    pub scen: ScenDef,
    pub quick_runs: u64,
    pub thorough_runs: u64,
}

// ---------------------------------------------------------------------------------------------
// known findings
// ---------------------------------------------------------------------------------------------

#[derive(Serialize, Deserialize, Clone, Debug)]
pub struct KnownFinding {
    pub id: String,
    pub property: String,
    pub what: String,
    /// replay file (relative to /verif) that demonstrates it
    pub replay: String,
}

#[derive(Serialize, Deserialize, Clone, Debug, Default)]
pub struct KnownFile {
    #[serde(default)]
    pub known: Vec<KnownFinding>,
    #[serde(default)]
    pub fixed: Vec<String>,
}

pub fn verif_dir() -> std::path::PathBuf {
    if let Ok(d) = std::env::var("WWSIM_VERIF_DIR") {
        return d.into();
    }
    // the binary lives in <verif>/sim/target/release/
    let exe = std::env::current_exe().unwrap();
    let mut p = exe.as_path();
    for _ in 0..4 {
        p = p.parent().unwrap();
    }
    p.to_path_buf()
}

pub fn load_known() -> KnownFile {
    let p = verif_dir().join("known_findings.json");
    match std::fs::read_to_string(&p) {
        Ok(s) => serde_json::from_str(&s).unwrap_or_else(|e| {
            eprintln!("harness: cannot parse {}: {e}", p.display());
            std::process::exit(2)
        }),
        Err(_) => KnownFile::default(),
    }
}

// ---------------------------------------------------------------------------------------------
// replay files
// ---------------------------------------------------------------------------------------------

#[derive(Serialize, Deserialize, Clone, Debug)]
pub struct ReplayFile {
    pub property: String,
    pub scenario: String,
    pub seed: u64,
    pub run_index: u64,
    pub cfg: Value,
    pub steps: Vec<Value>,
    pub violation: Option<Violation>,
    pub trace_digest: String,
    #[serde(default)]
    pub note: String,
}

// ---------------------------------------------------------------------------------------------
// shrinking
// ---------------------------------------------------------------------------------------------

fn same_class(a: &Violation, b: &Violation) -> bool {
    a.property == b.property && a.check == b.check && a.sig == b.sig && a.known == b.known
}

/// Shrinks (cfg, steps) while the same violation class persists.
pub fn shrink(
    sd: &ScenDef,
    prop: &str,
    known: KnownSet,
    cfg: &Value,
    steps: Vec<Value>,
    target: &Violation,
    budget: usize,
) -> (Vec<Value>, Violation, usize) {
    let mut used = 0usize;
    let mut best = steps;
    let mut best_v = target.clone();
    // 1. truncate after the failing step
    if best_v.step + 1 < best.len() {
        best.truncate(best_v.step + 1);
    }
    let mut try_steps = |cand: &[Value], used: &mut usize| -> Option<Violation> {
        *used += 1;
        let out = (sd.replay)(cfg, cand, prop, known.clone());
        if out.harness_error.is_some() {
            return None;
        }
        match out.ctx.violation {
            Some(v) if same_class(&v, target) => Some(v),
            _ => None,
        }
    };
    // 2. ddmin-like chunk removal
    let mut chunk = (best.len() / 2).max(1);
    while chunk >= 1 && used < budget {
        let mut i = 0;
        let mut progressed = false;
        while i < best.len() && used < budget {
            let end = (i + chunk).min(best.len());
            if end - i == best.len() {
                i = end;
                continue;
            }
            let mut cand = best[..i].to_vec();
            cand.extend_from_slice(&best[end..]);
            if let Some(v) = try_steps(&cand, &mut used) {
                best = cand;
                best_v = v;
                if best_v.step + 1 < best.len() {
                    best.truncate(best_v.step + 1);
                }
                progressed = true;
            } else {
                i = end;
            }
        }
        if chunk == 1 && !progressed {
            break;
        }
        if !progressed {
            chunk /= 2;
        }
    }
    // 3. per-step simplification
    let mut changed = true;
    while changed && used < budget {
        changed = false;
        for i in 0..best.len() {
            if used >= budget {
                break;
            }
            for alt in (sd.simplify)(&best[i]) {
                if used >= budget {
                    break;
                }
                if alt == best[i] {
                    continue;
                }
                let mut cand = best.clone();
                cand[i] = alt;
                if let Some(v) = try_steps(&cand, &mut used) {
                    best = cand;
                    best_v = v;
                    changed = true;
                    break;
                }
            }
        }
    }
    (best, best_v, used)
}

// ---------------------------------------------------------------------------------------------
// batch execution
// ---------------------------------------------------------------------------------------------

#[derive(Default)]
pub struct Agg {
    pub runs: u64,
    pub txs: u64,
    pub evals: u64,
    pub steps: u64,
    pub sim_ns: u128,
    pub sim_blocks: u128,
    pub probes: BTreeMap<String, u64>,
    pub ops: BTreeMap<String, [u64; 3]>,
    pub faults: BTreeMap<String, u64>,
    pub known_hits: BTreeMap<String, u64>,
    pub known_first: BTreeMap<String, String>,
    pub other_prop_fails: BTreeMap<String, u64>,
    pub states: std::collections::HashSet<u64>,
    pub bigrams: BTreeSet<(String, String)>,
    pub samples: Vec<Value>,
    pub digests: Vec<(u64, String)>,
}

impl Agg {
    fn absorb(&mut self, idx: u64, scen: &str, out: &RunOut) {
        self.runs += 1;
        self.txs += out.ctx.txs;
        self.evals += out.ctx.evals;
        self.steps += out.steps.len() as u64;
        self.sim_ns += out.sim_ns as u128;
        self.sim_blocks += out.sim_blocks as u128;
        for (k, v) in &out.ctx.probes {
            *self.probes.entry(k.clone()).or_insert(0) += v;
        }
        for (k, v) in &out.ctx.ops {
            let e = self.ops.entry(k.clone()).or_insert([0; 3]);
            for i in 0..3 {
                e[i] += v[i];
            }
        }
        for (k, v) in &out.ctx.faults {
            *self.faults.entry(k.clone()).or_insert(0) += v;
        }
        for (k, v) in &out.ctx.known_hits {
            *self.known_hits.entry(k.clone()).or_insert(0) += v;
        }
        for (k, v) in &out.ctx.known_first {
            self.known_first.entry(k.clone()).or_insert_with(|| v.clone());
        }
        for (k, v) in &out.ctx.other_prop_fails {
            *self.other_prop_fails.entry(k.clone()).or_insert(0) += v;
        }
        for s in &out.ctx.states {
            self.states.insert(*s);
        }
        for b in &out.ctx.bigrams {
            self.bigrams.insert(b.clone());
        }
        if self.samples.len() < 3 && !out.steps.is_empty() && idx % 7 == 0 {
            let n = out.steps.len().min(12);
            self.samples.push(json!({
                "scenario": scen,
                "run_index": idx,
                "cfg": out.cfg,
                "steps_total": out.steps.len(),
                "first_steps": out.steps[..n],
            }));
        }
    }
}

pub struct Failure {
    pub scen: ScenDef,
    pub idx: u64,
    pub seed: u64,
    pub out: RunOut,
}

pub struct BatchResult {
    pub agg: Agg,
    pub failure: Option<Failure>,
    pub harness_error: Option<String>,
}

pub fn run_seed(base: u64, prop: &str, scen: &str, idx: u64) -> u64 {
    mix(base, &format!("{prop}/{scen}"), idx)
}

/// Runs `n` runs of one scenario on `workers` threads. The result does not depend on the
/// number of workers: on a violation the one with the smallest run index is reported.
pub fn run_batch(
    sd: ScenDef,
    prop: &str,
    tier: Tier,
    base_seed: u64,
    n: u64,
    workers: usize,
    known: KnownSet,
    collect_digests: bool,
) -> BatchResult {
    let next = AtomicU64::new(0);
    let min_fail = AtomicU64::new(u64::MAX);
    let agg = Mutex::new(Agg::default());
    let failure: Mutex<Option<Failure>> = Mutex::new(None);
    let herr: Mutex<Option<(u64, String)>> = Mutex::new(None);
    std::thread::scope(|sc| {
        for _ in 0..workers.max(1) {
            sc.spawn(|| {
                let mut local = Agg::default();
                loop {
                    let idx = next.fetch_add(1, Ordering::SeqCst);
                    if idx >= n || idx > min_fail.load(Ordering::SeqCst) {
                        break;
                    }
                    let seed = run_seed(base_seed, prop, sd.name, idx);
                    let out = (sd.generate)(seed, prop, tier, idx, known.clone());
                    if let Some(e) = &out.harness_error {
                        // a run the harness could not follow is not a verdict: remember it (the check ends
                        // with exit 2 unless another run shows a genuine violation) and go on
                        let mut h = herr.lock().unwrap();
                        match &*h {
                            Some((i0, _)) if *i0 <= idx => {}
                            _ => *h = Some((idx, e.clone())),
                        }
                        continue;
                    }
                    if collect_digests {
                        local.digests.push((idx, out.ctx.digest()));
                    }
                    if out.ctx.violation.is_some() {
                        min_fail.fetch_min(idx, Ordering::SeqCst);
                        let mut f = failure.lock().unwrap();
                        let better = match &*f {
                            None => true,
                            Some(o) => idx < o.idx,
                        };
                        if better {
                            *f = Some(Failure {
                                scen: sd,
                                idx,
                                seed,
                                out,
                            });
                        }
                        continue;
                    }
                    local.absorb(idx, sd.name, &out);
                }
                // merge
                let mut a = agg.lock().unwrap();
                a.runs += local.runs;
                a.txs += local.txs;
                a.evals += local.evals;
                a.steps += local.steps;
                a.sim_ns += local.sim_ns;
                a.sim_blocks += local.sim_blocks;
                for (k, v) in local.probes {
                    *a.probes.entry(k).or_insert(0) += v;
                }
                for (k, v) in local.ops {
                    let e = a.ops.entry(k).or_insert([0; 3]);
                    for i in 0..3 {
                        e[i] += v[i];
                    }
                }
                for (k, v) in local.faults {
                    *a.faults.entry(k).or_insert(0) += v;
                }
                for (k, v) in local.known_hits {
                    *a.known_hits.entry(k).or_insert(0) += v;
                }
                for (k, v) in local.known_first {
                    a.known_first.entry(k).or_insert(v);
                }
                for (k, v) in local.other_prop_fails {
                    *a.other_prop_fails.entry(k).or_insert(0) += v;
                }
                a.states.extend(local.states);
                a.bigrams.extend(local.bigrams);
                a.samples.extend(local.samples);
                a.digests.extend(local.digests);
            });
        }
    });
    let mut agg = agg.into_inner().unwrap();
    agg.samples.sort_by_key(|s| s["run_index"].as_u64().unwrap_or(0));
    agg.samples.truncate(3);
    agg.digests.sort();
    BatchResult {
        agg,
        failure: failure.into_inner().unwrap(),
        harness_error: herr.into_inner().unwrap().map(|(_, e)| e),
    }
}

pub fn merge_agg(a: &mut Agg, b: Agg) {
    a.runs += b.runs;
    a.txs += b.txs;
    a.evals += b.evals;
    a.steps += b.steps;
    a.sim_ns += b.sim_ns;
    a.sim_blocks += b.sim_blocks;
    for (k, v) in b.probes {
        *a.probes.entry(k).or_insert(0) += v;
    }
    for (k, v) in b.ops {
        let e = a.ops.entry(k).or_insert([0; 3]);
        for i in 0..3 {
            e[i] += v[i];
        }
    }
    for (k, v) in b.faults {
        *a.faults.entry(k).or_insert(0) += v;
    }
    for (k, v) in b.known_hits {
        *a.known_hits.entry(k).or_insert(0) += v;
    }
    for (k, v) in b.known_first {
        a.known_first.entry(k).or_insert(v);
    }
    for (k, v) in b.other_prop_fails {
        *a.other_prop_fails.entry(k).or_insert(0) += v;
    }
    a.states.extend(b.states);
    a.bigrams.extend(b.bigrams);
    a.samples.extend(b.samples);
    a.samples.truncate(4);
    a.digests.extend(b.digests);
}

fn trace_echo() -> bool {
    static ON: std::sync::OnceLock<bool> = std::sync::OnceLock::new();
    *ON.get_or_init(|| std::env::var_os("WWSIM_TRACE").is_some())
}
