mod big;
mod core;
mod plans;
mod rng;
mod scen;
mod world;

use std::collections::BTreeSet;
use std::sync::Arc;
use std::time::Instant;

use serde_json::{json, Value};

use crate::core::*;

const DEFAULT_SEED: u64 = 20260928;

fn usage() -> ! {
    eprintln!(
        "usage: wwsim check <ID> [--tier quick|thorough] [--seed N] [--workers N] [--runs-scale F]\n       wwsim replay <file> [--quiet]\n       wwsim selftest [--seeds N]\n       wwsim list"
    );
    std::process::exit(2)
}

fn main() {
    world::install_panic_hook();
    let args: Vec<String> = std::env::args().collect();
    if args.len() < 2 {
        usage();
    }
    let code = match args[1].as_str() {
        "check" => cmd_check(&args[2..]),
        "replay" => cmd_replay(&args[2..]),
        "selftest" => cmd_selftest(&args[2..]),
        "list" => {
            for p in plans::all_ids() {
                println!("{p}");
            }
            0
        }
        _ => usage(),
    };
    std::process::exit(code);
}

fn arg_val(args: &[String], name: &str) -> Option<String> {
    args.iter().position(|a| a == name).and_then(|i| args.get(i + 1).cloned())
}

fn seed_from(args: &[String]) -> u64 {
    if let Some(s) = arg_val(args, "--seed") {
        return s.parse().unwrap_or(DEFAULT_SEED);
    }
    match std::env::var("VERIF_SEED") {
        Ok(s) if !s.trim().is_empty() => s.trim().parse().unwrap_or_else(|_| {
            // non-numeric seeds are hashed
            rng::mix(0, s.trim(), 0)
        }),
        _ => DEFAULT_SEED,
    }
}

fn workers_from(args: &[String]) -> usize {
    arg_val(args, "--workers")
        .and_then(|s| s.parse().ok())
        .or_else(|| std::env::var("WWSIM_WORKERS").ok().and_then(|s| s.parse().ok()))
        .unwrap_or_else(|| std::thread::available_parallelism().map(|n| n.get()).unwrap_or(8))
}

fn known_set_for(prop: &str, kf: &KnownFile) -> KnownSet {
    Arc::new(
        kf.known
            .iter()
            .filter(|k| k.property == prop)
            .map(|k| k.id.clone())
            .collect::<BTreeSet<_>>(),
    )
}

fn find_scen(plan: &Plan, name: &str) -> Option<ScenDef> {
    plan.parts.iter().find(|p| p.scen.name == name).map(|p| p.scen)
}

fn cmd_check(args: &[String]) -> i32 {
    if args.is_empty() {
        usage();
    }
    let id = args[0].clone();
    let tier = match arg_val(args, "--tier")
        .or_else(|| std::env::var("VERIF_TIER").ok())
        .as_deref()
    {
        Some("thorough") => Tier::Thorough,
        _ => Tier::Quick,
    };
    let seed = seed_from(args);
    let workers = workers_from(args);
    let scale: f64 = arg_val(args, "--runs-scale").and_then(|s| s.parse().ok()).unwrap_or(1.0);
    let Some(plan) = plans::plan_for(&id) else {
        eprintln!("harness: no check for property {id}");
        return 2;
    };
    let kf = load_known();
    let known = known_set_for(&id, &kf);
    let t0 = Instant::now();
    println!("wwsim check property={id} tier={} seed={seed} workers={workers}", tier.name());

    // 1. re-execute the committed replay of every listed finding of this property
    let mut known_seen = vec![];
    for k in kf.known.iter().filter(|k| k.property == id) {
        let path = verif_dir().join(&k.replay);
        let rf: ReplayFile = match std::fs::read_to_string(&path).ok().and_then(|s| serde_json::from_str(&s).ok()) {
            Some(r) => r,
            None => {
                eprintln!("harness: known finding {} has no readable replay {}", k.id, path.display());
                return 2;
            }
        };
        let Some(sd) = find_scen(&plan, &rf.scenario) else {
            eprintln!("harness: known finding {} refers to unknown scenario {}", k.id, rf.scenario);
            return 2;
        };
        let out = (sd.replay)(&rf.cfg, &rf.steps, &id, known.clone());
        if let Some(e) = out.harness_error {
            eprintln!("harness: {e}");
            return 2;
        }
        if out.ctx.known_hits.get(&k.id).copied().unwrap_or(0) > 0 {
            println!("KNOWN-FINDING: property={id} {} {}", k.id, k.what);
            known_seen.push(k.id.clone());
        } else {
            println!("note: listed finding {} no longer reproduces from {}", k.id, k.replay);
        }
        if let Some(v) = out.ctx.violation {
            // the committed replay shows something the list does not explain
            return report_violation(&plan, sd, &id, seed, 0, &rf.cfg, rf.steps.clone(), &v, known.clone());
        }
    }

    // 2. seeded exploration
    let mut agg = Agg::default();
    let mut per_scen = vec![];
    for part in &plan.parts {
        let n0 = if tier == Tier::Quick { part.quick_runs } else { part.thorough_runs };
        let n = ((n0 as f64) * scale).ceil() as u64;
        if n == 0 {
            continue;
        }
        let ts = Instant::now();
        let br = run_batch(part.scen, &id, tier, seed, n, workers, known.clone(), false);
        if let (Some(e), None) = (&br.harness_error, &br.failure) {
            eprintln!("harness: {e}");
            return 2;
        }
        if let Some(e) = &br.harness_error {
            eprintln!("note: a run was abandoned ({e}); a violation found by another run is reported");
        }
        if let Some(f) = br.failure {
            let v = f.out.ctx.violation.clone().unwrap();
            merge_agg(&mut agg, br.agg);
            let rc = report_violation(&plan, f.scen, &id, seed, f.idx, &f.out.cfg, f.out.steps.clone(), &v, known.clone());
            if rc == 1 {
                let replay = verif_dir().join("replays").join(format!("{id}-{}-{seed}-{}.json", f.scen.name, f.idx));
                agg.samples.insert(0, json!({"violation": v, "replay": replay.display().to_string()}));
                agg.samples.truncate(3);
                write_evidence(&plan, &id, tier, seed, &agg, t0.elapsed().as_secs_f64(), &per_scen, &known_seen, 1);
            }
            return rc;
        }
        per_scen.push(json!({"scenario": part.scen.name, "runs": br.agg.runs, "transactions": br.agg.txs, "wall_s": ts.elapsed().as_secs_f64()}));
        merge_agg(&mut agg, br.agg);
    }
    let wall = t0.elapsed().as_secs_f64();
    for (k, n) in &agg.known_hits {
        if !known_seen.contains(k) {
            let what = kf.known.iter().find(|x| &x.id == k && x.property == id).map(|x| x.what.clone()).unwrap_or_default();
            println!("KNOWN-FINDING: property={id} {k} {what}");
            known_seen.push(k.clone());
        }
        println!("note: known finding {k} was met {n} times during exploration");
    }
    write_evidence(&plan, &id, tier, seed, &agg, wall, &per_scen, &known_seen, 0);
    let mut gaps = vec![];
    for p in &plan.want_probes {
        if agg.probes.get(*p).copied().unwrap_or(0) == 0 {
            gaps.push(*p);
        }
    }
    println!(
        "OK property={id} runs={} transactions={} oracle_evaluations={} distinct_states={} wall={:.1}s{}",
        agg.runs,
        agg.txs,
        agg.evals,
        agg.states.len(),
        wall,
        if gaps.is_empty() { String::new() } else { format!(" coverage_gaps={gaps:?}") }
    );
    0
}

#[allow(clippy::too_many_arguments)]
fn report_violation(
    plan: &Plan,
    sd: ScenDef,
    id: &str,
    seed: u64,
    idx: u64,
    cfg: &Value,
    steps: Vec<Value>,
    v: &Violation,
    known: KnownSet,
) -> i32 {
    let n0 = steps.len();
    let (min_steps, min_v, used) = shrink(&sd, id, known.clone(), cfg, steps, v, 1500);
    // deterministic replay of the minimised history, twice in-process
    let out = (sd.replay)(cfg, &min_steps, id, known.clone());
    let digest = out.ctx.digest();
    let dir = verif_dir().join("replays");
    let _ = std::fs::create_dir_all(&dir);
    let path = dir.join(format!("{id}-{}-{seed}-{idx}.json", sd.name));
    let rf = ReplayFile {
        property: id.to_string(),
        scenario: sd.name.to_string(),
        seed,
        run_index: idx,
        cfg: cfg.clone(),
        steps: min_steps.clone(),
        violation: Some(min_v.clone()),
        trace_digest: digest.clone(),
        note: format!("minimised from {n0} to {} steps with {used} re-executions", min_steps.len()),
    };
    std::fs::write(&path, serde_json::to_string_pretty(&rf).unwrap()).expect("write replay");
    // self-replay in a fresh process; must reproduce exactly
    let exe = std::env::current_exe().unwrap();
    let st = std::process::Command::new(exe)
        .arg("replay")
        .arg(&path)
        .arg("--quiet")
        .env("WWSIM_VERIF_DIR", verif_dir())
        .status();
    match st {
        Ok(s) if s.code() == Some(1) => {}
        other => {
            eprintln!("harness: violation did not replay identically in a fresh process ({other:?}); file {}", path.display());
            return 2;
        }
    }
    println!(
        "violation: property={id} check={} class={} step={} : {}",
        min_v.check, min_v.sig, min_v.step, min_v.detail
    );
    println!("VIOLATION property={id} replay={}", path.display());
    let _ = plan;
    1
}

fn cmd_replay(args: &[String]) -> i32 {
    if args.is_empty() {
        usage();
    }
    let quiet = args.iter().any(|a| a == "--quiet");
    let s = match std::fs::read_to_string(&args[0]) {
        Ok(s) => s,
        Err(e) => {
            eprintln!("harness: cannot read {}: {e}", args[0]);
            return 2;
        }
    };
    let rf: ReplayFile = match serde_json::from_str(&s) {
        Ok(r) => r,
        Err(e) => {
            eprintln!("harness: bad replay file: {e}");
            return 2;
        }
    };
    let Some(plan) = plans::plan_for(&rf.property) else {
        eprintln!("harness: unknown property {}", rf.property);
        return 2;
    };
    let Some(sd) = find_scen(&plan, &rf.scenario) else {
        eprintln!("harness: unknown scenario {}", rf.scenario);
        return 2;
    };
    let kf = load_known();
    let known = known_set_for(&rf.property, &kf);
    let out = (sd.replay)(&rf.cfg, &rf.steps, &rf.property, known);
    if let Some(e) = out.harness_error {
        eprintln!("harness: {e}");
        return 2;
    }
    let digest = out.ctx.digest();
    match (&out.ctx.violation, &rf.violation) {
        (Some(v), Some(exp)) => {
            let same = v == exp && digest == rf.trace_digest;
            if !quiet {
                println!("replayed violation: check={} class={} step={} : {}", v.check, v.sig, v.step, v.detail);
                println!("trace_digest={digest} expected={} identical={same}", rf.trace_digest);
            }
            if same {
                if !quiet {
                    println!("VIOLATION property={} replay={}", rf.property, args[0]);
                }
                1
            } else {
                eprintln!("harness: replay diverged from the recorded violation");
                2
            }
        }
        (Some(v), None) => {
            println!("replayed violation (none recorded): check={} class={} : {}", v.check, v.sig, v.detail);
            println!("VIOLATION property={} replay={}", rf.property, args[0]);
            1
        }
        (None, _) => {
            if !quiet {
                for (k, n) in &out.ctx.known_hits {
                    println!("KNOWN-FINDING: property={} {k} (met {n} times in this replay): {}", rf.property, out.ctx.known_first.get(k).cloned().unwrap_or_default());
                }
                println!("no violation on replay; trace_digest={digest}");
            }
            0
        }
    }
}

/// Determinism self-test: every scenario, many seeds, twice with different worker counts.
fn cmd_selftest(args: &[String]) -> i32 {
    let n: u64 = arg_val(args, "--seeds").and_then(|s| s.parse().ok()).unwrap_or(300);
    let only = arg_val(args, "--property");
    let kf = load_known();
    let mut bad = 0;
    for id in plans::all_ids() {
        if let Some(o) = &only {
            if o != id {
                continue;
            }
        }
        let plan = plans::plan_for(id).unwrap();
        let known = known_set_for(id, &kf);
        for part in &plan.parts {
            let a = run_batch(part.scen, id, Tier::Quick, DEFAULT_SEED, n, 16, known.clone(), true);
            let b = run_batch(part.scen, id, Tier::Quick, DEFAULT_SEED, n, 3, known.clone(), true);
            if a.harness_error.is_some() || b.harness_error.is_some() {
                eprintln!("harness error in selftest: {:?} {:?}", a.harness_error, b.harness_error);
                return 2;
            }
            let same = a.agg.digests == b.agg.digests;
            // print a digest of digests so that separate processes can be compared
            let mut h = sha2::Sha256::default();
            use sha2::Digest;
            for (i, d) in &a.agg.digests {
                h.update(i.to_be_bytes());
                h.update(d.as_bytes());
            }
            println!("selftest {id} {} seeds={n} same_across_worker_counts={same} digest={}", part.scen.name, hex::encode(h.finalize()));
            if !same {
                bad += 1;
            }
        }
    }
    if bad > 0 {
        2
    } else {
        0
    }
}

#[allow(clippy::too_many_arguments)]
fn write_evidence(
    plan: &Plan,
    id: &str,
    tier: Tier,
    seed: u64,
    agg: &Agg,
    wall: f64,
    per_scen: &[Value],
    known_seen: &[String],
    violations: u64,
) {
    let ops: serde_json::Map<String, Value> = agg
        .ops
        .iter()
        .map(|(k, v)| (k.clone(), json!({"ok": v[0], "err": v[1], "panic": v[2]})))
        .collect();
    let mut gaps = vec![];
    for p in &plan.want_probes {
        if agg.probes.get(*p).copied().unwrap_or(0) == 0 {
            gaps.push(p.to_string());
        }
    }
    let ev = json!({
        "property_id": id,
        "tier": tier.name(),
        "seed": seed,
        "level": plan.level,
        "wall_s": wall,
        "violations": violations,
        "coverage": {
            "evaluations": agg.txs.max(agg.evals),
            "distinct_nontrivial": agg.states.len(),
            "rule": plan.rule,
            "samples": agg.samples,
            "exhaustive": plan.exhaustive,
            "runs": agg.runs,
            "runs_per_hour": if wall > 0.0 { (agg.runs as f64 / wall * 3600.0) as u64 } else { 0 },
            "transactions": agg.txs,
            "oracle_evaluations": agg.evals,
            "steps": agg.steps,
            "base_seed": seed,
            "run_seed_rule": "run_seed = mix(base_seed, property/scenario, run_index); run indices 0..runs",
            "simulated_time_s": (agg.sim_ns / 1_000_000_000) as u64,
            "simulated_blocks": agg.sim_blocks as u64,
            "ops": ops,
            "faults_fired": agg.faults,
            "probes": agg.probes,
            "probe_gaps": gaps,
            "op_bigrams_distinct": agg.bigrams.len(),
            "per_scenario": per_scen,
            "real_components": plan.real,
            "stubbed_components": plan.stubbed,
            "known_findings_seen": known_seen,
            "known_finding_hits": agg.known_hits,
            "other_property_oracle_failures_ignored": agg.other_prop_fails,
        },
        "assumptions": plan.assumptions,
    });
    let dir = verif_dir().join("evidence");
    let _ = std::fs::create_dir_all(&dir);
    std::fs::write(dir.join(format!("{id}.json")), serde_json::to_string_pretty(&ev).unwrap()).expect("write evidence");
}
