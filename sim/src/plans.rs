//! Which scenarios decide which property, and with how many runs per tier.

use crate::core::*;
use crate::scen;

const STUBS: [&str; 4] = [
    "chain: cw-multi-test 0.16.5 message router / atomic commit-rollback / MockApi / MockStorage",
    "bank module: cw-multi-test BankKeeper behind the FaultyBank seam",
    "no wasm VM, no gas, no IBC, no staking",
    "osmosis / injective / token-factory feature builds are not covered",
];

const POOL_REAL: [&str; 6] = [
    "terraswap_pair (real, from /repo)",
    "terraswap_factory (real)",
    "terraswap_router (real)",
    "terraswap_token / cw20-base (real)",
    "stableswap_3pool code stored (real)",
    "white-whale-std from /repo/packages (patched over the registry copy)",
];

fn pool2_plan(id: &'static str, rule: &'static str, quick: u64, thorough: u64, want: Vec<&'static str>) -> Plan {
    Plan {
        property: id,
        level: "exploration",
        rule,
        parts: vec![PlanPart {
            scen: scen::<scen::pool2::Pool2>(),
            quick_runs: quick,
            thorough_runs: thorough,
        }],
        real: POOL_REAL.to_vec(),
        stubbed: STUBS.to_vec(),
        assumptions: vec![
            "sampled histories, not all histories",
            "cw-multi-test executes messages, sub-messages, replies and rollbacks like wasmd",
        ],
        want_probes: want,
        exhaustive: false,
    }
}

const VAULT_REAL: [&str; 5] = [
    "vault (real, from /repo)",
    "vault_factory (real)",
    "vault_router (real)",
    "terraswap_token / cw20-base as LP and as vault asset (real)",
    "borrower: harness contract executing generated adversary programs (stub by design)",
];

fn pool3_part(quick: u64, thorough: u64) -> PlanPart {
    PlanPart { scen: scen::<scen::pool3::Pool3>(), quick_runs: quick, thorough_runs: thorough }
}

fn vault_part(quick: u64, thorough: u64) -> PlanPart {
    PlanPart { scen: scen::<scen::vault::VaultScen>(), quick_runs: quick, thorough_runs: thorough }
}

pub fn all_ids() -> Vec<&'static str> {
    vec!["C01", "C02", "C03", "C04", "C05", "C06", "C07", "C14", "C15", "C17"]
}

pub fn plan_for(id: &str) -> Option<Plan> {
    const RULE: &str = "seeded swarm runs of POOL2: each run draws asset kinds, fee triple, magnitude class, users, op weights, fault switch and a history (<=200 steps) of provide/withdraw/swap/collect/set-fees/donate/round-trip/deposit-withdraw/router ops; a case counts as distinct non-trivial when a successful state-changing step leaves a not yet seen (reserves, LP supply, pending fees, LP balances, pool balances) state";
    const VRULE: &str = "seeded swarm runs of VAULT: asset kind, fee triple, magnitude, users, op weights, fault switch and a history (<=200 steps) of deposit/withdraw/flash loan (direct or via router, with generated borrower programs up to nesting depth 3)/collect/set-fees/donate/deposit-withdraw; distinct = unseen (vault balance, pending fees, LP supply, LP balances) after a successful step";
    match id {
        "C01" => Some(pool2_plan("C01", RULE, 6000, 400_000, vec!["first_deposit_isqrt_boundary", "deposit_withdraw_completed", "withdraw_everything_withdrawable"])),
        "C02" => Some(pool2_plan("C02", RULE, 6000, 400_000, vec!["roundtrip_completed", "ratio_gt_1e18"])),
        "C07" => {
            let mut p = pool2_plan("C07", RULE, 5000, 250_000, vec!["collect_below_threshold", "collect_above_threshold", "collect_pending_zero", "collect_pending_nonzero"]);
            p.parts.push(vault_part(2500, 120_000));
            p.parts.push(pool3_part(1200, 60_000));
            p.real.extend(VAULT_REAL);
            p.real.push("stableswap_3pool (real)");
            Some(p)
        }
        "C14" => {
            let mut p = pool2_plan("C14", RULE, 5000, 250_000, vec![]);
            p.parts.push(vault_part(2500, 120_000));
            p.parts.push(pool3_part(1200, 60_000));
            p.real.extend(VAULT_REAL);
            p.real.push("stableswap_3pool (real)");
            Some(p)
        }
        "C03" => Some(pool2_plan("C03", "seeded swarm runs of POOL2 with a stableswap pair: amp in {1,2,7,10,50,85,100,400,1000,1e6}, decimals in {(6,6),(6,8),(8,6),(6,18),(18,6),(4,5)}, reserves >= one whole token and <= 2^100 base units; every Simulation / swap is compared with an independent bisection solution of the invariant on decimal-normalised reserves, every deposit/withdrawal with the exact invariant per LP; distinct = unseen (reserves, LP supply, pending fees, LP balances) after a successful step", 4000, 250_000, vec!["stable_swap_quote_checked", "stable_deposit_withdraw_completed"])),
        "C04" => Some(Plan {
            property: "C04",
            level: "exploration",
            rule: "seeded swarm runs of POOL3 (factory + one three-asset stableswap pool): asset kinds, amp in {1..1e6}, fee triple, magnitude, users, op weights, fault switch and a history (<=200 steps) of provide/withdraw/swap (all six directions)/collect/amp ramp (valid, boundary and invalid)/round trip/deposit-withdraw/set-fees on a block-height clock that jumps inside, at and after ramps; distinct = unseen (reserves, LP supply, pending fees, LP balances) after a successful step",
            parts: vec![pool3_part(2500, 150_000)],
            real: vec!["stableswap_3pool (real, from /repo)", "terraswap_factory (real)", "terraswap_token / cw20-base (real)", "white-whale-std from /repo/packages"],
            stubbed: STUBS.to_vec(),
            assumptions: vec!["sampled histories, not all histories", "independent curve: bisection on the integer-cleared invariant with Ann = 3*amp (the family the code computes)"],
            want_probes: vec!["trio_swap_curve_checked", "ramp_accepted", "ramp_rejected", "roundtrip_completed", "deposit_withdraw_completed"],
            exhaustive: false,
        }),
        "C05" => Some(Plan {
            property: "C05",
            level: "exploration",
            rule: VRULE,
            parts: vec![vault_part(5000, 300_000)],
            real: VAULT_REAL.to_vec(),
            stubbed: STUBS.to_vec(),
            assumptions: vec!["sampled histories, not all histories", "cw-multi-test executes messages, sub-messages and rollbacks like wasmd"],
            want_probes: vec!["deposit_withdraw_completed", "nested_loan_same_vault", "first_deposit_done"],
            exhaustive: false,
        }),
        "C06" => Some(Plan {
            property: "C06",
            level: "fault_enumeration",
            rule: "borrower programs over the alphabet {repay exact, repay-1, repay+7, nothing, fail, deposit, withdraw shares, collect fees, nested loan (same / other vault)}: ALL programs of nesting depth <=2 and length <=2, all depth-1 programs of length 3 and all depth-1 length<=2 router payloads are enumerated for a native and a cw20 vault (first enum_runs() run indices); further runs sample depth-3 programs after random deposit/withdraw/collect/fee-change prefixes with injected sub-call and bank faults; distinct = distinct (balance, pending, LP supply, LP balances) states after a successful loan",
            parts: vec![vault_part(scen::vault::enum_runs() + 1500, scen::vault::enum_runs() + 150_000)],
            real: VAULT_REAL.to_vec(),
            stubbed: STUBS.to_vec(),
            assumptions: vec!["program space exhaustive only within the stated alphabet, depth and length", "loan amount fixed to a third of the vault backing in the enumeration; other amounts are sampled"],
            want_probes: vec!["exact_repay_ok", "minus1_refused", "nested_loan_same_vault", "router_loan_exact_accounting", "enumerated_program"],
            exhaustive: true,
        }),
        "C17" => Some(Plan {
            property: "C17",
            level: "fault_enumeration",
            rule: "complete product {constant-product pair, stableswap pair, 3-pool, vault} x all 2^3 toggle combinations x {empty, funded} = 64 cases (run index mod 64), each executing every entry path of every operation (pair: direct provide, frontend helper, withdraw hook, native swap, cw20 swap hook, router native, router cw20; 3-pool: provide, withdraw hook, native swap, cw20 swap hook; vault: deposit, withdraw hook, flash loan direct, flash loan via vault router) under the toggles and again after re-enabling, with a run-specific amount; distinct = (case, path, amount, phase) of successful enabled operations",
            parts: vec![PlanPart { scen: scen::<scen::toggle::Toggle>(), quick_runs: 64 * 6, thorough_runs: 64 * 400 }],
            real: vec!["terraswap_pair, stableswap_3pool, terraswap_factory, terraswap_router, frontend_helper, incentive_factory, incentive, vault, vault_factory, vault_router, terraswap_token (all real, from /repo)", "fee-distributor-mock from /repo (epoch source for the incentive)", "borrower harness contract"],
            stubbed: STUBS.to_vec(),
            assumptions: vec!["fee-collector aggregation as a swap entry path is exercised by the HUB scenario, not here"],
            want_probes: vec!["disabled_path_exercised", "enabled_path_succeeded"],
            exhaustive: true,
        }),
        "C15" => Some(pool2_plan("C15", RULE, 6000, 300_000, vec!["swap_rejected_for_slippage", "deposit_rejected_for_slippage", "router_rejected_min_receive", "min_receive_receiver_had_balance"])),
        _ => None,
    }
}
