//! Which scenarios decide which property, and with how many runs per tier.

use crate::core::*;
use crate::scen;

const STUBS: [&str; 4] = [
    "chain: cw-multi-test 0.16.5 message router / atomic commit-rollback / MockApi / MockStorage",
    "bank module: cw-multi-test BankKeeper behind the FaultyBank seam",
    "no wasm VM, no gas, no IBC, no staking",
    "osmosis / injective / token-factory feature builds are not covered",
];

const POOL_REAL: [&str; 6] = [
    "terraswap_pair (real, from /repo)",
    "terraswap_factory (real)",
    "terraswap_router (real)",
    "terraswap_token / cw20-base (real)",
    "stableswap_3pool code stored (real)",
    "white-whale-std from /repo/packages (patched over the registry copy)",
];

fn pool2_plan(id: &'static str, rule: &'static str, quick: u64, thorough: u64, want: Vec<&'static str>) -> Plan {
    Plan {
        property: id,
        level: "exploration",
        rule,
        parts: vec![PlanPart {
            scen: scen::<scen::pool2::Pool2>(),
            quick_runs: quick,
            thorough_runs: thorough,
        }],
        real: POOL_REAL.to_vec(),
        stubbed: STUBS.to_vec(),
        assumptions: vec![
            "sampled histories, not all histories",
            "cw-multi-test executes messages, sub-messages, replies and rollbacks like wasmd",
        ],
        want_probes: want,
        exhaustive: false,
    }
}

const VAULT_REAL: [&str; 5] = [
    "vault (real, from /repo)",
    "vault_factory (real)",
    "vault_router (real)",
    "terraswap_token / cw20-base as LP and as vault asset (real)",
    "borrower: harness contract executing generated adversary programs (stub by design)",
];

const MIGRATE_REAL: &str = "MIGRATE part: real pool factory + 2-4 pairs (constant product / stableswap, native and cw20), real router, real vault factory + 1-3 vaults, all at the current version; the legacy storage layout of ONE contract per run is written by the harness exactly as the contract's migration code reads it (no old contract code is executed) and the real `migrate` entry point converts it";

fn pool3_part(quick: u64, thorough: u64) -> PlanPart {
    PlanPart { scen: scen::<scen::pool3::Pool3>(), quick_runs: quick, thorough_runs: thorough }
}

fn vault_part(quick: u64, thorough: u64) -> PlanPart {
    PlanPart { scen: scen::<scen::vault::VaultScen>(), quick_runs: quick, thorough_runs: thorough }
}

const ALL_REAL: [&str; 16] = [
    "terraswap_factory (real, from /repo)",
    "terraswap_pair (real)",
    "stableswap_3pool (real)",
    "terraswap_router (real)",
    "terraswap_token / cw20-base (real)",
    "frontend_helper (real)",
    "incentive_factory (real)",
    "incentive (real)",
    "vault_factory (real)",
    "vault (real)",
    "vault_router (real)",
    "fee_collector (real)",
    "fee_distributor (real)",
    "whale_lair (real)",
    "epoch-manager (real)",
    "white-whale-std from /repo/packages (patched over the registry copy)",
];

fn all_plan(id: &'static str, level: &'static str, exhaustive: bool, rule: &'static str, sd: ScenDef, quick: u64, thorough: u64, want: Vec<&'static str>, assumptions: Vec<&'static str>) -> Plan {
    let mut stubbed = STUBS.to_vec();
    stubbed.push("Proxy (harness-only contract that forwards arbitrary messages / accepts the epoch hook)");
    Plan {
        property: id,
        level,
        rule,
        parts: vec![PlanPart { scen: sd, quick_runs: quick, thorough_runs: thorough }],
        real: ALL_REAL.to_vec(),
        stubbed,
        assumptions,
        want_probes: want,
        exhaustive,
    }
}



const HUB_REAL: [&str; 10] = [
    "fee_collector (real, from /repo)",
    "fee_distributor (real)",
    "whale_lair (real)",
    "terraswap_factory + 2..3 terraswap_pair (real; constant product, optionally one stableswap)",
    "terraswap_router with registered swap routes and a wasm admin (real)",
    "vault_factory + 2 vaults, native and cw20 (real)",
    "terraswap_token / cw20-base (real)",
    "white-whale-std from /repo/packages (patched over the registry copy)",
    "harness-only: flash-loan borrower contract that repays the quoted amount",
    "harness-only: DAO / user / keeper accounts",
];

const HUB_RULE: &str = "seeded swarm runs of HUB: each run draws pair/vault fees, 2 or 3 pairs (optionally stableswap), routes, grace period 1..5, epoch duration >= 1 day, genesis offset, take-rate configuration, op weights, fault switch and a history (<=200 steps) of swaps, flash loans, direct inflows, bond/unbond/withdraw, NewEpoch on the clock alphabet (with F1/F2/F3 at k in 1..60), catch-up bursts, claims (single, permuted, duplicated), grace / take-rate updates, direct ForwardFees/CollectFees/AggregateFees calls and environment changes (pool paused, pair removed, route added/removed); a case counts as distinct non-trivial when a successful epoch creation or a paying claim leaves a not yet seen (epoch id, grace, total, expiring epoch) resp. (claimant, paid epochs, time) state";

fn hub_plan(id: &'static str, quick: u64, thorough: u64, want: Vec<&'static str>) -> Plan {
    Plan {
        property: id,
        level: "exploration",
        rule: HUB_RULE,
        parts: vec![PlanPart { scen: scen::<scen::hub::Hub>(), quick_runs: quick, thorough_runs: thorough }],
        real: HUB_REAL.to_vec(),
        stubbed: STUBS.to_vec(),
        assumptions: vec![
            "sampled histories, not all histories",
            "cw-multi-test executes messages, sub-messages, replies and rollbacks like wasmd",
            "the distribution asset and the epoch configuration are not changed mid-history (outside the properties' quantifier)",
        ],
        want_probes: want,
        exhaustive: false,
    }
}


const INCENT_REAL: [&str; 8] = [
    "incentive (real, from /repo)",
    "incentive_factory (real; creates the incentive, supplies fee / duration / flow limits)",
    "frontend_helper (real)",
    "terraswap_pair + terraswap_factory (real; the LP token of the cw20-LP runs is the pair's LP token)",
    "terraswap_token / cw20-base (real; LP, reward and fee tokens)",
    "white-whale-std from /repo/packages (patched over the registry copy)",
    "fee collector: plain account (only receives the flow creation fee)",
    "epoch source: the repo's own fee-distributor-mock (epoch counter advanced by its NewEpoch message)",
];

fn incent_plan(id: &'static str, quick: u64, thorough: u64, want: Vec<&'static str>) -> Plan {
    let mut stubbed = STUBS.to_vec();
    stubbed.push("fee distributor: the repo's fee-distributor-mock instead of the real fee_distributor (the incentive only reads CurrentEpoch.id)");
    Plan {
        property: id,
        level: "exploration",
        rule: "seeded swarm runs of INCENT: each run draws LP kind (pair LP cw20 / native denom), fee asset kind and amount, duration bounds, flow limits, magnitudes (1..2^101), 3-5 stakers + 2 flow creators + factory owner + stranger, op weights, fault switch, which defect-triggering input families are allowed, and a history (<=200 steps) of open/expand/close/withdraw/helper-deposit/open-flow/expand-flow/close-flow/claim/snapshot/epoch-advance; a case counts as distinct non-trivial when a successful state-changing step leaves a not yet seen (positions, flows, weights, claim cursors) state",
        parts: vec![PlanPart { scen: scen::<scen::incent::Incent>(), quick_runs: quick, thorough_runs: thorough }],
        real: INCENT_REAL.to_vec(),
        stubbed,
        assumptions: vec![
            "sampled histories, not all histories",
            "cw-multi-test executes messages, sub-messages, replies and rollbacks like wasmd",
            "epochs advance only through the distributor mock's NewEpoch; one day of block time per epoch",
        ],
        want_probes: want,
        exhaustive: false,
    }
}



pub fn all_ids() -> Vec<&'static str> {
    vec!["C01", "C02", "C03", "C04", "C05", "C06", "C07", "C08", "C09", "C10", "C11", "C12", "C13", "C14", "C15", "C16", "C17", "C18", "C19", "C20"]
}

pub fn plan_for(id: &str) -> Option<Plan> {
    const RULE: &str = "seeded swarm runs of POOL2: each run draws asset kinds, fee triple, magnitude class, users, op weights, fault switch and a history (<=200 steps) of provide/withdraw/swap/collect/set-fees/donate/round-trip/deposit-withdraw/router ops; a case counts as distinct non-trivial when a successful state-changing step leaves a not yet seen (reserves, LP supply, pending fees, LP balances, pool balances) state";
    const VRULE: &str = "seeded swarm runs of VAULT: asset kind, fee triple, magnitude, users, op weights, fault switch and a history (<=200 steps) of deposit/withdraw/flash loan (direct or via router, with generated borrower programs up to nesting depth 3)/collect/set-fees/donate/deposit-withdraw; distinct = unseen (vault balance, pending fees, LP supply, LP balances) after a successful step";
    match id {
        "C01" => Some(pool2_plan("C01", RULE, 6000, 400_000, vec!["first_deposit_isqrt_boundary", "deposit_withdraw_completed", "withdraw_everything_withdrawable"])),
        "C02" => Some(pool2_plan("C02", RULE, 6000, 400_000, vec!["roundtrip_completed", "ratio_gt_1e18"])),
        "C07" => {
            let mut p = pool2_plan("C07", RULE, 5000, 250_000, vec!["collect_below_threshold", "collect_above_threshold", "collect_pending_zero", "collect_pending_nonzero"]);
            p.parts.push(vault_part(2500, 120_000));
            p.parts.push(pool3_part(1200, 60_000));
            p.real.extend(VAULT_REAL);
            p.real.push("stableswap_3pool (real)");
            Some(p)
        }
        "C14" => {
            let mut p = pool2_plan("C14", RULE, 5000, 250_000, vec![]);
            p.parts.push(vault_part(2500, 120_000));
            p.parts.push(pool3_part(1200, 60_000));
            p.real.extend(VAULT_REAL);
            p.real.push("stableswap_3pool (real)");
            // quotes of pools / routers / vaults whose state went through the `migrate` entry point from a legacy layout
            p.parts.push(scen::migrate::migrate_part());
            p.real.push(MIGRATE_REAL);
            p.want_probes.extend(["pair_migrated_from_v1_2_0", "swap_vs_simulation_after_migration", "router_swap_vs_simulation_after_migration", "coins_parked_at_lp_token_address"]);
            Some(p)
        }
        "C03" => Some(pool2_plan("C03", "seeded swarm runs of POOL2 with a stableswap pair: amp in {1,2,7,10,50,85,100,400,1000,1e6}, decimals in {(6,6),(6,8),(8,6),(6,18),(18,6),(4,5)}, reserves >= one whole token and <= 2^100 base units; every Simulation / swap is compared with an independent bisection solution of the invariant on decimal-normalised reserves, every deposit/withdrawal with the exact invariant per LP; distinct = unseen (reserves, LP supply, pending fees, LP balances) after a successful step", 4000, 250_000, vec!["stable_swap_quote_checked", "stable_deposit_withdraw_completed"])),
        "C04" => Some(Plan {
            property: "C04",
            level: "exploration",
            rule: "seeded swarm runs of POOL3 (factory + one three-asset stableswap pool): asset kinds, amp in {1..1e6}, fee triple, magnitude, users, op weights, fault switch and a history (<=200 steps) of provide/withdraw/swap (all six directions)/collect/amp ramp (valid, boundary and invalid)/round trip/deposit-withdraw/set-fees on a block-height clock that jumps inside, at and after ramps; distinct = unseen (reserves, LP supply, pending fees, LP balances) after a successful step",
            parts: vec![pool3_part(2500, 150_000)],
            real: vec!["stableswap_3pool (real, from /repo)", "terraswap_factory (real)", "terraswap_token / cw20-base (real)", "white-whale-std from /repo/packages"],
            stubbed: STUBS.to_vec(),
            assumptions: vec!["sampled histories, not all histories", "independent curve: bisection on the integer-cleared invariant with Ann = 3*amp (the family the code computes)"],
            want_probes: vec!["trio_swap_curve_checked", "ramp_accepted", "ramp_rejected", "roundtrip_completed", "deposit_withdraw_completed"],
            exhaustive: false,
        }),
        "C05" => Some(Plan {
            property: "C05",
            level: "exploration",
            rule: VRULE,
            parts: vec![vault_part(5000, 300_000)],
            real: VAULT_REAL.to_vec(),
            stubbed: STUBS.to_vec(),
            assumptions: vec!["sampled histories, not all histories", "cw-multi-test executes messages, sub-messages and rollbacks like wasmd"],
            want_probes: vec!["deposit_withdraw_completed", "nested_loan_same_vault", "first_deposit_done"],
            exhaustive: false,
        }),
        "C06" => Some(Plan {
            property: "C06",
            level: "fault_enumeration",
            rule: "borrower programs over the alphabet {repay exact, repay-1, repay+7, nothing, fail, deposit, withdraw shares, collect fees, call the vault's AfterTrade callback from outside, nested loan (same / other vault)}: ALL programs of nesting depth <=2 and length <=2, all depth-1 programs of length 3 and all depth-1 length<=2 router payloads are enumerated for a native and a cw20 vault (first enum_runs() run indices); further runs sample depth-3 programs after random deposit/withdraw/collect/fee-change prefixes with injected sub-call and bank faults; distinct = distinct (balance, pending, LP supply, LP balances) states after a successful loan",
            parts: vec![vault_part(scen::vault::enum_runs() + 1500, scen::vault::enum_runs() + 150_000)],
            real: VAULT_REAL.to_vec(),
            stubbed: STUBS.to_vec(),
            assumptions: vec!["program space exhaustive only within the stated alphabet, depth and length", "loan amount fixed to a third of the vault backing in the enumeration; other amounts are sampled"],
            want_probes: vec!["exact_repay_ok", "minus1_refused", "nested_loan_same_vault", "router_loan_exact_accounting", "enumerated_program"],
            exhaustive: true,
        }),
        "C17" => Some({ let mut p = Plan {
            property: "C17",
            level: "fault_enumeration",
            rule: "complete product {constant-product pair, stableswap pair, 3-pool, vault} x all 2^3 toggle combinations x {empty, funded} x 4 asset-kind assignments ((native,cw20,native), all native, all cw20, (cw20,native,cw20); the vault holds the first asset) = 256 cases (run index mod 256), each executing every entry path of every operation that exists for those kinds (pair: direct provide, provide for a receiver, frontend helper (also while it holds stray LP), withdraw hook, native swap, cw20 swap hook, swap to a receiver, router native, router cw20, hostile direct WithdrawLiquidity {} with a coin; 3-pool: provide, provide for a receiver, withdraw hook, native swap, cw20 swap hook, swap to a receiver, hostile direct withdrawal; vault: deposit, withdraw hook, flash loan direct, flash loan via vault router, withdrawal inside a loan callback, hostile direct Withdraw {} with a coin) under the toggles and again after re-enabling, with a run-specific amount; distinct = (case, path, amount, phase) of successful enabled operations",
            parts: vec![PlanPart { scen: scen::<scen::toggle::Toggle>(), quick_runs: 256 * 3, thorough_runs: 256 * 120 }],
            real: vec!["terraswap_pair, stableswap_3pool, terraswap_factory, terraswap_router, frontend_helper, incentive_factory, incentive, vault, vault_factory, vault_router, terraswap_token (all real, from /repo)", "fee-distributor-mock from /repo (epoch source for the incentive)", "borrower harness contract"],
            stubbed: STUBS.to_vec(),
            assumptions: vec!["fee-collector aggregation as a swap entry path is exercised by the HUB scenario, not here"],
            want_probes: vec!["disabled_path_exercised", "enabled_path_succeeded"],
            exhaustive: true,
        };
            // switches of vaults / pools whose state went through the `migrate` entry point from a legacy layout (sampled, not part of the enumeration)
            p.parts.push(scen::migrate::migrate_part());
            p.real.push(MIGRATE_REAL);
            p.want_probes.extend(["vault_migrated_from_v1_1_3", "disabled_op_attempted_after_migration", "enabled_op_succeeded_after_migration"]);
            p }),
        "C15" => {
            let mut p = pool2_plan("C15", RULE, 5000, 250_000, vec!["swap_rejected_for_slippage", "deposit_rejected_for_slippage", "router_rejected_min_receive", "min_receive_receiver_had_balance", "trio_swap_rejected_for_slippage"]);
            p.parts.push(pool3_part(1500, 80_000));
            p.real.push("stableswap_3pool (real)");
            // deposits through the frontend helper (INCENT world: pair + helper + incentive)
            p.parts.push(PlanPart { scen: scen::<scen::incent::Incent>(), quick_runs: 800, thorough_runs: 40_000 });
            p.real.push("frontend_helper, incentive, incentive_factory (real) for deposits with a tolerance through the helper");
            p.want_probes.push("helper_deposit_with_tolerance_accepted");
            Some(p)
        }
        "C08" => Some(Plan {
            property: "C08",
            level: "exploration",
            rule: "seeded swarm runs of BOND: real whale-lair with 3-5 users and 2 whitelisted denoms behind the real fee distributor + collector (or a stub / the repo's distributor mock); each run draws unbonding period, growth rate, magnitude, distributor regime (no epoch yet / epochs running / switching mid-run), op weights, fault switch and a history (<=200 steps) of Bond / Unbond / Withdraw (single, several per block, several per multi-message tx, series of up to 36 unbondings), invalid variants (non-whitelisted denom, cw20, mismatched / multiple / missing funds, zero, more than bonded, before maturity), NewEpoch / Claim / collector inflows, on the clock alphabet around the unbonding period; a case counts as distinct non-trivial when a successful step leaves a not yet seen (lair balances, bonds, number and sum of unbonding records per user) state",
            parts: vec![PlanPart {
                scen: scen::<scen::bond::Bond>(),
                quick_runs: 4000,
                thorough_runs: 200_000,
            }],
            real: vec![
                "whale_lair (real, from /repo)",
                "fee_distributor + fee_collector (real) with empty terraswap_factory, vault_factory and terraswap_router in 13 of 20 runs",
                "white-whale-std from /repo/packages (patched over the registry copy)",
            ],
            stubbed: {
                let mut v = STUBS.to_vec();
                v.push("fee distributor in 6 of 20 runs: harness stub answering Config / CurrentEpoch / Claimable with settable values; in 1 of 20 runs the repo's fee-distributor-mock (refuses every bond)");
                v
            },
            assumptions: vec![
                "sampled histories, not all histories",
                "cw-multi-test executes messages, sub-messages, queries and rollbacks like wasmd; zero-amount bank transfers are refused as on chain",
                "no plain bank transfers to the lair (the statement is an equality)",
                "the unbonding period is not changed after instantiation",
            ],
            want_probes: vec![
                "same_timestamp_unbond_accepted",
                "withdraw_paid",
                "withdraw_exactly_at_maturity",
                "withdraw_refused_1ns_before_maturity",
                "more_than_one_page_of_records",
                "multi_message_tx_ok",
                "multi_message_tx_reverted",
                "bond_ok_epochs_running",
                "bond_ok_no_epoch",
                "refused_unclaimed_rewards",
                "refused_new_epoch_not_created_yet",
                "refused_asset_mismatch",
                "claimed_rewards",
                "final_withdraw_all",
            ],
            exhaustive: false,
        }),
        "C09" => Some(hub_plan("C09", 6000, 200_000, vec!["rollover_of_nonzero_remainder", "grace_increased_mid_history", "claim_paid_several_epochs", "run_reached_grace_plus_2_epochs", "expired_epoch_selected_again_after_grace_increase", "duration_raised_mid_history", "late_first_bonder_offered_epoch_started_before_bonding"])),
        "C10" => Some(hub_plan("C10", 6000, 200_000, vec!["take_rate_paid_and_recorded", "take_rate_inactive", "asset_swapped_through_route", "asset_left_no_route", "pair_pending_below_threshold_stays_owed", "vault_pending_collected", "forward_fees_refused", "query_fault_absorbed_by_fallback"])),
        "C20" => Some(Plan {
            property: "C20",
            level: "exploration",
            rule: "HUB part (fee distributor): NewEpoch by anyone on the clock alphabet against the exact model, see C09; EPOCH part: real epoch-manager + 0..3 hook receivers, each run draws duration (>= 1 day), genesis offset, start id, registered hooks, op weights, fault switch and a history (<=200 steps) of CreateEpoch (single, repeated in one block, several in one tx) / AddHook / RemoveHook / UpdateConfig / hook-fails-or-recovers on the clock alphabet (before genesis, at genesis, boundary -1ns/0/+1ns, k durations late, same block); a case counts as distinct non-trivial when a step leaves a not yet seen (epoch id, start, duration, hooks, failing hooks, owner) state",
            // the fee-distributor half of C20 is added here as a second PlanPart
            // (third part: the distributor's stored epochs converted by its real `migrate` from the pre-0.9.0 layout)
            parts: vec![scen::epoch::epoch_part(), scen::hub::hub_part_c20(), PlanPart { scen: scen::migrate::migrate_part().scen, quick_runs: 40, thorough_runs: 2_000 }],
            real: vec!["fee_distributor + fee_collector + whale_lair + factories + router + vaults (real, HUB part)", "epoch-manager (real, from /repo)", "cw-controllers Hooks/Admin (real)", "white-whale-std from /repo/packages (patched over the registry copy)"],
            stubbed: {
                let mut v = STUBS.to_vec();
                v.push("hook receivers: harness contract HookSink (logs or fails on demand)");
                v
            },
            assumptions: vec![
                "sampled histories, not all histories",
                "cw-multi-test executes messages, sub-messages and rollbacks like wasmd; a contract panic is the on-chain abort",
            ],
            want_probes: vec![
                "attempt_before_genesis",
                "attempt_exactly_at_genesis",
                "attempt_boundary_minus_1ns",
                "attempt_boundary_exact",
                "attempt_boundary_plus_1ns",
                "attempt_two_or_more_periods_late",
                "consecutive_catch_up_creations",
                "repeat_after_catch_up_rejected",
                "failing_hook_reverted_creation",
                "duration_changed_mid_history",
                "creation_with_hooks",
                "final_catch_up_done",
                "attempt_1ns_before_boundary",
                "late_catch_up_consecutive_creations",
            ],
            exhaustive: false,
        }),
        "C16" => {
            let mut p = all_plan(
            "C16",
            "fault_enumeration",
            true,
            "complete matrix {42 privileged / internal-callback ExecuteMsg variants of the 15 hub contracts (table VARIANTS in all_auth.rs, taken from the property text)} x {before, after an ownership transfer of the governing contract} x {owner, previous owner (before the transfer: the future owner), child's factory, sibling contract via Proxy, plain user, wasm admin, designated contract / the contract itself through the flow that makes it call, hub deployer} = 672 combinations of which 504 are cells that exist (a contract without a factory has no 'factory' caller, an owner-only variant has no designated contract, ...: fn applicable in all_auth.rs); run index i executes cell i mod 504 with a randomised payload that is valid by construction, at a random point of background traffic (swaps, deposits, bonding, epochs, flows), plus 4-28 randomly chosen further cells and random further ownership transfers; a case counts as distinct non-trivial when an authorised privileged call succeeded and left a not yet seen full-state fingerprint",
            scen::<scen::all_auth::AllAuth>(),
            504 * 10,
            504 * 150,
            vec!["authorised_accepted", "authorised_accepted_after_transfer", "previous_owner_refused", "unauthorised_refused_for_auth", "designated_flow_ok", "ownership_transferred", "ownership_transferred_to_contract"],
            vec![
                "the matrix (variants x phases x roles) is enumerated completely; payloads, traffic context and the position of the cell in the history are sampled",
                "a cell whose precondition cannot be arranged in the state of its run would be counted under cell_not_arrangeable/* (none in the recorded runs); combinations that do not exist (role 'factory' for a contract without factory, ...) are excluded by fn applicable",
                "cw-multi-test executes messages, sub-messages, replies, admin checks and rollbacks like wasmd",
            ],
        );
            // internal callbacks attempted from inside a flash loan (the only time the vault's loan state is non-trivial)
            p.parts.push(vault_part(1500, 60_000));
            // flow removal by strangers in the life of an incentive contract: all flow slots taken, flows past their end,
            // expanded, partly claimed (sampled; the matrix above has the incentive with a handful of fresh flows only)
            p.parts.push(PlanPart { scen: scen::<scen::incent::Incent>(), quick_runs: 1500, thorough_runs: 60_000 });
            Some(p)
        }
        "C18" => Some(all_plan(
            "C18",
            "exploration",
            false,
            "seeded runs of ALL_CFG on the fully wired hub: histories (<=200 steps) of factory create / direct instantiate / factory-mediated update / direct update (after the factory handed the child over) of pairs, trios and vaults (incl. a vault over a factory/... denom), instantiate / update of fee distributors, epoch managers, whale lairs and the fee collector, with every bounded parameter drawn from {bound-1e-18, bound, bound+1e-18, 0, max, fee totals of exactly 1-1e-18 / 1 / 1+1e-18, amp x10 / x10+1 / /10 / /10-1 ramps}; after every step the Config (and Pair) answers of every tracked instance are compared with the bounds of the property text and a rejected update must leave the full-state fingerprint unchanged; a case counts as distinct non-trivial when an accepted write leaves a not yet seen (instance, written values) state",
            scen::<scen::all_cfg::AllCfg>(),
            2500,
            50_000,
            vec!["pair_fees_written", "vault_fees_written", "trio_amp_ramp_accepted", "distributor_updated", "update_rejected", "pair_instantiated_directly", "vault_instantiated_directly", "distributor_instantiated", "lair_instantiated", "epoch_manager_instantiated"],
            vec![
                "sampled histories, not all histories",
                "default cargo features: a vault over a factory/... denom cannot be instantiated at all without the token-factory feature (its cw20 LP symbol 'uLP-factory/' is rejected), so the burn-fee ban on such vaults is only checked vacuously (probe factory_denom_vault_created)",
                "cw-multi-test executes messages, sub-messages, replies and rollbacks like wasmd",
            ],
        )),
        "C19" => Some({ let mut p = all_plan(
            "C19",
            "exploration",
            false,
            "seeded runs of ALL_REG on the fully wired hub with initially empty registries: histories (<=200 steps) of create / remove / re-create of pairs, trios, vaults and incentives over a universe of 3-4 native + 3-4 cw20 assets with the assets given in random order (sub-call faults injected into creations in a third of the runs), lookups of every registered and unregistered asset set in every permutation, walks of the Pairs / Trios / Vaults / Incentives listings with every page size 1..31 (+ default, + 1000) and from every cursor, AddSwapRoutes / RemoveSwapRoutes with registered and unregistered hops, execution of ad-hoc and stored routes also after their pairs were removed; model registry keyed by asset set; a case counts as distinct non-trivial when a successful create / remove / route update leaves a not yet seen registry content",
            scen::<scen::all_reg::AllReg>(),
            2000,
            25_000,
            vec!["pair_recreated_after_removal", "pair_removed", "trio_removed", "vault_removed", "duplicate_pair_refused", "duplicate_trio_refused", "duplicate_vault_refused", "duplicate_incentive_refused", "pagination_walk_completed", "pagination_walk_over_30_entries", "route_stored", "route_with_unregistered_hop_refused", "swap_through_removed_pair_refused", "route_executed_while_removed_pairs_exist"],
            vec![
                "sampled histories, not all histories; page sizes 1..31 and all cursors of the reached registries are enumerated in every Walk step",
                "asset names are realistic (denoms uwhale/uusdc/uatom/uosmo, cw20 contract addresses): key collisions of concatenated asset bytes without separator need crafted names and are not generated",
                "cw-multi-test executes messages, sub-messages, replies and rollbacks like wasmd",
            ],
        );
            // registries that went through the factories' `migrate` entry points from a legacy layout
            p.parts.push(scen::migrate::migrate_part());
            p.real.push(MIGRATE_REAL);
            p.want_probes.extend(["factory_migrated_from_v1_1_x", "factory_migrated_from_v1_0_x", "vault_factory_migrated_from_v1_0_9_or_below", "registry_walk_on_migrated_factory", "duplicate_pair_refused_after_migration"]);
            p }),
        "C11" => Some(incent_plan("C11", 5000, 250_000, vec!["helper_deposit_completed", "position_for_receiver", "withdraw_paid_closed_positions", "duration_min", "duration_max", "helper_chain_fault_reverted", "flow_in_lp_asset"])),
        "C12" => Some(incent_plan("C12", 5000, 250_000, vec!["flow_native_fee_native_same", "flow_native_fee_native_diff", "flow_cw20_fee_native_diff", "flow_native_fee_cw20_diff", "flow_cw20_fee_cw20_same", "flow_cw20_fee_cw20_diff", "stranger_close_refused", "flow_closed_by_creator", "flow_closed_by_owner", "flow_expanded_by_non_creator"])),
        "C13" => Some(incent_plan("C13", 5000, 250_000, vec!["double_claim_in_epoch", "claim_paid_quote", "claim_over_several_epochs", "position_change_before_snapshot", "position_change_after_snapshot", "epoch_ge_20"])),
        // diagnostic only (not a property, not listed in all_ids): the MIGRATE scenario alone; with this id the
        // harness-level roundtrip checks ("MIG": raw storage / every observable identical after the migration) report
        "MIG" => Some(Plan {
            property: "MIG",
            level: "exploration",
            rule: "MIGRATE scenario alone (diagnostic)",
            parts: vec![scen::migrate::migrate_part()],
            real: vec![MIGRATE_REAL],
            stubbed: STUBS.to_vec(),
            assumptions: vec![],
            want_probes: vec![],
            exhaustive: false,
        }),
        _ => None,
    }
}
