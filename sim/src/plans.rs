//! Which scenarios decide which property, and with how many runs per tier.

use crate::core::*;
use crate::scen;

const STUBS: [&str; 4] = [
    "chain: cw-multi-test 0.16.5 message router / atomic commit-rollback / MockApi / MockStorage",
    "bank module: cw-multi-test BankKeeper behind the FaultyBank seam",
    "no wasm VM, no gas, no IBC, no staking",
    "osmosis / injective / token-factory feature builds are not covered",
];

const POOL_REAL: [&str; 6] = [
    "terraswap_pair (real, from /repo)",
    "terraswap_factory (real)",
    "terraswap_router (real)",
    "terraswap_token / cw20-base (real)",
    "stableswap_3pool code stored (real)",
    "white-whale-std from /repo/packages (patched over the registry copy)",
];

fn pool2_plan(id: &'static str, rule: &'static str, quick: u64, thorough: u64, want: Vec<&'static str>) -> Plan {
    Plan {
        property: id,
        level: "exploration",
        rule,
        parts: vec![PlanPart {
            scen: scen::<scen::pool2::Pool2>(),
            quick_runs: quick,
            thorough_runs: thorough,
        }],
        real: POOL_REAL.to_vec(),
        stubbed: STUBS.to_vec(),
        assumptions: vec![
            "sampled histories, not all histories",
            "cw-multi-test executes messages, sub-messages, replies and rollbacks like wasmd",
        ],
        want_probes: want,
        exhaustive: false,
    }
}

pub fn all_ids() -> Vec<&'static str> {
    vec!["C01", "C02", "C07", "C14", "C15"]
}

pub fn plan_for(id: &str) -> Option<Plan> {
    const RULE: &str = "seeded swarm runs of POOL2: each run draws asset kinds, fee triple, magnitude class, users, op weights, fault switch and a history (<=200 steps) of provide/withdraw/swap/collect/set-fees/donate/round-trip/deposit-withdraw/router ops; a case counts as distinct non-trivial when a successful state-changing step leaves a not yet seen (reserves, LP supply, pending fees, LP balances, pool balances) state";
    match id {
        "C01" => Some(pool2_plan("C01", RULE, 6000, 400_000, vec!["first_deposit_isqrt_boundary", "deposit_withdraw_completed", "withdraw_everything_withdrawable"])),
        "C02" => Some(pool2_plan("C02", RULE, 6000, 400_000, vec!["roundtrip_completed", "ratio_gt_1e18"])),
        "C07" => Some(pool2_plan("C07", RULE, 6000, 300_000, vec!["collect_below_threshold", "collect_above_threshold", "collect_pending_zero"])),
        "C14" => Some(pool2_plan("C14", RULE, 6000, 300_000, vec![])),
        "C15" => Some(pool2_plan("C15", RULE, 6000, 300_000, vec!["swap_rejected_for_slippage", "deposit_rejected_for_slippage", "router_rejected_min_receive", "min_receive_receiver_had_balance"])),
        _ => None,
    }
}
