//! The only source of choices in a run: xoshiro256** seeded through splitmix64.
//! No dependency on `rand`, so the stream is stable across toolchains.

#[derive(Clone, Debug)]
pub struct Rng {
    s: [u64; 4],
}

pub fn splitmix(x: &mut u64) -> u64 {
    *x = x.wrapping_add(0x9E37_79B9_7F4A_7C15);
    let mut z = *x;
    z = (z ^ (z >> 30)).wrapping_mul(0xBF58_476D_1CE4_E5B9);
    z = (z ^ (z >> 27)).wrapping_mul(0x94D0_49BB_1331_11EB);
    z ^ (z >> 31)
}

/// Mixes the base seed with a property / scenario label and a run index.
pub fn mix(base: u64, label: &str, idx: u64) -> u64 {
    let mut h = base ^ 0x51_7c_c1_b7_27_22_0a_95;
    for b in label.as_bytes() {
        h = (h ^ (*b as u64)).wrapping_mul(0x0000_0100_0000_01B3);
    }
    let mut x = h ^ idx.wrapping_mul(0x9E37_79B9_7F4A_7C15);
    let a = splitmix(&mut x);
    let b = splitmix(&mut x);
    a ^ b.rotate_left(17)
}

impl Rng {
    pub fn new(seed: u64) -> Self {
        let mut x = seed;
        let s = [
            splitmix(&mut x),
            splitmix(&mut x),
            splitmix(&mut x),
            splitmix(&mut x),
        ];
        Rng { s }
    }
    pub fn next_u64(&mut self) -> u64 {
        let r = self.s[1].wrapping_mul(5).rotate_left(7).wrapping_mul(9);
        let t = self.s[1] << 17;
        self.s[2] ^= self.s[0];
        self.s[3] ^= self.s[1];
        self.s[1] ^= self.s[2];
        self.s[0] ^= self.s[3];
        self.s[2] ^= t;
        self.s[3] = self.s[3].rotate_left(45);
        r
    }
    pub fn next_u128(&mut self) -> u128 {
        ((self.next_u64() as u128) << 64) | self.next_u64() as u128
    }
    /// uniform in [0, n)
    pub fn below(&mut self, n: u64) -> u64 {
        if n == 0 {
            return 0;
        }
        // bias is irrelevant here
        ((self.next_u64() as u128 * n as u128) >> 64) as u64
    }
    pub fn below128(&mut self, n: u128) -> u128 {
        if n == 0 {
            return 0;
        }
        self.next_u128() % n
    }
    /// uniform in [lo, hi]
    pub fn range(&mut self, lo: u64, hi: u64) -> u64 {
        // (an empty range happens when a changed contract lets a model value leave its domain, e.g. an
        // epoch duration of 0: one draw is still consumed so that the stream keeps its shape)
        if hi < lo {
            let _ = self.next_u64();
            return lo;
        }
        if hi - lo == u64::MAX {
            return self.next_u64();
        }
        lo + self.below(hi - lo + 1)
    }
    pub fn range128(&mut self, lo: u128, hi: u128) -> u128 {
        if hi <= lo {
            return lo;
        }
        let span = hi - lo;
        if span == u128::MAX {
            return self.next_u128();
        }
        lo + self.below128(span + 1)
    }
    pub fn chance(&mut self, num: u64, den: u64) -> bool {
        self.below(den) < num
    }
    pub fn pick<'a, T>(&mut self, xs: &'a [T]) -> &'a T {
        &xs[self.below(xs.len() as u64) as usize]
    }
    pub fn idx(&mut self, n: usize) -> usize {
        self.below(n as u64) as usize
    }
    /// Index chosen with the given weights.
    pub fn weighted(&mut self, w: &[u32]) -> usize {
        let tot: u64 = w.iter().map(|x| *x as u64).sum();
        if tot == 0 {
            return 0;
        }
        let mut r = self.below(tot);
        for (i, x) in w.iter().enumerate() {
            if r < *x as u64 {
                return i;
            }
            r -= *x as u64;
        }
        w.len() - 1
    }
    /// Log-uniform amount in [1, max]: picks a bit length first, so small and huge values
    /// are both frequent.
    pub fn log_amount(&mut self, max: u128) -> u128 {
        if max <= 1 {
            return max.max(1).min(max.max(0)).max(if max == 0 { 0 } else { 1 });
        }
        let bits = 128 - max.leading_zeros() as u64;
        let b = self.range(1, bits);
        let hi = if b >= 128 { u128::MAX } else { (1u128 << b) - 1 };
        let lo = 1u128 << (b - 1);
        self.range128(lo, hi.min(max)).min(max).max(1)
    }
    /// Amount biased to boundaries of [1, max].
    pub fn edge_amount(&mut self, max: u128) -> u128 {
        if max == 0 {
            return 0;
        }
        match self.below(10) {
            0 => 1,
            1 => max,
            2 => max.saturating_sub(1).max(1),
            3 => (max / 2).max(1),
            4 => self.range128(1, max.min(2000)),
            _ => self.log_amount(max),
        }
    }
    pub fn shuffle<T>(&mut self, xs: &mut [T]) {
        for i in (1..xs.len()).rev() {
            let j = self.idx(i + 1);
            xs.swap(i, j);
        }
    }
}
