//! ALL_AUTH — property C16: only the owner (for children: their factory) or the designated
//! contract can perform privileged operations / internal callbacks.
//!
//! The matrix {privileged variant} x {phase: before / after an ownership transfer} x {caller role}
//! is enumerated completely: run index -> one matrix cell, which is executed at a random point of
//! light background traffic; every run additionally executes a few randomly chosen cells.
//! WHICH variants are privileged and WHO may call them is the table `VARIANTS` below, taken
//! from the property text (not derived from the code).

use std::collections::BTreeMap;

use cosmwasm_std::{coin, to_json_binary, BankMsg, Coin, CosmosMsg, Timestamp, Uint128, Uint64, WasmMsg};
use serde::{Deserialize, Serialize};
use serde_json::Value;

use white_whale_std::epoch_manager::epoch_manager as em;
use white_whale_std::pool_network::asset::{Asset, AssetInfo, PairType};
use white_whale_std::pool_network::router::{SwapOperation, SwapRoute};
use white_whale_std::pool_network::{factory, frontend_helper, incentive, incentive_factory, pair, router, trio};
use white_whale_std::vault_network::{vault, vault_factory, vault_router};
use white_whale_std::{fee_collector, fee_distributor, whale_lair};

use crate::core::{Ctx, Scenario, Tier};
use crate::rng::Rng;
use crate::scen::all_world::*;
use crate::world::*;

// ---------------------------------------------------------------------------------------------
// the table (from the property text)
// ---------------------------------------------------------------------------------------------

#[derive(Serialize, Deserialize, Clone, Copy, Debug, PartialEq, Eq)]
#[serde(rename_all = "snake_case")]
pub enum Ct {
    PoolFactory,
    Pair,
    Trio,
    Router,
    LpToken,
    Helper,
    IncFactory,
    Incentive,
    VaultFactory,
    Vault,
    VaultRouter,
    Collector,
    Distributor,
    Lair,
    EpochManager,
}

#[derive(Clone, Copy, Debug, PartialEq, Eq)]
pub enum Auth {
    /// the configured owner of the contract (for pair / trio / vault: their factory until transferred)
    Owner,
    /// swap router route management: the router has no owner of its own, its owner is its wasm admin
    RouterAdmin,
    /// internal callback: only the contract itself
    SelfOnly,
    /// vault-router NextLoan: only the (registered) source vault named in the message
    SourceVault,
    /// collector ForwardFees: only the configured fee distributor
    Distributor,
    /// LP token mint / minter change: only the pool that owns the LP token
    Minter,
    /// incentive CloseFlow: the flow's creator or the owner of the incentive factory
    FactoryOwnerOrCreator,
    /// nobody is configured (LP token marketing data: no marketing account exists)
    Nobody,
}

pub struct VarDef {
    pub name: &'static str,
    pub ct: Ct,
    pub auth: Auth,
    /// the contract's specific "not authorised" error text(s) (innermost error of the chain)
    pub refusal: &'static [&'static str],
}

const U: &[&str] = &["Unauthorized"];
const PAIR_U: &[&str] = &["Generic error: unauthorized"];

pub const VARIANTS: [VarDef; 42] = [
    // pool factory: everything is owner-only (config, creation / removal, child config, child migration)
    VarDef { name: "pool_factory.update_config", ct: Ct::PoolFactory, auth: Auth::Owner, refusal: U },
    VarDef { name: "pool_factory.update_pair_config", ct: Ct::PoolFactory, auth: Auth::Owner, refusal: U },
    VarDef { name: "pool_factory.update_trio_config", ct: Ct::PoolFactory, auth: Auth::Owner, refusal: U },
    VarDef { name: "pool_factory.create_pair", ct: Ct::PoolFactory, auth: Auth::Owner, refusal: U },
    VarDef { name: "pool_factory.create_trio", ct: Ct::PoolFactory, auth: Auth::Owner, refusal: U },
    VarDef { name: "pool_factory.add_native_token_decimals", ct: Ct::PoolFactory, auth: Auth::Owner, refusal: U },
    VarDef { name: "pool_factory.migrate_pair", ct: Ct::PoolFactory, auth: Auth::Owner, refusal: U },
    VarDef { name: "pool_factory.migrate_trio", ct: Ct::PoolFactory, auth: Auth::Owner, refusal: U },
    VarDef { name: "pool_factory.remove_pair", ct: Ct::PoolFactory, auth: Auth::Owner, refusal: U },
    VarDef { name: "pool_factory.remove_trio", ct: Ct::PoolFactory, auth: Auth::Owner, refusal: U },
    // children of the pool factory: fee / toggle / config updates
    VarDef { name: "pair.update_config", ct: Ct::Pair, auth: Auth::Owner, refusal: PAIR_U },
    VarDef { name: "trio.update_config", ct: Ct::Trio, auth: Auth::Owner, refusal: PAIR_U },
    // swap router: route management + the two internal callbacks
    VarDef { name: "router.add_swap_routes", ct: Ct::Router, auth: Auth::RouterAdmin, refusal: U },
    VarDef { name: "router.remove_swap_routes", ct: Ct::Router, auth: Auth::RouterAdmin, refusal: U },
    VarDef { name: "router.execute_swap_operation", ct: Ct::Router, auth: Auth::SelfOnly, refusal: U },
    VarDef { name: "router.assert_minimum_receive", ct: Ct::Router, auth: Auth::SelfOnly, refusal: U },
    // LP token
    VarDef { name: "lp_token.mint", ct: Ct::LpToken, auth: Auth::Minter, refusal: U },
    VarDef { name: "lp_token.update_minter", ct: Ct::LpToken, auth: Auth::Minter, refusal: U },
    VarDef { name: "lp_token.update_marketing", ct: Ct::LpToken, auth: Auth::Nobody, refusal: U },
    VarDef { name: "lp_token.upload_logo", ct: Ct::LpToken, auth: Auth::Nobody, refusal: U },
    // frontend helper
    VarDef { name: "frontend_helper.update_config", ct: Ct::Helper, auth: Auth::Owner, refusal: &["Sender is not authorized to invoke functions on the frontend helper"] },
    // incentive factory
    VarDef { name: "incentive_factory.create_incentive", ct: Ct::IncFactory, auth: Auth::Owner, refusal: &["Sender is not authorized to invoke functions on the incentive factory"] },
    VarDef { name: "incentive_factory.update_config", ct: Ct::IncFactory, auth: Auth::Owner, refusal: &["Sender is not authorized to invoke functions on the incentive factory"] },
    VarDef { name: "incentive_factory.migrate_incentives", ct: Ct::IncFactory, auth: Auth::Owner, refusal: &["Sender is not authorized to invoke functions on the incentive factory"] },
    // incentive
    VarDef { name: "incentive.close_flow", ct: Ct::Incentive, auth: Auth::FactoryOwnerOrCreator, refusal: &["Account not permitted to close flow*"] },
    // vault factory
    VarDef { name: "vault_factory.create_vault", ct: Ct::VaultFactory, auth: Auth::Owner, refusal: U },
    VarDef { name: "vault_factory.migrate_vaults", ct: Ct::VaultFactory, auth: Auth::Owner, refusal: U },
    VarDef { name: "vault_factory.remove_vault", ct: Ct::VaultFactory, auth: Auth::Owner, refusal: U },
    VarDef { name: "vault_factory.update_vault_config", ct: Ct::VaultFactory, auth: Auth::Owner, refusal: U },
    VarDef { name: "vault_factory.update_config", ct: Ct::VaultFactory, auth: Auth::Owner, refusal: U },
    // vault
    VarDef { name: "vault.update_config", ct: Ct::Vault, auth: Auth::Owner, refusal: U },
    VarDef { name: "vault.callback_after_trade", ct: Ct::Vault, auth: Auth::SelfOnly, refusal: &["Attempt to call callback function outside contract"] },
    // vault router
    VarDef { name: "vault_router.update_config", ct: Ct::VaultRouter, auth: Auth::Owner, refusal: U },
    VarDef { name: "vault_router.next_loan", ct: Ct::VaultRouter, auth: Auth::SourceVault, refusal: U },
    VarDef { name: "vault_router.complete_loan", ct: Ct::VaultRouter, auth: Auth::SelfOnly, refusal: U },
    // fee collector
    VarDef { name: "fee_collector.update_config", ct: Ct::Collector, auth: Auth::Owner, refusal: U },
    VarDef { name: "fee_collector.forward_fees", ct: Ct::Collector, auth: Auth::Distributor, refusal: U },
    // fee distributor, whale lair
    VarDef { name: "fee_distributor.update_config", ct: Ct::Distributor, auth: Auth::Owner, refusal: U },
    VarDef { name: "whale_lair.update_config", ct: Ct::Lair, auth: Auth::Owner, refusal: U },
    // epoch manager: hook management + config
    VarDef { name: "epoch_manager.add_hook", ct: Ct::EpochManager, auth: Auth::Owner, refusal: &["Caller is not admin"] },
    VarDef { name: "epoch_manager.remove_hook", ct: Ct::EpochManager, auth: Auth::Owner, refusal: &["Caller is not admin"] },
    VarDef { name: "epoch_manager.update_config", ct: Ct::EpochManager, auth: Auth::Owner, refusal: &["Caller is not admin"] },
];

#[derive(Serialize, Deserialize, Clone, Copy, Debug, PartialEq, Eq)]
#[serde(rename_all = "snake_case")]
pub enum Role {
    /// the current configured owner of the target
    Owner,
    /// after a transfer: the previous owner; before: the account that will become owner later
    Prev,
    /// the child's factory contract (through the factory's forwarding message)
    Factory,
    /// a sibling contract (the Proxy harness contract is the sender)
    Sibling,
    /// a plain user
    User,
    /// the wasm (migration) admin of the target
    WasmAdmin,
    /// the designated contract / the contract itself, through the flow that makes it call
    Designated,
    /// the account that deployed the hub ("owner"), directly
    HubOwner,
}
pub const ROLES: [Role; 8] = [Role::Owner, Role::Prev, Role::Factory, Role::Sibling, Role::User, Role::WasmAdmin, Role::Designated, Role::HubOwner];

/// Is the cell meaningful at all? (A role that does not exist for the contract is not a cell:
/// contracts without a factory have no 'factory' caller, owner-only variants have no designated
/// contract, the LP token has no wasm admin, a factory can only send what its forwarding message
/// carries, i.e. the child's UpdateConfig.)
pub fn applicable(v: usize, phase_b: bool, role: Role) -> bool {
    let d = &VARIANTS[v];
    let forwardable = matches!(d.name, "pair.update_config" | "trio.update_config" | "vault.update_config");
    // children whose governing owner is a factory before the transfer
    let factory_owned = matches!(d.ct, Ct::LpToken) || d.name == "vault.callback_after_trade";
    match role {
        Role::Factory => forwardable,
        Role::Designated => matches!(d.auth, Auth::SelfOnly | Auth::SourceVault | Auth::Distributor | Auth::FactoryOwnerOrCreator) || d.name == "lp_token.mint",
        Role::WasmAdmin => !matches!(d.ct, Ct::LpToken | Ct::Incentive) && d.name != "vault.callback_after_trade",
        // before the transfer the owner of these is a factory that cannot send this message;
        // after it, the previous owner is that factory
        Role::Owner => !factory_owned || phase_b,
        Role::Prev => !factory_owned || !phase_b,
        Role::Sibling | Role::User | Role::HubOwner => true,
    }
}

pub fn cells() -> Vec<(usize, bool, Role)> {
    let mut out = vec![];
    for v in 0..VARIANTS.len() {
        for phase_b in [false, true] {
            for role in ROLES {
                if applicable(v, phase_b, role) {
                    out.push((v, phase_b, role));
                }
            }
        }
    }
    out
}

pub fn cell_of(idx: usize) -> (usize, bool, Role) {
    let c = cells();
    c[idx % c.len()]
}
fn role_tag(r: Role) -> &'static str {
    match r {
        Role::Owner => "owner",
        Role::Prev => "prev",
        Role::Factory => "factory",
        Role::Sibling => "sibling",
        Role::User => "user",
        Role::WasmAdmin => "wasmadmin",
        Role::Designated => "designated",
        Role::HubOwner => "hubowner",
    }
}

// ---------------------------------------------------------------------------------------------
// cfg / steps
// ---------------------------------------------------------------------------------------------

#[derive(Serialize, Deserialize, Clone, Debug)]
pub struct Cfg {
    /// the matrix cell this run is responsible for (run index mod number of cells)
    pub cell: usize,
    /// background traffic steps before the cell
    pub pre: usize,
    /// randomly chosen further cells after it
    pub extra: usize,
    pub new_owner_is_proxy: bool,
    pub max_steps: usize,
}

#[derive(Serialize, Deserialize, Clone, Debug, PartialEq)]
#[serde(rename_all = "snake_case")]
pub enum TOp {
    Swap { pair: usize, side: usize, amount: u128 },
    Provide { pair: usize, amount: u128 },
    RouterSwap { amount: u128 },
    VaultDeposit { vault: usize, amount: u128 },
    Bond { denom: usize, amount: u128 },
    NewEpoch,
    CreateEpoch,
    OpenFlow {
        amount: u128,
        /// flow labels are free text and need not be unique
        #[serde(default)]
        label: Option<String>,
        /// None: the designated flow creator; Some(i): user i opens the flow
        #[serde(default)]
        by: Option<usize>,
    },
}

#[derive(Serialize, Deserialize, Clone, Debug, PartialEq)]
#[serde(rename_all = "snake_case")]
pub enum Step {
    Traffic {
        user: usize,
        op: TOp,
        adv_ns: u64,
    },
    /// ownership transfer of (ct, idx) to `to`, sent by `top` (the current owner or its carrier)
    Transfer {
        ct: Ct,
        idx: usize,
        to: String,
        /// the address that is `info.sender` at the contract (its owner when the step was generated)
        eff: String,
        top: String,
        msgs: Vec<CosmosMsg>,
    },
    Probe {
        variant: usize,
        role: Role,
        /// instance index of the target (pair / trio / vault / incentive / lp token)
        idx: usize,
        /// the address that is `info.sender` at the target
        eff: String,
        /// the account that signs the transaction
        top: String,
        msgs: Vec<CosmosMsg>,
        /// the privileged message itself (None for designated flows)
        inner: Option<Value>,
        adv_ns: u64,
        /// this probe is the matrix cell the run index stands for
        cell: bool,
    },
}

struct Inner {
    msg: Value,
    /// the equivalent forwarding message of the child's factory: (factory address, message)
    fwd: Option<(String, Value)>,
    /// bank sends that precede the call in the same transaction (same sender)
    pre: Vec<(String, Coin)>,
    funds: Vec<Coin>,
}

pub struct AllAuth {
    pub cfg: Cfg,
    pub h: Hub,
    /// configured owner per contract address (router: its wasm admin); pair/trio/vault start with their factory
    pub owner: BTreeMap<String, String>,
    pub prev: BTreeMap<String, String>,
    /// LP tokens under test: (lp token address, owning pair address)
    pub lps: Vec<(String, String)>,
    // generation-only state
    g_pre_done: usize,
    g_cell_done: bool,
    /// phase-B cells: an authorised call of the same variant was (possibly) made before the hand-over
    g_warm_done: bool,
    g_extra_done: usize,
    g_cell_tries: usize,
}

fn jv<T: Serialize>(t: &T) -> Value {
    serde_json::to_value(t).expect("harness: to_value")
}

impl AllAuth {
    fn ct_addr(&self, ct: Ct, idx: usize) -> Option<String> {
        let h = &self.h;
        Some(match ct {
            Ct::PoolFactory => h.pool_factory.clone(),
            Ct::Pair => h.pairs.get(idx)?.addr.clone(),
            Ct::Trio => h.trios.get(idx)?.addr.clone(),
            Ct::Router => h.router.clone(),
            Ct::LpToken => self.lps.get(idx)?.0.clone(),
            Ct::Helper => h.helper.clone(),
            Ct::IncFactory => h.incentive_factory.clone(),
            Ct::Incentive => h.incentives.get(idx)?.0.clone(),
            Ct::VaultFactory => h.vault_factory.clone(),
            Ct::Vault => h.vaults.get(idx)?.addr.clone(),
            Ct::VaultRouter => h.vault_router.clone(),
            Ct::Collector => h.collector.clone(),
            Ct::Distributor => h.distributor.clone(),
            Ct::Lair => h.lair.clone(),
            Ct::EpochManager => h.epoch_manager.clone(),
        })
    }
    /// the contract whose ownership governs the target (incentive: its factory; LP token: its pair)
    fn owner_holder(&self, ct: Ct, idx: usize) -> Option<String> {
        match ct {
            Ct::Incentive => Some(self.h.incentive_factory.clone()),
            Ct::LpToken => Some(self.lps.get(idx)?.1.clone()),
            _ => self.ct_addr(ct, idx),
        }
    }
    fn owner_of(&self, addr: &str) -> String {
        self.owner.get(addr).cloned().unwrap_or_default()
    }
    fn is_contract(&self, a: &str) -> bool {
        a.starts_with("contract")
    }

    /// Who may call variant `v` on target (ct, idx) according to the property.
    fn authorised(&self, v: usize, idx: usize, inner: Option<&Value>) -> Vec<String> {
        let d = &VARIANTS[v];
        let target = self.ct_addr(d.ct, idx).unwrap_or_default();
        match d.auth {
            Auth::Owner | Auth::RouterAdmin => vec![self.owner_of(&target)],
            Auth::SelfOnly => vec![target],
            Auth::SourceVault => {
                // the source vault named in the message, provided the vault factory lists it for that asset
                let mut out = vec![];
                if inner.is_none() {
                    // designated flow (vault_router.FlashLoan): any registered vault may be the source
                    for v in &self.h.vaults {
                        let reg: Result<Option<String>, _> = query(&self.h.app, &self.h.vault_factory, &vault_factory::QueryMsg::Vault { asset_info: v.asset.clone() });
                        if let Ok(Some(a)) = reg {
                            if a == v.addr {
                                out.push(a);
                            }
                        }
                    }
                }
                if let Some(m) = inner.and_then(|m| m.get("next_loan")) {
                    if let (Some(sv), Some(ai)) = (m.get("source_vault").and_then(|x| x.as_str()), m.get("source_vault_asset_info")) {
                        if let Ok(ai) = serde_json::from_value::<AssetInfo>(ai.clone()) {
                            let reg: Result<Option<String>, _> = query(&self.h.app, &self.h.vault_factory, &vault_factory::QueryMsg::Vault { asset_info: ai });
                            if let Ok(Some(a)) = reg {
                                if a == sv {
                                    out.push(a);
                                }
                            }
                        }
                    }
                }
                out
            }
            Auth::Distributor => vec![self.h.distributor.clone()],
            Auth::Minter => self.lps.get(idx).map(|l| vec![l.1.clone()]).unwrap_or_default(),
            Auth::FactoryOwnerOrCreator => {
                // the factory owner, and the creator of the flow the identifier names (when several
                // flows carry the label and their creators differ, see `ambiguous_close`)
                let mut out = vec![self.owner_of(&self.h.incentive_factory)];
                let m = self.matched_flows(idx, inner);
                if let Some(first) = m.first() {
                    if m.iter().all(|c| c == first) {
                        out.push(first.clone());
                    }
                }
                if inner.is_none() {
                    out.push(CREATOR.to_string());
                }
                out
            }
            Auth::Nobody => vec![],
        }
    }

    /// Carries `msg` to `target` so that `eff` is the sender. Returns (signer, messages).
    fn deliver(&self, eff: &str, target: &str, inner: &Inner, user: &str, depth: usize) -> Option<(String, Vec<CosmosMsg>)> {
        if depth > 3 || eff.is_empty() {
            return None;
        }
        let mut msgs: Vec<CosmosMsg> = inner
            .pre
            .iter()
            .map(|(to, c)| CosmosMsg::Bank(BankMsg::Send { to_address: to.clone(), amount: vec![c.clone()] }))
            .collect();
        msgs.push(exec_json(target, &inner.msg, inner.funds.clone()));
        if !self.is_contract(eff) {
            return Some((eff.to_string(), msgs));
        }
        if eff == self.h.proxy || eff == self.h.proxy2 {
            let mut need: Vec<Coin> = inner.funds.clone();
            for (_, c) in &inner.pre {
                need.push(c.clone());
            }
            // merge equal denoms
            let mut merged: BTreeMap<String, u128> = BTreeMap::new();
            for c in need {
                *merged.entry(c.denom).or_insert(0) += c.amount.u128();
            }
            let funds: Vec<Coin> = merged.into_iter().filter(|(_, a)| *a > 0).map(|(d, a)| coin(a, d)).collect();
            return Some((user.to_string(), vec![via_proxy(eff, msgs, funds)]));
        }
        // the vault router as sender: it executes a flash-loan payload with itself as sender
        if eff == self.h.vault_router {
            let vlt = self.h.vaults.first()?;
            let denom = match &vlt.asset {
                AssetInfo::NativeToken { denom } => denom.clone(),
                _ => return None,
            };
            let amount = 100_000u128;
            let mut top = vec![bank_send(&self.h.vault_router, amount / 5 + 10, &denom)];
            top.push(wasm_exec(&self.h.vault_router, &vault_router::ExecuteMsg::FlashLoan { assets: vec![Asset { info: vlt.asset.clone(), amount: Uint128::new(amount) }], msgs }, vec![]));
            return Some((user.to_string(), top));
        }
        // a factory as sender: only through its forwarding message
        if let Some((fac, fwd)) = &inner.fwd {
            if eff == fac {
                let carrier = self.owner_of(fac);
                let fi = Inner { msg: fwd.clone(), fwd: None, pre: vec![], funds: vec![] };
                return self.deliver(&carrier, fac, &fi, user, depth + 1);
            }
        }
        None
    }

    /// (flow id, label, creator) of every flow of incentive `idx`, in the contract's listing order
    fn flows_of(&self, idx: usize) -> Vec<(u64, Option<String>, String)> {
        let Some(inc) = self.h.incentives.get(idx) else { return vec![] };
        let Ok(flows) = qjson(&self.h.app, &inc.0, &incentive::QueryMsg::Flows { start_epoch: None, end_epoch: None }) else { return vec![] };
        let arr = flows.as_array().cloned().or_else(|| flows.get("flows").and_then(|f| f.as_array().cloned())).unwrap_or_default();
        arr.iter()
            .filter_map(|f| Some((f.get("flow_id")?.as_u64()?, f.get("flow_label").and_then(|l| l.as_str()).map(|l| l.to_string()), f.get("flow_creator")?.as_str()?.to_string())))
            .collect()
    }
    /// creators of the flows a CloseFlow message names (by id: at most one; by label: all that carry it)
    fn matched_flows(&self, idx: usize, inner: Option<&Value>) -> Vec<String> {
        let Some(fi) = inner.and_then(|m| jget(m, &["close_flow", "flow_identifier"])) else { return vec![] };
        let fl = self.flows_of(idx);
        if let Some(id) = fi.get("id").and_then(|x| x.as_u64()) {
            return fl.into_iter().filter(|f| f.0 == id).map(|f| f.2).collect();
        }
        if let Some(l) = fi.get("label").and_then(|x| x.as_str()) {
            return fl.into_iter().filter(|f| f.1.as_deref() == Some(l)).map(|f| f.2).collect();
        }
        vec![]
    }
    /// a user who owns a flow whose label another account's flow carries too
    fn colliding_label_owner(&self) -> Option<String> {
        let fl = self.flows_of(0);
        fl.iter().find(|f| USERS.contains(&f.2.as_str()) && f.1.is_some() && fl.iter().any(|g| g.2 != f.2 && g.1 == f.1)).map(|f| f.2.clone())
    }

    fn hooks(&self) -> Vec<String> {
        raw::<Vec<String>>(&self.h.app, &self.h.epoch_manager, b"hooks").unwrap_or_default()
    }

    fn rand_fees(rng: &mut Rng) -> [String; 3] {
        let p = rng.range128(0, 30_000_000_000_000_000);
        let s = rng.range128(0, 30_000_000_000_000_000);
        let b = if rng.chance(1, 3) { rng.range128(0, 10_000_000_000_000_000) } else { 0 };
        [crate::big::atomics_to_dec(p), crate::big::atomics_to_dec(s), crate::big::atomics_to_dec(b)]
    }
    fn pair_toggle(rng: &mut Rng) -> pair::FeatureToggle {
        pair::FeatureToggle { withdrawals_enabled: true, deposits_enabled: rng.chance(9, 10), swaps_enabled: rng.chance(9, 10) }
    }
    fn trio_toggle(rng: &mut Rng) -> trio::FeatureToggle {
        trio::FeatureToggle { withdrawals_enabled: true, deposits_enabled: rng.chance(9, 10), swaps_enabled: true }
    }
    fn opt<T>(rng: &mut Rng, v: T) -> Option<T> {
        if rng.chance(2, 3) {
            Some(v)
        } else {
            None
        }
    }

    /// A payload for variant `v` that is valid by construction in the current state (so that the
    /// only reason to refuse it is authorisation). None: cannot be arranged in this state.
    fn payload(&self, rng: &mut Rng, v: usize, idx: usize, attacker: &str) -> Option<Inner> {
        let h = &self.h;
        let plain = |m: Value| Some(Inner { msg: m, fwd: None, pre: vec![], funds: vec![] });
        let name = VARIANTS[v].name;
        match name {
            "pool_factory.update_config" => plain(jv(&factory::ExecuteMsg::UpdateConfig {
                owner: None,
                fee_collector_addr: Self::opt(rng, h.collector.clone()),
                token_code_id: Self::opt(rng, h.codes.token),
                pair_code_id: Self::opt(rng, h.codes.pair),
                trio_code_id: Self::opt(rng, h.codes.trio),
            })),
            "pool_factory.update_pair_config" => {
                let p = h.pairs.get(idx)?;
                plain(jv(&factory::ExecuteMsg::UpdatePairConfig {
                    pair_addr: p.addr.clone(),
                    owner: None,
                    fee_collector_addr: Self::opt(rng, h.collector.clone()),
                    pool_fees: Some(pool_fee3(&Self::rand_fees(rng))),
                    feature_toggle: { let t = Self::pair_toggle(rng); Self::opt(rng, t) },
                }))
            }
            "pool_factory.update_trio_config" => {
                let t = h.trios.get(idx)?;
                plain(jv(&factory::ExecuteMsg::UpdateTrioConfig {
                    trio_addr: t.addr.clone(),
                    owner: None,
                    fee_collector_addr: Self::opt(rng, h.collector.clone()),
                    pool_fees: Some(trio_fee3(&Self::rand_fees(rng))),
                    feature_toggle: { let t = Self::trio_toggle(rng); Self::opt(rng, t) },
                    amp_factor: None,
                }))
            }
            "pool_factory.create_pair" => {
                // an asset pair that is not registered
                let n = h.assets.len();
                let mut cands = vec![];
                for a in 0..n {
                    for b in (a + 1)..n {
                        if h.pair_info(&h.assets[a], &h.assets[b]).is_err() {
                            cands.push((a, b));
                        }
                    }
                }
                if cands.is_empty() {
                    return None;
                }
                let (a, b) = *rng.pick(&cands);
                let (a, b) = if rng.chance(1, 2) { (a, b) } else { (b, a) };
                plain(jv(&factory::ExecuteMsg::CreatePair {
                    asset_infos: [h.assets[a].clone(), h.assets[b].clone()],
                    pool_fees: pool_fee3(&Self::rand_fees(rng)),
                    pair_type: if rng.chance(1, 3) { PairType::StableSwap { amp: rng.range(1, 1000) } } else { PairType::ConstantProduct },
                    token_factory_lp: false,
                }))
            }
            "pool_factory.create_trio" => {
                let n = h.assets.len();
                let mut cands = vec![];
                for a in 0..n {
                    for b in (a + 1)..n {
                        for c in (b + 1)..n {
                            if h.trio_info(&[h.assets[a].clone(), h.assets[b].clone(), h.assets[c].clone()]).is_err() {
                                cands.push([a, b, c]);
                            }
                        }
                    }
                }
                if cands.is_empty() {
                    return None;
                }
                let mut t = *rng.pick(&cands);
                rng.shuffle(&mut t);
                plain(jv(&factory::ExecuteMsg::CreateTrio {
                    asset_infos: [h.assets[t[0]].clone(), h.assets[t[1]].clone(), h.assets[t[2]].clone()],
                    pool_fees: trio_fee3(&Self::rand_fees(rng)),
                    amp_factor: rng.range(1, 5000),
                    token_factory_lp: false,
                }))
            }
            "pool_factory.add_native_token_decimals" => {
                let (denom, decimals) = if rng.chance(1, 2) {
                    let k = rng.idx(h.n_native);
                    (NATIVES[k].to_string(), NATIVE_DECIMALS[k])
                } else {
                    (format!("unew{}", (b'a' + rng.below(26) as u8) as char), rng.range(0, 18) as u8)
                };
                plain(jv(&factory::ExecuteMsg::AddNativeTokenDecimals { denom, decimals }))
            }
            "pool_factory.migrate_pair" => {
                let p = h.pairs.get(idx)?;
                plain(jv(&factory::ExecuteMsg::MigratePair { contract: p.addr.clone(), code_id: if rng.chance(5, 6) { Some(h.codes.pair_v2) } else { None } }))
            }
            "pool_factory.migrate_trio" => {
                let t = h.trios.get(idx)?;
                plain(jv(&factory::ExecuteMsg::MigrateTrio { contract: t.addr.clone(), code_id: if rng.chance(5, 6) { Some(h.codes.trio_v2) } else { None } }))
            }
            "pool_factory.remove_pair" => {
                // a registered pair; prefer one that the background traffic does not need
                let mut regs = vec![];
                for (i, p) in h.pairs.iter().enumerate() {
                    if let Ok(pi) = h.pair_info(&p.assets[0], &p.assets[1]) {
                        if pi.contract_addr == p.addr {
                            regs.push(i);
                        }
                    }
                }
                if regs.is_empty() {
                    return None;
                }
                let late: Vec<usize> = regs.iter().copied().filter(|i| *i >= 2).collect();
                let i = if !late.is_empty() && rng.chance(3, 4) { *rng.pick(&late) } else { *rng.pick(&regs) };
                let p = &h.pairs[i];
                let infos = if rng.chance(1, 2) { [p.assets[0].clone(), p.assets[1].clone()] } else { [p.assets[1].clone(), p.assets[0].clone()] };
                plain(jv(&factory::ExecuteMsg::RemovePair { asset_infos: infos }))
            }
            "pool_factory.remove_trio" => {
                let mut regs = vec![];
                for (i, t) in h.trios.iter().enumerate() {
                    if let Ok(ti) = h.trio_info(&t.assets) {
                        if ti.contract_addr == t.addr {
                            regs.push(i);
                        }
                    }
                }
                if regs.is_empty() {
                    return None;
                }
                let t = &h.trios[*rng.pick(&regs)];
                let mut a = t.assets.clone();
                rng.shuffle(&mut a);
                plain(jv(&factory::ExecuteMsg::RemoveTrio { asset_infos: a }))
            }
            "pair.update_config" => {
                let p = h.pairs.get(idx)?;
                let fee_collector_addr = Self::opt(rng, h.collector.clone());
                let pool_fees = Some(pool_fee3(&Self::rand_fees(rng)));
                let feature_toggle = { let t = Self::pair_toggle(rng); Self::opt(rng, t) };
                Some(Inner {
                    msg: jv(&pair::ExecuteMsg::UpdateConfig { owner: None, fee_collector_addr: fee_collector_addr.clone(), pool_fees: pool_fees.clone(), feature_toggle: feature_toggle.clone() }),
                    fwd: Some((h.pool_factory.clone(), jv(&factory::ExecuteMsg::UpdatePairConfig { pair_addr: p.addr.clone(), owner: None, fee_collector_addr, pool_fees, feature_toggle }))),
                    pre: vec![],
                    funds: vec![],
                })
            }
            "trio.update_config" => {
                let t = h.trios.get(idx)?;
                let fee_collector_addr = Self::opt(rng, h.collector.clone());
                let pool_fees = Some(trio_fee3(&Self::rand_fees(rng)));
                let feature_toggle = { let t = Self::trio_toggle(rng); Self::opt(rng, t) };
                Some(Inner {
                    msg: jv(&trio::ExecuteMsg::UpdateConfig { owner: None, fee_collector_addr: fee_collector_addr.clone(), pool_fees: pool_fees.clone(), feature_toggle: feature_toggle.clone(), amp_factor: None }),
                    fwd: Some((h.pool_factory.clone(), jv(&factory::ExecuteMsg::UpdateTrioConfig { trio_addr: t.addr.clone(), owner: None, fee_collector_addr, pool_fees, feature_toggle, amp_factor: None }))),
                    pre: vec![],
                    funds: vec![],
                })
            }
            "router.add_swap_routes" => {
                // a route over a registered pair with liquidity (pairs 0 and 1 are funded at setup)
                let mut cands = vec![];
                for p in h.pairs.iter().take(2) {
                    if let Ok(pi) = h.pair_info(&p.assets[0], &p.assets[1]) {
                        if pi.contract_addr == p.addr {
                            cands.push(p.clone());
                        }
                    }
                }
                if cands.is_empty() {
                    return None;
                }
                let p = rng.pick(&cands);
                let (o, a) = if rng.chance(1, 2) { (0, 1) } else { (1, 0) };
                plain(jv(&router::ExecuteMsg::AddSwapRoutes {
                    swap_routes: vec![SwapRoute {
                        offer_asset_info: p.assets[o].clone(),
                        ask_asset_info: p.assets[a].clone(),
                        swap_operations: vec![SwapOperation::TerraSwap { offer_asset_info: p.assets[o].clone(), ask_asset_info: p.assets[a].clone() }],
                    }],
                }))
            }
            "router.remove_swap_routes" => {
                // an existing route: find one through the SwapRoute query
                let mut found = None;
                for p in h.pairs.iter().take(2) {
                    for (o, a) in [(0usize, 1usize), (1, 0)] {
                        let r: Result<Vec<SwapOperation>, _> = query(&h.app, &h.router, &router::QueryMsg::SwapRoute { offer_asset_info: p.assets[o].clone(), ask_asset_info: p.assets[a].clone() });
                        if let Ok(ops) = r {
                            found = Some(SwapRoute { offer_asset_info: p.assets[o].clone(), ask_asset_info: p.assets[a].clone(), swap_operations: ops });
                        }
                    }
                }
                plain(jv(&router::ExecuteMsg::RemoveSwapRoutes { swap_routes: vec![found?] }))
            }
            "router.execute_swap_operation" => {
                // the caller first hands the router something to swap (same transaction)
                let p = h.pairs.first()?;
                let denom = match &p.assets[0] {
                    AssetInfo::NativeToken { denom } => denom.clone(),
                    _ => return None,
                };
                let amount = rng.range128(1_000, 1_000_000);
                Some(Inner {
                    msg: jv(&router::ExecuteMsg::ExecuteSwapOperation {
                        operation: SwapOperation::TerraSwap { offer_asset_info: p.assets[0].clone(), ask_asset_info: p.assets[1].clone() },
                        to: Self::opt(rng, attacker.to_string()),
                        max_spread: None,
                    }),
                    fwd: None,
                    pre: vec![(h.router.clone(), coin(amount, denom))],
                    funds: vec![],
                })
            }
            "router.assert_minimum_receive" => {
                let who = *rng.pick(&USERS);
                let bal = balance(&h.app, who, &h.assets[0]);
                let prev = rng.range128(0, bal);
                plain(jv(&router::ExecuteMsg::AssertMinimumReceive {
                    asset_info: h.assets[0].clone(),
                    prev_balance: Uint128::new(prev),
                    minimum_receive: Uint128::new(rng.range128(0, bal - prev)),
                    receiver: who.to_string(),
                }))
            }
            "lp_token.mint" => plain(jv(&cw20::Cw20ExecuteMsg::Mint { recipient: attacker.to_string(), amount: Uint128::new(rng.range128(1, 1_000_000_000)) })),
            "lp_token.update_minter" => plain(jv(&cw20::Cw20ExecuteMsg::UpdateMinter { new_minter: Self::opt(rng, attacker.to_string()) })),
            "lp_token.update_marketing" => plain(jv(&cw20::Cw20ExecuteMsg::UpdateMarketing { project: Some("https://example.org".to_string()), description: Self::opt(rng, "lp".to_string()), marketing: Self::opt(rng, attacker.to_string()) })),
            "lp_token.upload_logo" => plain(jv(&cw20::Cw20ExecuteMsg::UploadLogo(cw20::Logo::Url("https://example.org/logo.png".to_string())))),
            "frontend_helper.update_config" => plain(jv(&frontend_helper::ExecuteMsg::UpdateConfig { incentive_factory_addr: Self::opt(rng, h.incentive_factory.clone()), owner: None })),
            "incentive_factory.create_incentive" => {
                // an LP asset without incentive contract: any fresh native denom or an LP token of another pair
                let mut cands: Vec<AssetInfo> = vec![native(&format!("ulp{}{}", (b'a' + rng.below(26) as u8) as char, (b'a' + rng.below(26) as u8) as char))];
                for p in &h.pairs {
                    cands.push(token(&p.lp));
                }
                let free: Vec<AssetInfo> = cands
                    .into_iter()
                    .filter(|a| matches!(query::<Option<String>, _>(&h.app, &h.incentive_factory, &incentive_factory::QueryMsg::Incentive { lp_asset: a.clone() }), Ok(None)))
                    .collect();
                if free.is_empty() {
                    return None;
                }
                plain(jv(&incentive_factory::ExecuteMsg::CreateIncentive { lp_asset: rng.pick(&free).clone() }))
            }
            "incentive_factory.update_config" => plain(jv(&incentive_factory::ExecuteMsg::UpdateConfig {
                owner: None,
                fee_collector_addr: Self::opt(rng, h.collector.clone()),
                fee_distributor_addr: Self::opt(rng, h.distributor.clone()),
                create_flow_fee: Self::opt(rng, Asset { info: native(NATIVES[0]), amount: Uint128::new(1_000) }),
                max_concurrent_flows: Some(rng.range(5, 9)),
                incentive_code_id: Self::opt(rng, h.codes.incentive),
                max_flow_start_time_buffer: { let b = rng.range(10, 20); Self::opt(rng, b) },
                min_unbonding_duration: None,
                max_unbonding_duration: None,
            })),
            "incentive_factory.migrate_incentives" => plain(jv(&incentive_factory::ExecuteMsg::MigrateIncentives {
                incentive_address: Self::opt(rng, h.incentives.first()?.0.clone()),
                code_id: if rng.chance(5, 6) { h.codes.incentive_v2 } else { h.codes.incentive },
            })),
            "incentive.close_flow" => {
                let inc = &h.incentives.get(idx)?.0;
                let flows = qjson(&h.app, inc, &incentive::QueryMsg::Flows { start_epoch: None, end_epoch: None }).ok()?;
                let arr = flows.as_array().cloned().or_else(|| flows.get("flows").and_then(|f| f.as_array().cloned()))?;
                let ids: Vec<u64> = arr.iter().filter_map(|f| f.get("flow_id").and_then(|x| x.as_u64())).collect();
                if ids.is_empty() {
                    return None;
                }
                // a label that the sender's own flow shares with somebody else's flow
                let fl = self.flows_of(idx);
                let shared: Vec<String> = fl.iter().filter(|f| f.2 == attacker).filter_map(|f| f.1.clone()).filter(|l| fl.iter().any(|g| g.2 != attacker && g.1.as_ref() == Some(l))).collect();
                if !shared.is_empty() && rng.chance(3, 4) {
                    return plain(jv(&incentive::ExecuteMsg::CloseFlow { flow_identifier: incentive::FlowIdentifier::Label(rng.pick(&shared).clone()) }));
                }
                let labels: Vec<String> = fl.iter().filter_map(|f| f.1.clone()).collect();
                if !labels.is_empty() && rng.chance(1, 4) {
                    return plain(jv(&incentive::ExecuteMsg::CloseFlow { flow_identifier: incentive::FlowIdentifier::Label(rng.pick(&labels).clone()) }));
                }
                plain(jv(&incentive::ExecuteMsg::CloseFlow { flow_identifier: incentive::FlowIdentifier::Id(*rng.pick(&ids)) }))
            }
            "vault_factory.create_vault" => {
                let mut cands: Vec<AssetInfo> = h.assets.clone();
                cands.push(native(BOND_DENOMS[0]));
                cands.push(native(BOND_DENOMS[1]));
                cands.push(native(&format!("uvlt{}", (b'a' + rng.below(26) as u8) as char)));
                let free: Vec<AssetInfo> = cands
                    .into_iter()
                    .filter(|a| matches!(query::<Option<String>, _>(&h.app, &h.vault_factory, &vault_factory::QueryMsg::Vault { asset_info: a.clone() }), Ok(None)))
                    .collect();
                if free.is_empty() {
                    return None;
                }
                plain(jv(&vault_factory::ExecuteMsg::CreateVault { asset_info: rng.pick(&free).clone(), fees: vault_fee3(&Self::rand_fees(rng)), token_factory_lp: false }))
            }
            "vault_factory.migrate_vaults" => plain(jv(&vault_factory::ExecuteMsg::MigrateVaults { vault_addr: Self::opt(rng, h.vaults.first()?.addr.clone()), vault_code_id: if rng.chance(5, 6) { h.codes.vault_v2 } else { h.codes.vault } })),
            "vault_factory.remove_vault" => {
                let mut regs = vec![];
                for (i, v) in h.vaults.iter().enumerate() {
                    if let Ok(Some(a)) = query::<Option<String>, _>(&h.app, &h.vault_factory, &vault_factory::QueryMsg::Vault { asset_info: v.asset.clone() }) {
                        if a == v.addr {
                            regs.push(i);
                        }
                    }
                }
                let late: Vec<usize> = regs.iter().copied().filter(|i| *i >= 1).collect();
                let i = if !late.is_empty() { *rng.pick(&late) } else { *regs.first()? };
                plain(jv(&vault_factory::ExecuteMsg::RemoveVault { asset_info: h.vaults[i].asset.clone() }))
            }
            "vault_factory.update_vault_config" => {
                let v = h.vaults.get(idx)?;
                plain(jv(&vault_factory::ExecuteMsg::UpdateVaultConfig { vault_addr: v.addr.clone(), params: Self::vault_params(rng, h) }))
            }
            "vault_factory.update_config" => plain(jv(&vault_factory::ExecuteMsg::UpdateConfig {
                owner: None,
                fee_collector_addr: Self::opt(rng, h.collector.clone()),
                vault_id: Self::opt(rng, h.codes.vault),
                token_id: Self::opt(rng, h.codes.token),
            })),
            "vault.update_config" => {
                let v = h.vaults.get(idx)?;
                let params = Self::vault_params(rng, h);
                Some(Inner {
                    msg: jv(&vault::ExecuteMsg::UpdateConfig(params.clone())),
                    fwd: Some((h.vault_factory.clone(), jv(&vault_factory::ExecuteMsg::UpdateVaultConfig { vault_addr: v.addr.clone(), params }))),
                    pre: vec![],
                    funds: vec![],
                })
            }
            "vault.callback_after_trade" => {
                let v = h.vaults.get(idx)?;
                let bal = balance(&h.app, &v.addr, &v.asset);
                // a loan that the current balance already "repays": old_balance + fees <= balance
                let loan = rng.range128(0, (bal / 4).min(1_000_000));
                let old = rng.range128(0, bal.saturating_sub(loan));
                plain(jv(&vault::ExecuteMsg::Callback(vault::CallbackMsg::AfterTrade { old_balance: Uint128::new(old), loan_amount: Uint128::new(loan) })))
            }
            "vault_router.update_config" => plain(jv(&vault_router::ExecuteMsg::UpdateConfig { owner: None, vault_factory_addr: Self::opt(rng, h.vault_factory.clone()) })),
            "vault_router.next_loan" => {
                // a registered vault as source
                let mut regs = vec![];
                for v in &h.vaults {
                    if let Ok(Some(a)) = query::<Option<String>, _>(&h.app, &h.vault_factory, &vault_factory::QueryMsg::Vault { asset_info: v.asset.clone() }) {
                        if a == v.addr {
                            regs.push(v.clone());
                        }
                    }
                }
                if regs.is_empty() {
                    return None;
                }
                let v = rng.pick(&regs);
                // the caller names either the registered vault or ITSELF as the source vault (the
                // asset always has a registered vault): both halves of the guard are needed
                let named = if rng.chance(1, 2) { attacker.to_string() } else { v.addr.clone() };
                plain(jv(&vault_router::ExecuteMsg::NextLoan {
                    initiator: cosmwasm_std::Addr::unchecked(attacker),
                    source_vault: named,
                    source_vault_asset_info: v.asset.clone(),
                    payload: vec![],
                    to_loan: vec![],
                    loaned_assets: vec![],
                }))
            }
            "vault_router.complete_loan" => {
                let v = h.vaults.first()?;
                let denom = match &v.asset {
                    AssetInfo::NativeToken { denom } => denom.clone(),
                    _ => return None,
                };
                if rng.chance(1, 2) {
                    plain(jv(&vault_router::ExecuteMsg::CompleteLoan { initiator: cosmwasm_std::Addr::unchecked(attacker), loaned_assets: vec![] }))
                } else {
                    // the caller hands the router enough to "pay back" a loan it never took
                    let amount = rng.range128(1_000, 100_000);
                    Some(Inner {
                        msg: jv(&vault_router::ExecuteMsg::CompleteLoan {
                            initiator: cosmwasm_std::Addr::unchecked(attacker),
                            loaned_assets: vec![(v.addr.clone(), Asset { info: v.asset.clone(), amount: Uint128::new(amount) })],
                        }),
                        fwd: None,
                        pre: vec![(h.vault_router.clone(), coin(amount * 2, denom))],
                        funds: vec![],
                    })
                }
            }
            "fee_collector.update_config" => plain(jv(&fee_collector::ExecuteMsg::UpdateConfig {
                owner: None,
                pool_router: Self::opt(rng, h.router.clone()),
                fee_distributor: Self::opt(rng, h.distributor.clone()),
                pool_factory: Self::opt(rng, h.pool_factory.clone()),
                vault_factory: Self::opt(rng, h.vault_factory.clone()),
                take_rate: Some(dec(&crate::big::atomics_to_dec(rng.range128(0, crate::big::E18 / 2)))),
                take_rate_dao_address: Self::opt(rng, DAO.to_string()),
                is_take_rate_active: Some(rng.chance(1, 2)),
            })),
            "fee_collector.forward_fees" => {
                let cur = qjson(&h.app, &h.distributor, &fee_distributor::QueryMsg::CurrentEpoch {}).ok()?;
                let id = jget(&cur, &["epoch", "id"]).and_then(jnum).unwrap_or(0) as u64;
                plain(jv(&fee_collector::ExecuteMsg::ForwardFees {
                    epoch: fee_distributor::Epoch {
                        id: Uint64::new(id + 1),
                        start_time: Timestamp::from_nanos(now_ns(&h.app)),
                        total: vec![],
                        available: vec![],
                        claimed: vec![],
                        global_index: Default::default(),
                    },
                    forward_fees_as: native(NATIVES[0]),
                }))
            }
            "fee_distributor.update_config" => {
                let cfg = qjson(&h.app, &h.distributor, &fee_distributor::QueryMsg::Config {}).ok()?;
                let grace = jget(&cfg, &["grace_period"]).and_then(jnum).unwrap_or(30) as u64;
                plain(jv(&fee_distributor::ExecuteMsg::UpdateConfig {
                    owner: None,
                    bonding_contract_addr: Self::opt(rng, h.lair.clone()),
                    fee_collector_addr: Self::opt(rng, h.collector.clone()),
                    grace_period: Some(Uint64::new(rng.range(grace.min(30), (grace + 2).min(30)))),
                    distribution_asset: None,
                    epoch_config: None,
                }))
            }
            "whale_lair.update_config" => plain(jv(&whale_lair::ExecuteMsg::UpdateConfig {
                owner: None,
                unbonding_period: Some(Uint64::new(rng.range(1_000_000_000, 2_000_000_000_000))),
                growth_rate: { let g = rng.range128(0, crate::big::E18); Self::opt(rng, dec(&crate::big::atomics_to_dec(g))) },
                fee_distributor_addr: Self::opt(rng, h.distributor.clone()),
            })),
            "epoch_manager.add_hook" => {
                let hooks = self.hooks();
                let cands: Vec<String> = [h.proxy.clone(), h.proxy2.clone()].into_iter().filter(|p| !hooks.contains(p)).collect();
                if cands.is_empty() {
                    return None;
                }
                plain(jv(&em::ExecuteMsg::AddHook { contract_addr: rng.pick(&cands).clone() }))
            }
            "epoch_manager.remove_hook" => {
                let hooks = self.hooks();
                if hooks.is_empty() {
                    return None;
                }
                plain(jv(&em::ExecuteMsg::RemoveHook { contract_addr: rng.pick(&hooks).clone() }))
            }
            "epoch_manager.update_config" => plain(jv(&em::ExecuteMsg::UpdateConfig {
                owner: None,
                epoch_config: { let k = rng.range(1, 2); Self::opt(rng, em::EpochConfig { duration: Uint64::new(DAY_NS * k), genesis_epoch: Uint64::new(GENESIS_TIME_NS) }) },
            })),
            _ => None,
        }
    }

    fn vault_params(rng: &mut Rng, h: &Hub) -> vault::UpdateConfigParams {
        vault::UpdateConfigParams {
            flash_loan_enabled: Self::opt(rng, true),
            deposit_enabled: Self::opt(rng, true),
            withdraw_enabled: Self::opt(rng, true),
            new_owner: None,
            new_vault_fees: Some(vault_fee3(&Self::rand_fees(rng))),
            new_fee_collector_addr: Self::opt(rng, h.collector.clone()),
        }
    }

    /// The flow that makes the designated contract (or the contract itself) issue variant `v`.
    /// Returns (effective sender, signer, messages, clock advance).
    fn designated_flow(&self, rng: &mut Rng, v: usize, idx: usize, user: &str) -> Option<(String, String, Vec<CosmosMsg>, u64)> {
        let h = &self.h;
        match VARIANTS[v].name {
            "router.execute_swap_operation" | "router.assert_minimum_receive" => {
                let p = h.pairs.first()?;
                let ops = vec![SwapOperation::TerraSwap { offer_asset_info: p.assets[1].clone(), ask_asset_info: p.assets[0].clone() }];
                let m = h.router_swap_msg(ops, rng.range128(10_000, 1_000_000), Some(1), None)?;
                Some((h.router.clone(), user.to_string(), vec![m], 0))
            }
            "vault.callback_after_trade" => {
                let vlt = h.vaults.get(idx)?;
                let denom = match &vlt.asset {
                    AssetInfo::NativeToken { denom } => denom.clone(),
                    _ => return None,
                };
                let amount = rng.range128(1_000, 1_000_000);
                let extra = amount / 5 + 10;
                let repay = CosmosMsg::Bank(BankMsg::Send { to_address: vlt.addr.clone(), amount: vec![coin(amount + extra, &denom)] });
                let loan = wasm_exec(
                    &vlt.addr,
                    &vault::ExecuteMsg::FlashLoan { amount: Uint128::new(amount), msg: to_json_binary(&ProxyExec::Forward { msgs: vec![repay] }).unwrap() },
                    vec![],
                );
                Some((vlt.addr.clone(), user.to_string(), vec![via_proxy(&h.proxy, vec![loan], vec![coin(extra, &denom)])], 0))
            }
            "vault_router.next_loan" | "vault_router.complete_loan" => {
                let vlt = h.vaults.first()?;
                let denom = match &vlt.asset {
                    AssetInfo::NativeToken { denom } => denom.clone(),
                    _ => return None,
                };
                let amount = rng.range128(1_000, 1_000_000);
                let eff = if VARIANTS[v].name == "vault_router.next_loan" { vlt.addr.clone() } else { h.vault_router.clone() };
                Some((
                    eff,
                    user.to_string(),
                    vec![
                        bank_send(&h.vault_router, amount / 5 + 10, &denom),
                        wasm_exec(&h.vault_router, &vault_router::ExecuteMsg::FlashLoan { assets: vec![Asset { info: vlt.asset.clone(), amount: Uint128::new(amount) }], msgs: vec![] }, vec![]),
                    ],
                    0,
                ))
            }
            "fee_collector.forward_fees" => Some((h.distributor.clone(), user.to_string(), vec![wasm_exec(&h.distributor, &fee_distributor::ExecuteMsg::NewEpoch {}, vec![])], DAY_NS)),
            "lp_token.mint" => {
                let (lp, pairaddr) = self.lps.get(idx)?;
                let p = h.pairs.iter().find(|p| &p.addr == pairaddr && &p.lp == lp)?;
                let amt = rng.range128(10_000, 1_000_000);
                Some((pairaddr.clone(), user.to_string(), h.provide_msgs(&p.addr, &p.assets, [amt, amt]), 0))
            }
            "incentive.close_flow" => {
                // the flow's creator closes one of his own flows, named by its (unique) id
                let own: Vec<u64> = self.flows_of(idx).into_iter().filter(|f| f.2 == CREATOR).map(|f| f.0).collect();
                if own.is_empty() {
                    return None;
                }
                let msg = jv(&incentive::ExecuteMsg::CloseFlow { flow_identifier: incentive::FlowIdentifier::Id(*rng.pick(&own)) });
                let inc = h.incentives.get(idx)?.0.clone();
                Some((CREATOR.to_string(), CREATOR.to_string(), vec![exec_json(&inc, &msg, vec![])], 0))
            }
            _ => None,
        }
    }

    /// Effective sender for (variant, target, role) in the current state.
    fn eff_for(&self, v: usize, idx: usize, role: Role, rng: &mut Rng) -> Option<String> {
        let d = &VARIANTS[v];
        let holder = self.owner_holder(d.ct, idx)?;
        Some(match role {
            Role::Owner => self.owner_of(&holder),
            Role::Prev => match self.prev.get(&holder) {
                Some(p) => p.clone(),
                None => NEWOWNER.to_string(),
            },
            Role::Factory => match d.ct {
                Ct::Pair | Ct::Trio => self.h.pool_factory.clone(),
                Ct::Vault => self.h.vault_factory.clone(),
                Ct::Incentive => self.h.incentive_factory.clone(),
                _ => return None,
            },
            Role::Sibling => {
                // the vault router runs a borrower's payload with itself as sender: towards its own
                // entry points it is then "a contract" like any other
                if d.ct == Ct::VaultRouter && rng.chance(1, 2) {
                    self.h.vault_router.clone()
                } else if rng.chance(3, 4) {
                    self.h.proxy.clone()
                } else {
                    self.h.proxy2.clone()
                }
            }
            Role::User => match self.colliding_label_owner() {
                Some(u) if d.name == "incentive.close_flow" && rng.chance(3, 4) => u,
                _ => rng.pick(&USERS).to_string(),
            },
            Role::WasmAdmin => match d.ct {
                Ct::Pair | Ct::Trio => self.h.pool_factory.clone(),
                Ct::Vault => self.h.vault_factory.clone(),
                Ct::Incentive => self.h.incentive_factory.clone(),
                Ct::LpToken => return None,
                Ct::Router => self.owner_of(&self.h.router),
                _ => WADMIN.to_string(),
            },
            Role::Designated => return None,
            Role::HubOwner => OWNER.to_string(),
        })
    }

    fn pick_idx(&self, ct: Ct, rng: &mut Rng) -> usize {
        match ct {
            Ct::Pair => rng.idx(self.h.pairs.len().max(1)),
            Ct::Trio => rng.idx(self.h.trios.len().max(1)),
            Ct::Vault => rng.idx(self.h.vaults.len().max(1)),
            Ct::LpToken => rng.idx(self.lps.len().max(1)),
            _ => 0,
        }
    }

    fn gen_probe(&self, rng: &mut Rng, v: usize, role: Role, cell: bool) -> Option<Step> {
        let d = &VARIANTS[v];
        // the forwarding variants of the factories address a child: idx selects the child
        let idx = match d.name {
            "pool_factory.update_pair_config" | "pool_factory.migrate_pair" => self.pick_idx(Ct::Pair, rng),
            "pool_factory.update_trio_config" | "pool_factory.migrate_trio" => self.pick_idx(Ct::Trio, rng),
            "vault_factory.update_vault_config" => self.pick_idx(Ct::Vault, rng),
            "vault.callback_after_trade" => 0,
            _ => self.pick_idx(d.ct, rng),
        };
        let user = rng.pick(&USERS).to_string();
        if role == Role::Designated {
            let (eff, top, msgs, adv_ns) = self.designated_flow(rng, v, idx, &user)?;
            return Some(Step::Probe { variant: v, role, idx, eff, top, msgs, inner: None, adv_ns, cell });
        }
        let target = self.ct_addr(d.ct, idx)?;
        let eff = self.eff_for(v, idx, role, rng)?;
        let attacker = if self.is_contract(&eff) { user.clone() } else { eff.clone() };
        let inner = self.payload(rng, v, idx, &attacker)?;
        let (top, msgs) = self.deliver(&eff, &target, &inner, &user, 0)?;
        Some(Step::Probe { variant: v, role, idx, eff, top, msgs, inner: Some(inner.msg), adv_ns: 0, cell })
    }

    fn gen_transfer(&self, rng: &mut Rng, ct: Ct, idx: usize, to: &str) -> Option<Step> {
        let h = &self.h;
        let holder = self.owner_holder(ct, idx)?;
        let hct = match ct {
            Ct::Incentive => Ct::IncFactory,
            Ct::LpToken => Ct::Pair,
            c => c,
        };
        let hidx = match ct {
            Ct::LpToken => h.pairs.iter().position(|p| p.addr == holder)?,
            Ct::Incentive => 0,
            _ => idx,
        };
        let cur = self.owner_of(&holder);
        if cur == to {
            return None;
        }
        let user = rng.pick(&USERS).to_string();
        let to_s = Some(to.to_string());
        let inner = match hct {
            Ct::PoolFactory => Inner { msg: jv(&factory::ExecuteMsg::UpdateConfig { owner: to_s, fee_collector_addr: None, token_code_id: None, pair_code_id: None, trio_code_id: None }), fwd: None, pre: vec![], funds: vec![] },
            // a hand-over may travel in the same message as other (valid) settings: fees, the collector,
            // switches left on, an amplification ramp towards the value already targeted
            Ct::Pair => {
                let combined = rng.chance(1, 2);
                let fee_collector_addr = if combined { Self::opt(rng, h.collector.clone()) } else { None };
                let rf = Self::rand_fees(rng);
                let pool_fees = if combined { Self::opt(rng, pool_fee3(&rf)) } else { None };
                let feature_toggle = if combined { Self::opt(rng, pair::FeatureToggle { withdrawals_enabled: true, deposits_enabled: true, swaps_enabled: true }) } else { None };
                Inner {
                    msg: jv(&pair::ExecuteMsg::UpdateConfig { owner: to_s.clone(), fee_collector_addr: fee_collector_addr.clone(), pool_fees: pool_fees.clone(), feature_toggle: feature_toggle.clone() }),
                    fwd: Some((h.pool_factory.clone(), jv(&factory::ExecuteMsg::UpdatePairConfig { pair_addr: holder.clone(), owner: to_s, fee_collector_addr, pool_fees, feature_toggle }))),
                    pre: vec![],
                    funds: vec![],
                }
            }
            Ct::Trio => {
                let combined = rng.chance(1, 2);
                let fee_collector_addr = if combined { Self::opt(rng, h.collector.clone()) } else { None };
                let rf = Self::rand_fees(rng);
                let pool_fees = if combined { Self::opt(rng, trio_fee3(&rf)) } else { None };
                let feature_toggle = if combined { Self::opt(rng, trio::FeatureToggle { withdrawals_enabled: true, deposits_enabled: true, swaps_enabled: true }) } else { None };
                let amp_factor = if combined && rng.chance(2, 3) {
                    query::<trio::ConfigResponse, _>(&h.app, &holder, &trio::QueryMsg::Config {}).ok().map(|c| trio::RampAmp { future_a: c.future_amp, future_block: height(&h.app) + 10_000 + rng.range(0, 5_000) })
                } else {
                    None
                };
                Inner {
                    msg: jv(&trio::ExecuteMsg::UpdateConfig { owner: to_s.clone(), fee_collector_addr: fee_collector_addr.clone(), pool_fees: pool_fees.clone(), feature_toggle: feature_toggle.clone(), amp_factor: amp_factor.clone() }),
                    fwd: Some((h.pool_factory.clone(), jv(&factory::ExecuteMsg::UpdateTrioConfig { trio_addr: holder.clone(), owner: to_s, fee_collector_addr, pool_fees, feature_toggle, amp_factor }))),
                    pre: vec![],
                    funds: vec![],
                }
            }
            Ct::Vault => {
                let combined = rng.chance(1, 2);
                let rf = Self::rand_fees(rng);
                let params = vault::UpdateConfigParams {
                    flash_loan_enabled: if combined { Self::opt(rng, true) } else { None },
                    deposit_enabled: if combined { Self::opt(rng, true) } else { None },
                    withdraw_enabled: if combined { Self::opt(rng, true) } else { None },
                    new_owner: to_s,
                    new_vault_fees: if combined { Self::opt(rng, vault_fee3(&rf)) } else { None },
                    new_fee_collector_addr: if combined { Self::opt(rng, h.collector.clone()) } else { None },
                };
                Inner {
                    msg: jv(&vault::ExecuteMsg::UpdateConfig(params.clone())),
                    fwd: Some((h.vault_factory.clone(), jv(&vault_factory::ExecuteMsg::UpdateVaultConfig { vault_addr: holder.clone(), params }))),
                    pre: vec![],
                    funds: vec![],
                }
            }
            Ct::Router => {
                // the router's owner is its wasm admin
                let m = CosmosMsg::Wasm(WasmMsg::UpdateAdmin { contract_addr: holder.clone(), admin: to.to_string() });
                let (top, msgs) = if self.is_contract(&cur) { (user, vec![via_proxy(&cur, vec![m], vec![])]) } else { (cur.clone(), vec![m]) };
                return Some(Step::Transfer { ct: hct, idx: hidx, to: to.to_string(), eff: cur.clone(), top, msgs });
            }
            Ct::Helper => Inner { msg: jv(&frontend_helper::ExecuteMsg::UpdateConfig { incentive_factory_addr: None, owner: to_s }), fwd: None, pre: vec![], funds: vec![] },
            Ct::IncFactory => Inner {
                msg: jv(&incentive_factory::ExecuteMsg::UpdateConfig {
                    owner: to_s,
                    fee_collector_addr: None,
                    fee_distributor_addr: None,
                    create_flow_fee: None,
                    max_concurrent_flows: None,
                    incentive_code_id: None,
                    max_flow_start_time_buffer: None,
                    min_unbonding_duration: None,
                    max_unbonding_duration: None,
                }),
                fwd: None,
                pre: vec![],
                funds: vec![],
            },
            Ct::VaultFactory => Inner { msg: jv(&vault_factory::ExecuteMsg::UpdateConfig { owner: to_s, fee_collector_addr: None, vault_id: None, token_id: None }), fwd: None, pre: vec![], funds: vec![] },
            Ct::VaultRouter => Inner { msg: jv(&vault_router::ExecuteMsg::UpdateConfig { owner: to_s, vault_factory_addr: None }), fwd: None, pre: vec![], funds: vec![] },
            Ct::Collector => Inner {
                msg: jv(&fee_collector::ExecuteMsg::UpdateConfig { owner: to_s, pool_router: None, fee_distributor: None, pool_factory: None, vault_factory: None, take_rate: None, take_rate_dao_address: None, is_take_rate_active: None }),
                fwd: None,
                pre: vec![],
                funds: vec![],
            },
            Ct::Distributor => Inner {
                msg: jv(&fee_distributor::ExecuteMsg::UpdateConfig { owner: to_s, bonding_contract_addr: None, fee_collector_addr: None, grace_period: None, distribution_asset: None, epoch_config: None }),
                fwd: None,
                pre: vec![],
                funds: vec![],
            },
            Ct::Lair => Inner { msg: jv(&whale_lair::ExecuteMsg::UpdateConfig { owner: to_s, unbonding_period: None, growth_rate: None, fee_distributor_addr: None }), fwd: None, pre: vec![], funds: vec![] },
            Ct::EpochManager => Inner { msg: jv(&em::ExecuteMsg::UpdateConfig { owner: to_s, epoch_config: None }), fwd: None, pre: vec![], funds: vec![] },
            Ct::LpToken | Ct::Incentive => return None,
        };
        let (top, msgs) = self.deliver(&cur, &holder, &inner, &user, 0)?;
        Some(Step::Transfer { ct: hct, idx: hidx, to: to.to_string(), eff: cur, top, msgs })
    }

    fn gen_traffic(&self, rng: &mut Rng) -> Step {
        let h = &self.h;
        let user = rng.idx(USERS.len());
        let op = match rng.below(12) {
            0..=3 => TOp::Swap { pair: rng.idx(2.min(h.pairs.len()).max(1)), side: rng.idx(2), amount: rng.range128(1_000, 50_000_000) },
            4 => TOp::Provide { pair: rng.idx(2.min(h.pairs.len()).max(1)), amount: rng.range128(10_000, 100_000_000) },
            5 => TOp::RouterSwap { amount: rng.range128(1_000, 10_000_000) },
            6 => TOp::VaultDeposit { vault: rng.idx(h.vaults.len().max(1)), amount: rng.range128(1_000, 100_000_000) },
            7 | 8 => TOp::Bond { denom: rng.idx(2), amount: rng.range128(1_000, 1_000_000_000) },
            9 => TOp::NewEpoch,
            10 => TOp::CreateEpoch,
            _ => TOp::OpenFlow {
                amount: rng.range128(1_000, 1_000_000),
                label: if rng.chance(1, 2) { Some(format!("camp{}", rng.below(2))) } else { None },
                by: if rng.chance(1, 3) { Some(rng.idx(USERS.len())) } else { None },
            },
        };
        let adv_ns = match op {
            TOp::NewEpoch | TOp::CreateEpoch => DAY_NS,
            _ => {
                if rng.chance(1, 2) {
                    0
                } else {
                    6_000_000_000 * rng.range(1, 3)
                }
            }
        };
        Step::Traffic { user, op, adv_ns }
    }

    fn new_owner_candidates(&self) -> Vec<String> {
        vec![NEWOWNER.to_string(), "thirdowner".to_string(), self.h.proxy.clone(), OWNER.to_string()]
    }

    fn after_success(&mut self, v: usize, _idx: usize, inner: Option<&Value>) {
        // keep the instance lists in step with what the real contracts created
        match VARIANTS[v].name {
            "pool_factory.create_pair" => {
                if let Some(ai) = inner.and_then(|m| jget(m, &["create_pair", "asset_infos"])) {
                    if let Ok(infos) = serde_json::from_value::<[AssetInfo; 2]>(ai.clone()) {
                        if let Ok(pi) = self.h.pair_info(&infos[0], &infos[1]) {
                            if !self.h.pairs.iter().any(|p| p.addr == pi.contract_addr) {
                                self.owner.insert(pi.contract_addr.clone(), self.h.pool_factory.clone());
                                self.h.pairs.push(PairH { addr: pi.contract_addr, lp: asset_id(&pi.liquidity_token), assets: infos });
                            }
                        }
                    }
                }
            }
            "pool_factory.create_trio" => {
                if let Some(ai) = inner.and_then(|m| jget(m, &["create_trio", "asset_infos"])) {
                    if let Ok(infos) = serde_json::from_value::<[AssetInfo; 3]>(ai.clone()) {
                        if let Ok(ti) = self.h.trio_info(&infos) {
                            if !self.h.trios.iter().any(|p| p.addr == ti.contract_addr) {
                                self.owner.insert(ti.contract_addr.clone(), self.h.pool_factory.clone());
                                self.h.trios.push(TrioH { addr: ti.contract_addr, lp: asset_id(&ti.liquidity_token), assets: infos });
                            }
                        }
                    }
                }
            }
            "vault_factory.create_vault" => {
                if let Some(ai) = inner.and_then(|m| jget(m, &["create_vault", "asset_info"])) {
                    if let Ok(info) = serde_json::from_value::<AssetInfo>(ai.clone()) {
                        if let Ok(Some(a)) = query::<Option<String>, _>(&self.h.app, &self.h.vault_factory, &vault_factory::QueryMsg::Vault { asset_info: info.clone() }) {
                            if !self.h.vaults.iter().any(|p| p.addr == a) {
                                let lp = qjson(&self.h.app, &a, &vault::QueryMsg::Config {}).ok().and_then(|c| jstr(&c, &["lp_asset", "token", "contract_addr"]).map(|s| s.to_string())).unwrap_or_default();
                                self.owner.insert(a.clone(), self.h.vault_factory.clone());
                                self.h.vaults.push(VaultH { addr: a, lp, asset: info });
                            }
                        }
                    }
                }
            }
            "incentive_factory.create_incentive" => {
                if let Some(ai) = inner.and_then(|m| jget(m, &["create_incentive", "lp_asset"])) {
                    if let Ok(info) = serde_json::from_value::<AssetInfo>(ai.clone()) {
                        if let Ok(Some(a)) = query::<Option<String>, _>(&self.h.app, &self.h.incentive_factory, &incentive_factory::QueryMsg::Incentive { lp_asset: info.clone() }) {
                            if !self.h.incentives.iter().any(|p| p.0 == a) {
                                self.h.incentives.push((a, info));
                            }
                        }
                    }
                }
            }
            _ => {}
        }
    }
}

impl Scenario for AllAuth {
    const NAME: &'static str = "ALL_AUTH";
    type Cfg = Cfg;
    type Step = Step;

    fn gen_cfg(rng: &mut Rng, _prop: &str, tier: Tier, idx: u64) -> Cfg {
        let pre = rng.range(0, 6) as usize;
        let extra = rng.range(2, if tier == Tier::Thorough { 14 } else { 8 }) as usize;
        Cfg { cell: (idx as usize) % cells().len(), pre, extra, new_owner_is_proxy: rng.chance(1, 5), max_steps: pre + 2 * extra + 12 }
    }
    fn max_steps(cfg: &Cfg) -> usize {
        cfg.max_steps
    }

    fn build(cfg: &Cfg, ctx: &mut Ctx) -> Self {
        let h = match Hub::try_build(&HubOpts { n_native: 3, n_cw20: 3, children: true }) {
            Ok(h) => h,
            Err(e) => {
                // Setup consists of calls by the deployer, who is the configured owner (the router's
                // wasm admin for its routes). If one of them is refused *for authorisation* the owner
                // has lost his rights: that is a violation, not a harness problem.
                let text = match e.find(" msg=") {
                    Some(i) => e[..i].to_string(),
                    None => e.clone(),
                };
                let text = text.split(" @ ").next().unwrap_or("").to_string();
                let all: Vec<&str> = VARIANTS.iter().flat_map(|v| v.refusal.iter().copied()).collect();
                if e.contains("harness: setup exec") && refused_with(&text, &all) {
                    ctx.eval("C16");
                    ctx.fail("C16", "authorised_not_refused", "setup", None, format!("a configuration call of the hub deployer (the configured owner) was refused for authorisation during setup: {text}"));
                    let mut s = AllAuth { cfg: cfg.clone(), h: Hub::bare(), owner: BTreeMap::new(), prev: BTreeMap::new(), lps: vec![], g_pre_done: 0, g_cell_done: true, g_extra_done: usize::MAX / 4, g_cell_tries: 0, g_warm_done: false };
                    s.cfg.extra = 0;
                    s.cfg.pre = 0;
                    return s;
                }
                panic!("{e}");
            }
        };
        let mut owner = BTreeMap::new();
        for a in [&h.pool_factory, &h.helper, &h.incentive_factory, &h.vault_factory, &h.vault_router, &h.collector, &h.distributor, &h.lair, &h.epoch_manager] {
            owner.insert(a.clone(), OWNER.to_string());
        }
        owner.insert(h.router.clone(), WADMIN.to_string());
        for p in &h.pairs {
            owner.insert(p.addr.clone(), h.pool_factory.clone());
        }
        for t in &h.trios {
            owner.insert(t.addr.clone(), h.pool_factory.clone());
        }
        for v in &h.vaults {
            owner.insert(v.addr.clone(), h.vault_factory.clone());
        }
        let lps = h.pairs.iter().map(|p| (p.lp.clone(), p.addr.clone())).collect();
        ctx.probe(&format!("matrix_cells_{}_of_{}x2x{}", cells().len(), VARIANTS.len(), ROLES.len()));
        AllAuth { cfg: cfg.clone(), h, owner, prev: BTreeMap::new(), lps, g_pre_done: 0, g_cell_done: false, g_extra_done: 0, g_cell_tries: 0, g_warm_done: false }
    }

    fn gen_step(&mut self, rng: &mut Rng, ctx: &mut Ctx) -> Option<Step> {
        if self.g_pre_done < self.cfg.pre {
            self.g_pre_done += 1;
            return Some(self.gen_traffic(rng));
        }
        if !self.g_cell_done {
            let (v, phase_b, role) = cell_of(self.cfg.cell);
            let d = &VARIANTS[v];
            self.g_cell_tries += 1;
            if self.g_cell_tries > 8 {
                self.g_cell_done = true;
                ctx.probe(&format!("cell_not_arrangeable/{}/{}{}", d.name, if phase_b { "B/" } else { "A/" }, role_tag(role)));
                return Some(self.gen_traffic(rng));
            }
            if phase_b {
                // the governing ownership must have been transferred first
                let idx = 0;
                let holder = self.owner_holder(d.ct, idx).unwrap_or_default();
                // (whatever a contract remembers from calls made under the old owner must not outlive the
                // hand-over: in two runs out of three the owner-to-be-replaced uses the entry point first)
                // (not for one-shot operations, whose object the warm-up would use up: removals, registrations)
                let one_shot = ["remove_", "add_", "create_", "migrate"].iter().any(|k| d.name.contains(k));
                if !self.prev.contains_key(&holder) && !self.g_warm_done && role != Role::Designated && !one_shot {
                    let needs_flow = d.name == "incentive.close_flow" && self.flows_of(0).iter().all(|f| f.2 != CREATOR);
                    if needs_flow {
                        return Some(Step::Traffic { user: 0, op: TOp::OpenFlow { amount: rng.range128(1_000, 1_000_000), label: None, by: None }, adv_ns: 0 });
                    }
                    self.g_warm_done = true;
                    if rng.chance(2, 3) {
                        if let Some(s) = self.gen_probe_cell(rng, v, Role::Owner, false) {
                            ctx.probe("authorised_call_before_the_hand_over_generated");
                            return Some(s);
                        }
                    }
                }
                if !self.prev.contains_key(&holder) {
                    let to = if self.cfg.new_owner_is_proxy { self.h.proxy.clone() } else { NEWOWNER.to_string() };
                    if let Some(s) = self.gen_transfer(rng, d.ct, idx, &to) {
                        return Some(s);
                    }
                    self.g_cell_done = true;
                    ctx.probe(&format!("cell_not_arrangeable/{}/B/{}", d.name, role_tag(role)));
                    return Some(self.gen_traffic(rng));
                }
            }
            // preparation for cells that need a precondition
            if d.name == "incentive.close_flow" && self.flows_of(0).iter().all(|f| f.2 != CREATOR) {
                return Some(Step::Traffic { user: 0, op: TOp::OpenFlow { amount: rng.range128(1_000, 1_000_000), label: if rng.chance(1, 2) { Some("camp0".into()) } else { None }, by: None }, adv_ns: 0 });
            }
            // a stranger may have opened a flow of his own under the label of somebody else's flow
            if d.name == "incentive.close_flow" && role == Role::User && self.colliding_label_owner().is_none() && rng.chance(2, 3) {
                let flows = self.flows_of(0);
                let has_labelled = flows.iter().any(|f| f.2 == CREATOR && f.1.is_some());
                if !has_labelled {
                    return Some(Step::Traffic { user: 0, op: TOp::OpenFlow { amount: rng.range128(1_000, 1_000_000), label: Some("camp0".into()), by: None }, adv_ns: 0 });
                }
                let label = flows.iter().find(|f| f.2 == CREATOR && f.1.is_some()).and_then(|f| f.1.clone());
                return Some(Step::Traffic { user: 0, op: TOp::OpenFlow { amount: rng.range128(1_000, 1_000_000), label, by: Some(rng.idx(USERS.len())) }, adv_ns: 0 });
            }
            self.g_cell_done = true;
            match self.gen_probe_cell(rng, v, role, phase_b) {
                Some(s) => return Some(s),
                None => {
                    ctx.probe(&format!("cell_not_arrangeable/{}/{}{}", d.name, if phase_b { "B/" } else { "A/" }, role_tag(role)));
                    return Some(self.gen_traffic(rng));
                }
            }
        }
        if self.g_extra_done >= 2 * self.cfg.extra {
            return None;
        }
        self.g_extra_done += 1;
        match rng.below(10) {
            0..=2 => Some(self.gen_traffic(rng)),
            3 => {
                // a random further ownership transfer
                let cts = [Ct::PoolFactory, Ct::Pair, Ct::Trio, Ct::Router, Ct::Helper, Ct::IncFactory, Ct::VaultFactory, Ct::Vault, Ct::VaultRouter, Ct::Collector, Ct::Distributor, Ct::Lair, Ct::EpochManager];
                let ct = *rng.pick(&cts);
                let idx = self.pick_idx(ct, rng);
                let to = rng.pick(&self.new_owner_candidates()).clone();
                Some(self.gen_transfer(rng, ct, idx, &to).unwrap_or_else(|| self.gen_traffic(rng)))
            }
            _ => {
                let v = rng.idx(VARIANTS.len());
                let role = *rng.pick(&ROLES);
                Some(self.gen_probe(rng, v, role, false).unwrap_or_else(|| self.gen_traffic(rng)))
            }
        }
    }

    fn apply(&mut self, step: &Step, ctx: &mut Ctx) {
        match step {
            Step::Traffic { user, op, adv_ns } => self.apply_traffic(*user, op, *adv_ns, ctx),
            Step::Transfer { ct, idx, to, eff, top, msgs } => self.apply_transfer(*ct, *idx, to, eff, top, msgs, ctx),
            Step::Probe { variant, role, idx, eff, top, msgs, inner, adv_ns, cell } => self.apply_probe(*variant, *role, *idx, eff, top, msgs, inner.as_ref(), *adv_ns, *cell, ctx),
        }
        self.check_child_admins(ctx);
    }

    fn simplify(step: &Step) -> Vec<Step> {
        match step {
            Step::Traffic { user, op, adv_ns } if *adv_ns > 0 && !matches!(op, TOp::NewEpoch | TOp::CreateEpoch) => vec![Step::Traffic { user: *user, op: op.clone(), adv_ns: 0 }],
            _ => vec![],
        }
    }

    fn sim_clock(&self) -> (u64, u64) {
        (self.h.ns, self.h.blocks)
    }
}

impl AllAuth {
    /// Migration of a child is a chain-level right of the child's wasm admin: "migrations of children
    /// succeed only for ... their factory" therefore needs every pair / trio / vault / incentive to have
    /// its factory CONTRACT (not a person) as admin, before and after ownership transfers.
    fn check_child_admins(&self, ctx: &mut Ctx) {
        let h = &self.h;
        let mut kids: Vec<(&str, &str, &str)> = vec![];
        for p in &h.pairs {
            kids.push(("pair", p.addr.as_str(), h.pool_factory.as_str()));
        }
        for t in &h.trios {
            kids.push(("trio", t.addr.as_str(), h.pool_factory.as_str()));
        }
        for v in &h.vaults {
            kids.push(("vault", v.addr.as_str(), h.vault_factory.as_str()));
        }
        for (i, _) in &h.incentives {
            kids.push(("incentive", i.as_str(), h.incentive_factory.as_str()));
        }
        ctx.eval("C16");
        for (kind, addr, factory) in kids {
            match h.app.wrap().query_wasm_contract_info(addr) {
                Ok(info) => {
                    if info.admin.as_deref() != Some(factory) {
                        ctx.fail("C16", "child_admin_is_its_factory", kind, None, format!("{kind} {addr}: wasm admin {:?}, its factory is {factory}: the right to migrate it is not the factory's", info.admin));
                        return;
                    }
                }
                Err(_) => {}
            }
        }
        ctx.probe("child_admins_checked");
    }

    /// the matrix cell of this run: the target instance is index 0 (the one whose ownership was
    /// transferred in phase B)
    fn gen_probe_cell(&self, rng: &mut Rng, v: usize, role: Role, _phase_b: bool) -> Option<Step> {
        let d = &VARIANTS[v];
        let idx = 0usize;
        let user = rng.pick(&USERS).to_string();
        if role == Role::Designated {
            let (eff, top, msgs, adv_ns) = self.designated_flow(rng, v, idx, &user)?;
            return Some(Step::Probe { variant: v, role, idx, eff, top, msgs, inner: None, adv_ns, cell: true });
        }
        let target = self.ct_addr(d.ct, idx)?;
        // look-alike sibling: a distributor instance the collector is not configured with asks for the fees the way
        // the real one does (its own NewEpoch); being "a fee distributor that names this collector" authorises nothing
        if d.name == "fee_collector.forward_fees" && role == Role::Sibling && !self.h.rogue_distributor.is_empty() && rng.chance(1, 2) {
            let rogue = self.h.rogue_distributor.clone();
            return Some(Step::Probe { variant: v, role, idx, eff: rogue.clone(), top: user.clone(), msgs: vec![wasm_exec(&rogue, &fee_distributor::ExecuteMsg::NewEpoch {}, vec![])], inner: None, adv_ns: DAY_NS, cell: true });
        }
        let eff = self.eff_for(v, idx, role, rng)?;
        let attacker = if self.is_contract(&eff) { user.clone() } else { eff.clone() };
        let inner = self.payload(rng, v, idx, &attacker)?;
        let (top, msgs) = self.deliver(&eff, &target, &inner, &user, 0)?;
        Some(Step::Probe { variant: v, role, idx, eff, top, msgs, inner: Some(inner.msg), adv_ns: 0, cell: true })
    }

    fn apply_traffic(&mut self, user: usize, op: &TOp, adv_ns: u64, ctx: &mut Ctx) {
        self.h.advance(adv_ns, adv_ns / 6_000_000_000);
        let who = USERS[user % USERS.len()];
        let h = &self.h;
        let (name, sender, msgs): (&str, &str, Vec<CosmosMsg>) = match op {
            TOp::Swap { pair, side, amount } => match h.pairs.get(*pair) {
                Some(p) => ("t_swap", who, vec![h.swap_msg(&p.addr, &p.assets[*side % 2], *amount)]),
                None => ("t_swap", who, vec![]),
            },
            TOp::Provide { pair, amount } => match h.pairs.get(*pair) {
                Some(p) => ("t_provide", who, h.provide_msgs(&p.addr, &p.assets, [*amount, *amount])),
                None => ("t_provide", who, vec![]),
            },
            TOp::RouterSwap { amount } => match h.pairs.first() {
                Some(p) => (
                    "t_router_swap",
                    who,
                    h.router_swap_msg(vec![SwapOperation::TerraSwap { offer_asset_info: p.assets[0].clone(), ask_asset_info: p.assets[1].clone() }], *amount, None, None).into_iter().collect(),
                ),
                None => ("t_router_swap", who, vec![]),
            },
            TOp::VaultDeposit { vault, amount } => match h.vaults.get(*vault) {
                Some(v) if v.asset != native(BOND_DENOMS[0]) => ("t_vault_deposit", who, h.vault_deposit_msgs(v, *amount)),
                _ => ("t_vault_deposit", who, vec![]),
            },
            TOp::Bond { denom, amount } => (
                "t_bond",
                who,
                vec![wasm_exec(&h.lair, &whale_lair::ExecuteMsg::Bond { asset: Asset { info: native(BOND_DENOMS[*denom % 2]), amount: Uint128::new(*amount) } }, vec![coin(*amount, BOND_DENOMS[*denom % 2])])],
            ),
            TOp::NewEpoch => ("t_new_epoch", who, vec![wasm_exec(&h.distributor, &fee_distributor::ExecuteMsg::NewEpoch {}, vec![])]),
            TOp::CreateEpoch => ("t_create_epoch", who, vec![wasm_exec(&h.epoch_manager, &em::ExecuteMsg::CreateEpoch {}, vec![])]),
            TOp::OpenFlow { amount, label, by } => ("t_open_flow", by.map(|i| USERS[i % USERS.len()]).unwrap_or(CREATOR), if h.incentives.is_empty() { vec![] } else { vec![h.open_flow_msg_l(*amount, label.clone())] }),
        };
        if msgs.is_empty() {
            ctx.trace("traffic:skip");
            return;
        }
        let sender = sender.to_string();
        let r = tx(&mut self.h.app, &sender, msgs, Fault::None);
        ctx.op(name, r.outcome.kind());
        ctx.trace(&format!("traffic:{name}:{}", r.outcome.kind()));
    }

    fn apply_transfer(&mut self, ct: Ct, idx: usize, to: &str, eff: &str, top: &str, msgs: &[CosmosMsg], ctx: &mut Ctx) {
        let Some(holder) = self.ct_addr(ct, idx) else {
            ctx.trace("transfer:skip");
            return;
        };
        let cur = self.owner_of(&holder);
        let fp0 = fingerprint(&self.h.app);
        let r = tx(&mut self.h.app, top, msgs.to_vec(), Fault::None);
        ctx.op("transfer_ownership", r.outcome.kind());
        ctx.trace(&format!("transfer:{holder}:{to}:{}", r.outcome.kind()));
        ctx.eval("C16");
        if eff != cur {
            // (only in shrunk histories) the sender is not the owner any more: an ordinary refusal
            if r.outcome.is_ok() {
                ctx.fail("C16", "unauthorised_must_fail", "transfer_ownership", None, format!("{eff}, who is not the owner ({cur}) of {holder}, handed it to {to}"));
            } else if fingerprint(&self.h.app) != fp0 {
                ctx.fail("C16", "refused_call_changed_state", "transfer_ownership", None, format!("refused ownership transfer of {holder} changed the state"));
            }
            return;
        }
        if r.outcome.is_ok() {
            self.prev.insert(holder.clone(), cur);
            self.owner.insert(holder, to.to_string());
            ctx.probe("ownership_transferred");
            if to.starts_with("contract") {
                ctx.probe("ownership_transferred_to_contract");
            }
        } else {
            // the configured owner hands the contract over: must not be refused
            ctx.fail(
                "C16",
                "owner_can_transfer",
                &format!("{ct:?}"),
                None,
                format!("ownership transfer of {holder} from its owner {cur} to {to} (signed by {top}) failed: {}", r.outcome.err_text()),
            );
        }
    }

    #[allow(clippy::too_many_arguments)]
    fn apply_probe(&mut self, v: usize, role: Role, idx: usize, eff: &str, top: &str, msgs: &[CosmosMsg], inner: Option<&Value>, adv_ns: u64, cell: bool, ctx: &mut Ctx) {
        if v >= VARIANTS.len() {
            ctx.trace("probe:badvariant");
            return;
        }
        let d = &VARIANTS[v];
        self.h.advance(adv_ns, adv_ns / 6_000_000_000);
        let Some(target) = self.ct_addr(d.ct, idx) else {
            ctx.trace("probe:skip");
            return;
        };
        let holder = self.owner_holder(d.ct, idx).unwrap_or_default();
        let phase_b = self.prev.contains_key(&holder);
        let auth_set = self.authorised(v, idx, inner);
        let mut authorised = auth_set.iter().any(|a| a == eff);
        // a factory's forwarding message only reaches a child that the factory still owns
        let mut child_refuses = false;
        if authorised {
            let child = match d.name {
                "pool_factory.update_pair_config" => inner.and_then(|m| jstr(m, &["update_pair_config", "pair_addr"])),
                "pool_factory.update_trio_config" => inner.and_then(|m| jstr(m, &["update_trio_config", "trio_addr"])),
                "vault_factory.update_vault_config" => inner.and_then(|m| jstr(m, &["update_vault_config", "vault_addr"])),
                _ => None,
            };
            if let Some(c) = child {
                if self.owner_of(c) != target {
                    authorised = false;
                    child_refuses = true;
                }
            }
        }
        // CloseFlow: whichever flow the contract picks, it must be one the sender may close
        let flows_before = if d.name == "incentive.close_flow" { self.flows_of(idx) } else { vec![] };
        let factory_owner = self.owner_of(&self.h.incentive_factory);
        let ambiguous_close = d.name == "incentive.close_flow" && !authorised && {
            let m = self.matched_flows(idx, inner);
            m.iter().any(|c| c == eff) && m.iter().any(|c| c != eff)
        };
        let fp0 = fingerprint(&self.h.app);
        let r = tx(&mut self.h.app, top, msgs.to_vec(), Fault::None);
        let ok = r.outcome.is_ok();
        let err = r.outcome.err_text();
        ctx.op(d.name, r.outcome.kind());
        ctx.eval("C16");
        if d.name == "incentive.close_flow" && ok && eff != factory_owner {
            let after = self.flows_of(idx);
            for f in flows_before.iter().filter(|f| !after.iter().any(|g| g.0 == f.0)) {
                if f.2 != eff {
                    ctx.fail("C16", "unauthorised_must_fail", "incentive.close_flow_foreign_flow", None, format!("CloseFlow sent by {eff} removed flow {} (label {:?}) created by {}; only its creator or the factory owner {factory_owner} may close it", f.0, f.1, f.2));
                    return;
                }
            }
        }
        if ambiguous_close {
            // several flows carry the label, one of them the sender's: which one is meant is not for
            // this property to say; the removed flow was checked above, a refusal must change nothing
            ctx.probe("close_flow_by_shared_label");
            ctx.trace(&format!("probe:{}:ambiguous:{eff}:{}", d.name, r.outcome.kind()));
            if !ok && fingerprint(&self.h.app) != fp0 {
                ctx.fail("C16", "refused_call_changed_state", d.name, None, format!("{} by {eff} failed ({err}) but storage or balances changed", d.name));
            }
            return;
        }
        let refused_for_auth = !ok && refused_with(&err, d.refusal);
        let ph = if phase_b { "B" } else { "A" };
        ctx.trace(&format!("probe:{}:{ph}:{}:{eff}:{}:{}", d.name, role_tag(role), authorised, r.outcome.kind()));
        if cell {
            ctx.probe(&format!("cell/{}/{ph}/{}", d.name, role_tag(role)));
        }
        if authorised {
            if refused_for_auth {
                ctx.fail(
                    "C16",
                    "authorised_not_refused",
                    d.name,
                    None,
                    format!("{} sent by {eff} (role {}, phase {ph}; authorised: {:?}) was refused for authorisation: {err}", d.name, role_tag(role), auth_set),
                );
                return;
            }
            if ok {
                ctx.probe(if phase_b { "authorised_accepted_after_transfer" } else { "authorised_accepted" });
                if role == Role::Designated {
                    ctx.probe("designated_flow_ok");
                }
                self.after_success(v, idx, inner);
                let fp1 = fingerprint(&self.h.app);
                ctx.state(&fp1);
            } else {
                ctx.probe(&format!("authorised_failed_other_reason/{}", d.name));
                if fingerprint(&self.h.app) != fp0 {
                    ctx.fail("C16", "failed_tx_changed_state", d.name, None, format!("{} failed ({err}) but the state changed", d.name));
                }
            }
            return;
        }
        // not authorised: must fail and leave everything unchanged
        if ok {
            let fp1 = fingerprint(&self.h.app);
            let unchanged = fp1 == fp0;
            // D12: the router's AssertMinimumReceive has no sender check; it only reads state
            let known = if d.name == "router.assert_minimum_receive" && unchanged && !child_refuses { Some("D12") } else { None };
            ctx.fail(
                "C16",
                "unauthorised_must_fail",
                d.name,
                known,
                format!(
                    "{} sent by {eff} (role {}, phase {ph}, signer {top}) succeeded although only {:?} may call it; state {}",
                    d.name,
                    role_tag(role),
                    auth_set,
                    if unchanged { "unchanged" } else { "CHANGED" }
                ),
            );
            if known.is_none() || !ctx.known.contains("D12") {
                return;
            }
            ctx.probe("d12_assert_minimum_receive_open");
            return;
        }
        if fingerprint(&self.h.app) != fp0 {
            ctx.fail("C16", "refused_call_changed_state", d.name, None, format!("{} by {eff} failed ({err}) but storage or balances changed", d.name));
            return;
        }
        if refused_for_auth || child_refuses {
            ctx.probe(if phase_b && role == Role::Prev { "previous_owner_refused" } else { "unauthorised_refused_for_auth" });
        } else {
            ctx.probe(&format!("unauthorised_failed_other_reason/{}/{}", d.name, role_tag(role)));
        }
    }
}
