//! ALL_CFG — property C18: stored configuration is always within its documented bounds.
//!
//! Sequences of instantiate / direct update / factory-mediated update / factory create with every
//! bounded parameter on, just inside and just outside its bound (18-decimal granularity), through
//! every path that can write the parameter. After every step the `Config` (and `Pair`) query of
//! every tracked contract instance is compared with the bounds of the property text.

use cosmwasm_std::{CosmosMsg, Timestamp, Uint64, WasmMsg};
use serde::{Deserialize, Serialize};
use serde_json::Value;

use white_whale_std::epoch_manager::epoch_manager as em;
use white_whale_std::pool_network::asset::{AssetInfo, PairType};
use white_whale_std::pool_network::trio::RampAmp;
use white_whale_std::pool_network::{factory, pair, trio};
use white_whale_std::vault_network::{vault, vault_factory};
use white_whale_std::{fee_collector, fee_distributor, whale_lair};

use crate::big::{atomics_to_dec, E18};
use crate::core::{Ctx, Scenario, Tier};
use crate::rng::Rng;
use crate::scen::all_world::*;
use crate::world::*;

pub const MAXDEC: &str = "340282366920938463463.374607431768211455";
const AMP_MAX: u128 = 1_000_000;

#[derive(Serialize, Deserialize, Clone, Debug)]
pub struct Cfg {
    pub max_steps: usize,
}

#[derive(Serialize, Deserialize, Clone, Debug, PartialEq)]
#[serde(rename_all = "snake_case")]
pub enum VAsset {
    /// index into the universe
    U(usize),
    /// the token-factory style denom
    FactoryDenom,
    Bond(usize),
}

#[derive(Serialize, Deserialize, Clone, Debug, PartialEq)]
#[serde(rename_all = "snake_case")]
pub enum Op {
    CreatePair { a: usize, b: usize, fees: [String; 3], amp: Option<u64> },
    /// a user instantiates the pair code directly
    InstPair { fees: [String; 3], amp: Option<u64> },
    UpdPair { pair: usize, via_factory: bool, fees: Option<[String; 3]>, toggle: Option<bool> },
    /// the factory hands the pair to the account OWNER (so that the direct update path exists)
    HandoverPair { pair: usize },
    CreateTrio { assets: [usize; 3], fees: [String; 3], amp: u64 },
    InstTrio { fees: [String; 3], amp: u64 },
    UpdTrio { trio: usize, via_factory: bool, fees: Option<[String; 3]>, ramp: Option<(u64, u64)> },
    HandoverTrio { trio: usize },
    CreateVault { asset: VAsset, fees: [String; 3] },
    InstVault { asset: VAsset, fees: [String; 3] },
    UpdVault { vault: usize, via_factory: bool, fees: Option<[String; 3]>, flash: Option<bool> },
    HandoverVault { vault: usize },
    InstDistributor { grace: u64, duration: u64 },
    UpdDistributor { which: usize, grace: Option<u64>, duration: Option<u64> },
    InstEpochManager { duration: u64 },
    UpdEpochManager { which: usize, duration: Option<u64> },
    InstLair {
        growth: String,
        natives: usize,
        cw20: bool,
        /// how many times the first denom is listed again (the list may name the same asset more than once)
        #[serde(default)]
        repeat_first: usize,
    },
    UpdLair { which: usize, growth: Option<String>, unbonding: Option<u64> },
    UpdCollector { take_rate: Option<String>, active: Option<bool> },
    Blocks { n: u64 },
}

#[derive(Serialize, Deserialize, Clone, Debug, PartialEq)]
pub struct Step {
    pub op: Op,
}

#[derive(Clone, Debug)]
struct PairT {
    addr: String,
    /// None: still owned by the pool factory; Some(account)
    account_owner: Option<String>,
    /// amplification given when the pair was instantiated (stableswap only)
    amp_given: Option<u64>,
}
#[derive(Clone, Debug)]
struct TrioT {
    addr: String,
    account_owner: Option<String>,
}
#[derive(Clone, Debug)]
struct VaultT {
    addr: String,
    account_owner: Option<String>,
    factory_denom: bool,
    /// burn fee written by the last successful UpdateConfig (decimal string)
    last_update_burn: Option<String>,
}
#[derive(Clone, Debug)]
struct DistT {
    addr: String,
    owner: String,
    /// grace period observed after the previous step (must never decrease)
    grace_seen: Option<u128>,
}
#[derive(Clone, Debug)]
struct EmT {
    addr: String,
    owner: String,
    /// duration written by the last successful instantiate / update
    last_written: u64,
}

pub struct AllCfg {
    pub cfg: Cfg,
    pub h: Hub,
    pairs: Vec<PairT>,
    trios: Vec<TrioT>,
    vaults: Vec<VaultT>,
    dists: Vec<DistT>,
    ems: Vec<EmT>,
    /// (address, owner)
    lairs: Vec<(String, String)>,
    /// scripted ops to emit before anything else
    queue: Vec<Op>,
}

fn share_alphabet() -> Vec<String> {
    vec![
        "0".into(),
        "0.000000000000000001".into(),
        "0.003".into(),
        "0.5".into(),
        "0.999999999999999999".into(),
        "1".into(),
        "1.000000000000000001".into(),
        "2".into(),
        MAXDEC.into(),
    ]
}

fn gen_share(rng: &mut Rng) -> String {
    if rng.chance(1, 3) {
        atomics_to_dec(rng.range128(0, E18 / 20))
    } else {
        rng.pick(&share_alphabet()).clone()
    }
}

/// fee triple: valid small / single boundary values / totals of exactly 1-ulp, 1, 1+ulp
fn gen_fees(rng: &mut Rng) -> [String; 3] {
    match rng.below(6) {
        0 | 1 => [atomics_to_dec(rng.range128(0, E18 / 50)), atomics_to_dec(rng.range128(0, E18 / 50)), atomics_to_dec(rng.range128(0, E18 / 100))],
        2 | 3 => {
            let total = match rng.below(4) {
                0 => E18 - 1,
                1 => E18,
                2 => E18 + 1,
                _ => E18 - 2,
            };
            let a = rng.range128(0, (E18 - 1).min(total));
            let b = rng.range128(0, (E18 - 1).min(total - a));
            let mut f = [a, b, total - a - b];
            rng.shuffle(&mut f);
            [atomics_to_dec(f[0]), atomics_to_dec(f[1]), atomics_to_dec(f[2])]
        }
        _ => {
            let mut f = [atomics_to_dec(rng.range128(0, E18 / 50)), atomics_to_dec(rng.range128(0, E18 / 50)), "0".to_string()];
            let k = rng.idx(3);
            f[k] = gen_share(rng);
            if rng.chance(1, 4) {
                let k2 = rng.idx(3);
                f[k2] = gen_share(rng);
            }
            f
        }
    }
}

fn gen_amp(rng: &mut Rng) -> u64 {
    *rng.pick(&[0u64, 1, 2, 85, 100, 999_999, 1_000_000, 1_000_001, 10_000_000, u64::MAX])
}

fn new_contract_addr(o: &Outcome) -> Option<String> {
    // the first instantiate event of the transaction is the contract instantiated by the message itself
    if let Outcome::Ok(r) = o {
        for e in &r.events {
            if e.ty == "instantiate" {
                for a in &e.attributes {
                    if a.key == "_contract_addr" || a.key == "_contract_address" {
                        return Some(a.value.clone());
                    }
                }
            }
        }
    }
    None
}

fn inst_msg<T: Serialize>(code_id: u64, msg: &T, label: &str) -> CosmosMsg {
    CosmosMsg::Wasm(WasmMsg::Instantiate { admin: None, code_id, msg: cosmwasm_std::to_json_binary(msg).unwrap(), funds: vec![], label: label.to_string() })
}

impl AllCfg {
    fn vasset(&self, a: &VAsset) -> AssetInfo {
        match a {
            VAsset::U(i) => self.h.assets[*i % self.h.assets.len()].clone(),
            VAsset::FactoryDenom => native(FACTORY_DENOM),
            VAsset::Bond(i) => native(BOND_DENOMS[*i % 2]),
        }
    }

    fn fees_ok_json(v: &Value, keys: [&str; 3]) -> Result<(), String> {
        let mut sum: u128 = 0;
        for k in keys {
            let s = jstr(v, &[k, "share"]).ok_or_else(|| format!("fee {k} missing in {v}"))?;
            let a = dec_atomics_opt(s).ok_or_else(|| format!("fee {k} unparsable: {s}"))?;
            if a >= E18 {
                return Err(format!("fee share {k} = {s} is not below 100%"));
            }
            sum = sum.saturating_add(a);
        }
        if sum >= E18 {
            return Err(format!("fee shares sum to {} which is not below 100%", atomics_to_dec(sum)));
        }
        Ok(())
    }

    /// All bounds of the property, on every tracked instance.
    fn check_all(&mut self, ctx: &mut Ctx) {
        let app = &self.h.app;
        // pairs: fees; stableswap amplification
        for p in &self.pairs {
            ctx.eval("C18");
            match qjson(app, &p.addr, &pair::QueryMsg::Config {}) {
                Ok(c) => {
                    if let Err(e) = Self::fees_ok_json(c.get("pool_fees").unwrap_or(&Value::Null), ["protocol_fee", "swap_fee", "burn_fee"]) {
                        ctx.fail("C18", "pool_fees_within_bounds", "pair", None, format!("pair {}: {e}", p.addr));
                    }
                }
                Err(e) => ctx.fail("C18", "config_query_answers", "pair", None, format!("pair {} Config query failed: {e}", p.addr)),
            }
            if let Ok(pi) = qjson(app, &p.addr, &pair::QueryMsg::Pair {}) {
                if let Some(amp) = jget(&pi, &["pair_type", "stable_swap", "amp"]).and_then(jnum) {
                    if !(1..=AMP_MAX).contains(&amp) {
                        // N1: the two-asset stableswap pair never validates `amp`; what is stored is what was given
                        let known = if p.amp_given.map(|a| a as u128) == Some(amp) { Some("N3") } else { None };
                        ctx.fail("C18", "stableswap_amp_within_bounds", "pair", known, format!("pair {} is a stableswap pool with amplification {amp}, outside [1, 10^6]", p.addr));
                    }
                }
            }
        }
        for t in &self.trios {
            ctx.eval("C18");
            match qjson(app, &t.addr, &trio::QueryMsg::Config {}) {
                Ok(c) => {
                    if let Err(e) = Self::fees_ok_json(c.get("pool_fees").unwrap_or(&Value::Null), ["protocol_fee", "swap_fee", "burn_fee"]) {
                        ctx.fail("C18", "pool_fees_within_bounds", "trio", None, format!("trio {}: {e}", t.addr));
                    }
                    for k in ["initial_amp", "future_amp"] {
                        match c.get(k).and_then(jnum) {
                            Some(a) if (1..=AMP_MAX).contains(&a) => {}
                            other => ctx.fail("C18", "stableswap_amp_within_bounds", "trio", None, format!("trio {}: {k} = {other:?} outside [1, 10^6]", t.addr)),
                        }
                    }
                }
                Err(e) => ctx.fail("C18", "config_query_answers", "trio", None, format!("trio {} Config query failed: {e}", t.addr)),
            }
        }
        for v in &self.vaults {
            ctx.eval("C18");
            match qjson(app, &v.addr, &vault::QueryMsg::Config {}) {
                Ok(c) => {
                    let fees = c.get("fees").unwrap_or(&Value::Null);
                    if let Err(e) = Self::fees_ok_json(fees, ["protocol_fee", "flash_loan_fee", "burn_fee"]) {
                        ctx.fail("C18", "vault_fees_within_bounds", "vault", None, format!("vault {}: {e}", v.addr));
                    }
                    if v.factory_denom {
                        ctx.probe("factory_denom_vault_checked");
                        let burn = jstr(fees, &["burn_fee", "share"]).unwrap_or("?");
                        if dec_atomics_opt(burn) != Some(0) {
                            // D13: update_config tests `lp_asset` instead of the vault's asset
                            let known = if v.last_update_burn.as_deref().and_then(dec_atomics_opt) == dec_atomics_opt(burn) && dec_atomics_opt(burn).is_some() { Some("D13") } else { None };
                            ctx.fail("C18", "factory_denom_vault_has_no_burn_fee", "vault", known, format!("vault {} over the token-factory denom {FACTORY_DENOM} has burn fee {burn}", v.addr));
                        }
                    }
                }
                Err(e) => ctx.fail("C18", "config_query_answers", "vault", None, format!("vault {} Config query failed: {e}", v.addr)),
            }
        }
        for d in self.dists.iter_mut() {
            ctx.eval("C18");
            match qjson(app, &d.addr, &fee_distributor::QueryMsg::Config {}) {
                Ok(c) => {
                    match c.get("grace_period").and_then(jnum) {
                        Some(g) => {
                            if !(1..=30).contains(&g) {
                                ctx.fail("C18", "grace_period_within_bounds", "distributor", None, format!("distributor {}: grace period {g} outside [1, 30]", d.addr));
                            }
                            if let Some(prev) = d.grace_seen {
                                if g < prev {
                                    ctx.fail("C18", "grace_period_never_decreases", "distributor", None, format!("distributor {}: grace period went from {prev} to {g}", d.addr));
                                }
                            }
                            d.grace_seen = Some(g);
                        }
                        None => ctx.fail("C18", "grace_period_within_bounds", "distributor", None, format!("distributor {}: no grace period in {c}", d.addr)),
                    }
                    match jget(&c, &["epoch_config", "duration"]).and_then(jnum) {
                        Some(x) if x >= DAY_NS as u128 => {}
                        other => ctx.fail("C18", "epoch_duration_at_least_one_day", "distributor", None, format!("distributor {}: epoch duration {other:?} is below one day", d.addr)),
                    }
                }
                Err(e) => ctx.fail("C18", "config_query_answers", "distributor", None, format!("distributor {} Config query failed: {e}", d.addr)),
            }
        }
        for m in &self.ems {
            ctx.eval("C18");
            match qjson(app, &m.addr, &em::QueryMsg::Config {}) {
                Ok(c) => {
                    // The one-day bound of C18 is the fee distributor's (its validate_epoch_config); the
                    // property does not state a bound for the epoch manager, which validates nothing.
                    // Durations below one day stored by the manager are only counted.
                    match jget(&c, &["epoch_config", "duration"]).and_then(jnum) {
                        Some(x) if x >= DAY_NS as u128 => {}
                        _ => ctx.probe("epoch_manager_duration_below_one_day_observed"),
                    }
                    let _ = m.last_written;
                }
                Err(e) => ctx.fail("C18", "config_query_answers", "epoch_manager", None, format!("epoch manager {} Config query failed: {e}", m.addr)),
            }
        }
        for (l, _) in &self.lairs {
            ctx.eval("C18");
            match qjson(app, l, &whale_lair::QueryMsg::Config {}) {
                Ok(c) => {
                    match jstr(&c, &["growth_rate"]).and_then(dec_atomics_opt) {
                        Some(g) if g <= E18 => {}
                        other => ctx.fail("C18", "growth_rate_at_most_one", "lair", None, format!("whale lair {l}: growth rate {other:?} (atomics) above 1")),
                    }
                    match c.get("bonding_assets").and_then(|b| b.as_array()) {
                        Some(arr) => {
                            if arr.len() > 2 || arr.iter().any(|a| a.get("native_token").is_none()) {
                                ctx.fail("C18", "at_most_two_native_bonding_assets", "lair", None, format!("whale lair {l}: bonding assets {arr:?}"));
                            }
                        }
                        None => ctx.fail("C18", "at_most_two_native_bonding_assets", "lair", None, format!("whale lair {l}: no bonding assets in {c}")),
                    }
                }
                Err(e) => ctx.fail("C18", "config_query_answers", "lair", None, format!("whale lair {l} Config query failed: {e}")),
            }
        }
        ctx.eval("C18");
        match qjson(app, &self.h.collector, &fee_collector::QueryMsg::Config {}) {
            Ok(c) => match jstr(&c, &["take_rate"]).and_then(dec_atomics_opt) {
                Some(t) if t < E18 => {}
                other => ctx.fail("C18", "take_rate_below_one", "collector", None, format!("fee collector: take rate {other:?} (atomics) is not below 1")),
            },
            Err(e) => ctx.fail("C18", "config_query_answers", "collector", None, format!("fee collector Config query failed: {e}")),
        }
    }

    /// runs the transaction; a rejected one must leave the full state unchanged
    fn run(&mut self, name: &str, sender: &str, msgs: Vec<CosmosMsg>, ctx: &mut Ctx) -> Outcome {
        let fp0 = fingerprint(&self.h.app);
        let r = tx(&mut self.h.app, sender, msgs, Fault::None);
        ctx.op(name, r.outcome.kind());
        ctx.trace(&format!("{name}:{}", r.outcome.kind()));
        if !r.outcome.is_ok() {
            ctx.eval("C18");
            ctx.probe("update_rejected");
            if fingerprint(&self.h.app) != fp0 {
                ctx.fail("C18", "rejected_update_changes_nothing", name, None, format!("{name} was rejected ({}) but the state changed", r.outcome.err_text()));
            }
        }
        r.outcome
    }
}

impl Scenario for AllCfg {
    const NAME: &'static str = "ALL_CFG";
    type Cfg = Cfg;
    type Step = Step;

    fn gen_cfg(rng: &mut Rng, _prop: &str, tier: Tier, _idx: u64) -> Cfg {
        let cap = if tier == Tier::Thorough { 200 } else { 60 };
        let mut n = 8;
        while n < cap && !rng.chance(1, 25) {
            n += 1;
        }
        Cfg { max_steps: n }
    }
    fn max_steps(cfg: &Cfg) -> usize {
        cfg.max_steps
    }

    fn build(cfg: &Cfg, _ctx: &mut Ctx) -> Self {
        let h = Hub::build(&HubOpts { n_native: 3, n_cw20: 3, children: true });
        let pairs = h.pairs.iter().map(|p| PairT { addr: p.addr.clone(), account_owner: None, amp_given: None }).collect();
        let trios = h.trios.iter().map(|t| TrioT { addr: t.addr.clone(), account_owner: None }).collect();
        let vaults = h.vaults.iter().map(|v| VaultT { addr: v.addr.clone(), account_owner: None, factory_denom: false, last_update_burn: None }).collect();
        let dists = vec![DistT { addr: h.distributor.clone(), owner: OWNER.to_string(), grace_seen: None }];
        let ems = vec![EmT { addr: h.epoch_manager.clone(), owner: OWNER.to_string(), last_written: DAY_NS }];
        let lairs = vec![(h.lair.clone(), OWNER.to_string())];
        AllCfg { cfg: cfg.clone(), h, pairs, trios, vaults, dists, ems, lairs, queue: vec![] }
    }

    fn gen_step(&mut self, rng: &mut Rng, _ctx: &mut Ctx) -> Option<Step> {
        let n_assets = self.h.assets.len();
        let fees_opt = |rng: &mut Rng| if rng.chance(4, 5) { Some(gen_fees(rng)) } else { None };
        if !self.queue.is_empty() {
            let op = self.queue.remove(0);
            return Some(Step { op });
        }
        // ramp marathon on one 3-pool: a ramp towards the upper end of the range, and a NEW ramp started in
        // the second half of the running one (the contract then stores the amplification reached so far
        // as the start of the new ramp)
        if !self.trios.is_empty() && rng.chance(1, 22) {
            let t = rng.idx(self.trios.len());
            let fut = qjson(&self.h.app, &self.trios[t].addr, &trio::QueryMsg::Config {}).ok().and_then(|c| c.get("future_amp").and_then(jnum)).unwrap_or(100) as u64;
            let up = |fa: u64| Op::UpdTrio { trio: t, via_factory: true, fees: None, ramp: Some((fa, 10_000)) };
            let mut q = vec![];
            if fut.saturating_mul(10) <= 1_000_000 {
                q.push(up(fut * 10));
                q.push(Op::Blocks { n: 5_300 });
                q.push(up(fut * 10));
            } else {
                q.push(up((fut / 10).max(1)));
                q.push(Op::Blocks { n: 10_000 });
                q.push(up(fut));
                q.push(Op::Blocks { n: 5_300 });
                q.push(up(fut));
            }
            _ctx.probe("ramp_marathon_scripted");
            self.queue = q;
            let op = self.queue.remove(0);
            return Some(Step { op });
        }
        let op = match rng.below(34) {
            0 | 1 => {
                let a = rng.idx(n_assets);
                let mut b = rng.idx(n_assets);
                if b == a {
                    b = (a + 1) % n_assets;
                }
                Op::CreatePair { a, b, fees: gen_fees(rng), amp: if rng.chance(1, 2) { Some(gen_amp(rng)) } else { None } }
            }
            2 => Op::InstPair { fees: gen_fees(rng), amp: if rng.chance(1, 2) { Some(gen_amp(rng)) } else { None } },
            3..=6 => Op::UpdPair { pair: rng.idx(self.pairs.len().max(1)), via_factory: rng.chance(1, 2), fees: fees_opt(rng), toggle: if rng.chance(1, 4) { Some(rng.chance(1, 2)) } else { None } },
            7 => Op::HandoverPair { pair: rng.idx(self.pairs.len().max(1)) },
            8 => {
                let mut idx: Vec<usize> = (0..n_assets).collect();
                rng.shuffle(&mut idx);
                Op::CreateTrio { assets: [idx[0], idx[1], idx[2]], fees: gen_fees(rng), amp: gen_amp(rng) }
            }
            9 => Op::InstTrio { fees: gen_fees(rng), amp: gen_amp(rng) },
            10..=13 => {
                let ramp = if rng.chance(1, 2) {
                    let t = rng.idx(self.trios.len().max(1));
                    let cur = self.trios.get(t).and_then(|t| qjson(&self.h.app, &t.addr, &trio::QueryMsg::Config {}).ok()).and_then(|c| c.get("future_amp").and_then(jnum)).unwrap_or(100) as u64;
                    let fa = match rng.below(8) {
                        0 => cur.saturating_mul(10),
                        1 => cur.saturating_mul(10).saturating_add(1),
                        2 => cur / 10,
                        3 => (cur / 10).saturating_sub(1),
                        4 => cur / 20,
                        _ => gen_amp(rng),
                    };
                    let ahead = *rng.pick(&[0u64, 9_999, 10_000, 10_001, 100_000]);
                    Some((fa, ahead))
                } else {
                    None
                };
                Op::UpdTrio { trio: rng.idx(self.trios.len().max(1)), via_factory: rng.chance(1, 2), fees: fees_opt(rng), ramp }
            }
            14 => Op::HandoverTrio { trio: rng.idx(self.trios.len().max(1)) },
            15 | 16 => {
                let asset = match rng.below(6) {
                    0 => VAsset::FactoryDenom,
                    1 | 2 => VAsset::Bond(rng.idx(2)),
                    _ => VAsset::U(rng.idx(n_assets)),
                };
                Op::CreateVault { asset, fees: gen_fees(rng) }
            }
            17 => Op::InstVault { asset: if rng.chance(1, 5) { VAsset::FactoryDenom } else { VAsset::U(rng.idx(n_assets)) }, fees: gen_fees(rng) },
            18..=21 => {
                // prefer the vault over the factory denom once it exists
                let fd: Vec<usize> = self.vaults.iter().enumerate().filter(|(_, v)| v.factory_denom).map(|(i, _)| i).collect();
                let vault = if !fd.is_empty() && rng.chance(1, 2) { *rng.pick(&fd) } else { rng.idx(self.vaults.len().max(1)) };
                Op::UpdVault { vault, via_factory: rng.chance(1, 2), fees: fees_opt(rng), flash: if rng.chance(1, 4) { Some(rng.chance(1, 2)) } else { None } }
            }
            22 => Op::HandoverVault { vault: rng.idx(self.vaults.len().max(1)) },
            23 => Op::InstDistributor { grace: *rng.pick(&[0u64, 1, 2, 10, 29, 30, 31, u64::MAX, (1 << 32) + 1, (1 << 32) + 30, (1 << 40) + 7, 256 + 5, 65_536 + 5]), duration: *rng.pick(&[0u64, DAY_NS - 1, DAY_NS, DAY_NS + 1, 7 * DAY_NS, u64::MAX]) },
            24..=26 => {
                let which = rng.idx(self.dists.len().max(1));
                let cur = self.dists.get(which).and_then(|d| d.grace_seen).unwrap_or(2) as u64;
                let grace = if rng.chance(3, 4) { // (also values whose low 8 / 16 / 32 bits alone would be in range)
                    Some(*rng.pick(&[0u64, 1, cur.saturating_sub(1), cur, cur.saturating_add(1), 29, 30, 31, u64::MAX, (1 << 32) + 30, (1 << 32) + cur.max(1), 256 + 30, 65_536 + 30])) } else { None };
                let duration = if rng.chance(1, 2) { Some(*rng.pick(&[0u64, 1, DAY_NS - 1, DAY_NS, DAY_NS + 1, 2 * DAY_NS, u64::MAX])) } else { None };
                Op::UpdDistributor { which, grace, duration }
            }
            27 => Op::InstEpochManager { duration: *rng.pick(&[0u64, 1, DAY_NS - 1, DAY_NS, DAY_NS + 1, u64::MAX]) },
            28 | 29 => Op::UpdEpochManager { which: rng.idx(self.ems.len().max(1)), duration: if rng.chance(4, 5) { Some(*rng.pick(&[0u64, 1, DAY_NS - 1, DAY_NS, DAY_NS + 1, 3 * DAY_NS, u64::MAX])) } else { None } },
            30 => Op::InstLair { growth: gen_share(rng), natives: rng.range(0, 3) as usize, cw20: rng.chance(1, 5), repeat_first: if rng.chance(1, 3) { rng.range(1, 3) as usize } else { 0 } },
            31 => Op::UpdLair { which: rng.idx(self.lairs.len().max(1)), growth: if rng.chance(4, 5) { Some(gen_share(rng)) } else { None }, unbonding: if rng.chance(1, 3) { Some(rng.range(0, 3_000_000_000_000)) } else { None } },
            32 => Op::UpdCollector { take_rate: if rng.chance(5, 6) { Some(gen_share(rng)) } else { None }, active: if rng.chance(1, 3) { Some(rng.chance(1, 2)) } else { None } },
            // (also a little over half of the usual ramp lengths: a new ramp started in the second half of
            // a running one stores the amplification reached so far)
            _ => Op::Blocks { n: *rng.pick(&[1u64, 100, 9_999, 10_000, 20_000, 5_001, 5_300, 50_500]) },
        };
        Some(Step { op })
    }

    fn apply(&mut self, step: &Step, ctx: &mut Ctx) {
        self.apply_op(&step.op, ctx);
        if ctx.stopped() {
            return;
        }
        self.check_all(ctx);
    }

    fn simplify(step: &Step) -> Vec<Step> {
        let simple = s3("0.001", "0.001", "0");
        match &step.op {
            Op::UpdPair { pair, via_factory, fees: Some(f), toggle } if *f != simple => vec![Step { op: Op::UpdPair { pair: *pair, via_factory: *via_factory, fees: Some(simple), toggle: *toggle } }],
            Op::CreatePair { a, b, fees, amp } if *fees != simple => vec![Step { op: Op::CreatePair { a: *a, b: *b, fees: simple, amp: *amp } }],
            Op::CreateVault { asset, fees } if *fees != simple => vec![Step { op: Op::CreateVault { asset: asset.clone(), fees: simple } }],
            _ => vec![],
        }
    }

    fn sim_clock(&self) -> (u64, u64) {
        (self.h.ns, self.h.blocks)
    }
}

impl AllCfg {
    fn pair_type(amp: Option<u64>) -> PairType {
        match amp {
            Some(a) => PairType::StableSwap { amp: a },
            None => PairType::ConstantProduct,
        }
    }

    fn apply_op(&mut self, op: &Op, ctx: &mut Ctx) {
        let h_factory = self.h.pool_factory.clone();
        let v_factory = self.h.vault_factory.clone();
        match op {
            Op::CreatePair { a, b, fees, amp } => {
                let n = self.h.assets.len();
                let infos = [self.h.assets[*a % n].clone(), self.h.assets[*b % n].clone()];
                let m = wasm_exec(&h_factory, &factory::ExecuteMsg::CreatePair { asset_infos: infos.clone(), pool_fees: pool_fee3(fees), pair_type: Self::pair_type(*amp), token_factory_lp: false }, vec![]);
                let o = self.run("create_pair", OWNER, vec![m], ctx);
                if o.is_ok() {
                    if let Ok(pi) = self.h.pair_info(&infos[0], &infos[1]) {
                        self.pairs.push(PairT { addr: pi.contract_addr, account_owner: None, amp_given: *amp });
                        ctx.probe("pair_created_via_factory");
                    }
                }
            }
            Op::InstPair { fees, amp } => {
                let infos = [self.h.assets[0].clone(), self.h.assets[1].clone()];
                let m = inst_msg(
                    self.h.codes.pair,
                    &pair::InstantiateMsg {
                        asset_infos: infos,
                        token_code_id: self.h.codes.token,
                        asset_decimals: [self.h.decimals[0], self.h.decimals[1]],
                        pool_fees: pool_fee3(fees),
                        fee_collector_addr: self.h.collector.clone(),
                        pair_type: Self::pair_type(*amp),
                        token_factory_lp: false,
                    },
                    "direct pair",
                );
                let o = self.run("instantiate_pair", USERS[0], vec![m], ctx);
                if let Some(a) = new_contract_addr(&o) {
                    self.pairs.push(PairT { addr: a, account_owner: Some(USERS[0].to_string()), amp_given: *amp });
                    ctx.probe("pair_instantiated_directly");
                }
            }
            Op::UpdPair { pair: k, via_factory, fees, toggle } => {
                let Some(p) = self.pairs.get(*k).cloned() else { return ctx.trace("skip") };
                let pool_fees = fees.as_ref().map(pool_fee3);
                let feature_toggle = toggle.map(|t| pair::FeatureToggle { withdrawals_enabled: true, deposits_enabled: t, swaps_enabled: true });
                let (sender, m) = match (&p.account_owner, via_factory) {
                    (None, _) => (OWNER.to_string(), wasm_exec(&h_factory, &factory::ExecuteMsg::UpdatePairConfig { pair_addr: p.addr.clone(), owner: None, fee_collector_addr: None, pool_fees, feature_toggle }, vec![])),
                    (Some(acc), _) => (acc.clone(), wasm_exec(&p.addr, &pair::ExecuteMsg::UpdateConfig { owner: None, fee_collector_addr: None, pool_fees, feature_toggle }, vec![])),
                };
                let name = if p.account_owner.is_none() { "update_pair_via_factory" } else { "update_pair_direct" };
                let o = self.run(name, &sender, vec![m], ctx);
                if o.is_ok() && fees.is_some() {
                    ctx.probe("pair_fees_written");
                    ctx.state_of(&format!("pair:{}:{:?}", p.addr, fees));
                }
            }
            Op::HandoverPair { pair: k } => {
                let Some(p) = self.pairs.get(*k).cloned() else { return ctx.trace("skip") };
                if p.account_owner.is_some() {
                    return ctx.trace("skip");
                }
                let m = wasm_exec(&h_factory, &factory::ExecuteMsg::UpdatePairConfig { pair_addr: p.addr.clone(), owner: Some(OWNER.to_string()), fee_collector_addr: None, pool_fees: None, feature_toggle: None }, vec![]);
                if self.run("handover_pair", OWNER, vec![m], ctx).is_ok() {
                    self.pairs[*k].account_owner = Some(OWNER.to_string());
                }
            }
            Op::CreateTrio { assets, fees, amp } => {
                let n = self.h.assets.len();
                let infos = [self.h.assets[assets[0] % n].clone(), self.h.assets[assets[1] % n].clone(), self.h.assets[assets[2] % n].clone()];
                let m = wasm_exec(&h_factory, &factory::ExecuteMsg::CreateTrio { asset_infos: infos.clone(), pool_fees: trio_fee3(fees), amp_factor: *amp, token_factory_lp: false }, vec![]);
                let o = self.run("create_trio", OWNER, vec![m], ctx);
                if o.is_ok() {
                    if let Ok(ti) = self.h.trio_info(&infos) {
                        self.trios.push(TrioT { addr: ti.contract_addr, account_owner: None });
                        ctx.probe("trio_created_via_factory");
                    }
                }
            }
            Op::InstTrio { fees, amp } => {
                let infos = [self.h.assets[0].clone(), self.h.assets[1].clone(), self.h.assets[2].clone()];
                let m = inst_msg(
                    self.h.codes.trio,
                    &trio::InstantiateMsg {
                        asset_infos: infos,
                        token_code_id: self.h.codes.token,
                        asset_decimals: [self.h.decimals[0], self.h.decimals[1], self.h.decimals[2]],
                        pool_fees: trio_fee3(fees),
                        fee_collector_addr: self.h.collector.clone(),
                        amp_factor: *amp,
                        token_factory_lp: false,
                    },
                    "direct trio",
                );
                let o = self.run("instantiate_trio", USERS[0], vec![m], ctx);
                if let Some(a) = new_contract_addr(&o) {
                    self.trios.push(TrioT { addr: a, account_owner: Some(USERS[0].to_string()) });
                    ctx.probe("trio_instantiated_directly");
                }
            }
            Op::UpdTrio { trio: k, via_factory: _, fees, ramp } => {
                let Some(t) = self.trios.get(*k).cloned() else { return ctx.trace("skip") };
                let pool_fees = fees.as_ref().map(trio_fee3);
                let amp_factor = ramp.map(|(fa, ahead)| RampAmp { future_a: fa, future_block: height(&self.h.app).saturating_add(ahead) });
                let (sender, m, name) = match &t.account_owner {
                    None => (
                        OWNER.to_string(),
                        wasm_exec(&h_factory, &factory::ExecuteMsg::UpdateTrioConfig { trio_addr: t.addr.clone(), owner: None, fee_collector_addr: None, pool_fees, feature_toggle: None, amp_factor }, vec![]),
                        "update_trio_via_factory",
                    ),
                    Some(acc) => (acc.clone(), wasm_exec(&t.addr, &trio::ExecuteMsg::UpdateConfig { owner: None, fee_collector_addr: None, pool_fees, feature_toggle: None, amp_factor }, vec![]), "update_trio_direct"),
                };
                let o = self.run(name, &sender, vec![m], ctx);
                if o.is_ok() && ramp.is_some() {
                    ctx.probe("trio_amp_ramp_accepted");
                    ctx.state_of(&format!("trio:{}:{:?}", t.addr, ramp));
                }
            }
            Op::HandoverTrio { trio: k } => {
                let Some(t) = self.trios.get(*k).cloned() else { return ctx.trace("skip") };
                if t.account_owner.is_some() {
                    return ctx.trace("skip");
                }
                let m = wasm_exec(&h_factory, &factory::ExecuteMsg::UpdateTrioConfig { trio_addr: t.addr.clone(), owner: Some(OWNER.to_string()), fee_collector_addr: None, pool_fees: None, feature_toggle: None, amp_factor: None }, vec![]);
                if self.run("handover_trio", OWNER, vec![m], ctx).is_ok() {
                    self.trios[*k].account_owner = Some(OWNER.to_string());
                }
            }
            Op::CreateVault { asset, fees } => {
                let info = self.vasset(asset);
                let m = wasm_exec(&v_factory, &vault_factory::ExecuteMsg::CreateVault { asset_info: info.clone(), fees: vault_fee3(fees), token_factory_lp: false }, vec![]);
                let o = self.run("create_vault", OWNER, vec![m], ctx);
                if o.is_ok() {
                    if let Ok(Some(a)) = query::<Option<String>, _>(&self.h.app, &v_factory, &vault_factory::QueryMsg::Vault { asset_info: info }) {
                        if !self.vaults.iter().any(|v| v.addr == a) {
                            let fd = *asset == VAsset::FactoryDenom;
                            if fd {
                                ctx.probe("factory_denom_vault_created");
                            }
                            self.vaults.push(VaultT { addr: a, account_owner: None, factory_denom: fd, last_update_burn: None });
                            ctx.probe("vault_created_via_factory");
                        }
                    }
                } else if *asset == VAsset::FactoryDenom {
                    ctx.probe("factory_denom_vault_creation_failed");
                }
            }
            Op::InstVault { asset, fees } => {
                let info = self.vasset(asset);
                let m = inst_msg(
                    self.h.codes.vault,
                    &vault::InstantiateMsg { owner: USERS[0].to_string(), asset_info: info, token_id: self.h.codes.token, vault_fees: vault_fee3(fees), fee_collector_addr: self.h.collector.clone(), token_factory_lp: false },
                    "direct vault",
                );
                let o = self.run("instantiate_vault", USERS[0], vec![m], ctx);
                if let Some(a) = new_contract_addr(&o) {
                    let fd = *asset == VAsset::FactoryDenom;
                    if fd {
                        ctx.probe("factory_denom_vault_created");
                    }
                    self.vaults.push(VaultT { addr: a, account_owner: Some(USERS[0].to_string()), factory_denom: fd, last_update_burn: None });
                    ctx.probe("vault_instantiated_directly");
                }
            }
            Op::UpdVault { vault: k, via_factory: _, fees, flash } => {
                let Some(v) = self.vaults.get(*k).cloned() else { return ctx.trace("skip") };
                let params = vault::UpdateConfigParams { flash_loan_enabled: *flash, deposit_enabled: None, withdraw_enabled: None, new_owner: None, new_vault_fees: fees.as_ref().map(vault_fee3), new_fee_collector_addr: None };
                let (sender, m, name) = match &v.account_owner {
                    None => (OWNER.to_string(), wasm_exec(&v_factory, &vault_factory::ExecuteMsg::UpdateVaultConfig { vault_addr: v.addr.clone(), params }, vec![]), "update_vault_via_factory"),
                    Some(acc) => (acc.clone(), wasm_exec(&v.addr, &vault::ExecuteMsg::UpdateConfig(params), vec![]), "update_vault_direct"),
                };
                let o = self.run(name, &sender, vec![m], ctx);
                if o.is_ok() {
                    if let Some(f) = fees {
                        self.vaults[*k].last_update_burn = Some(f[2].clone());
                        ctx.probe("vault_fees_written");
                        ctx.state_of(&format!("vault:{}:{:?}", v.addr, fees));
                    }
                }
            }
            Op::HandoverVault { vault: k } => {
                let Some(v) = self.vaults.get(*k).cloned() else { return ctx.trace("skip") };
                if v.account_owner.is_some() {
                    return ctx.trace("skip");
                }
                let params = vault::UpdateConfigParams { flash_loan_enabled: None, deposit_enabled: None, withdraw_enabled: None, new_owner: Some(OWNER.to_string()), new_vault_fees: None, new_fee_collector_addr: None };
                let m = wasm_exec(&v_factory, &vault_factory::ExecuteMsg::UpdateVaultConfig { vault_addr: v.addr.clone(), params }, vec![]);
                if self.run("handover_vault", OWNER, vec![m], ctx).is_ok() {
                    self.vaults[*k].account_owner = Some(OWNER.to_string());
                }
            }
            Op::InstDistributor { grace, duration } => {
                let m = inst_msg(
                    self.h.codes.distributor,
                    &fee_distributor::InstantiateMsg {
                        bonding_contract_addr: self.h.lair.clone(),
                        fee_collector_addr: self.h.collector.clone(),
                        grace_period: Uint64::new(*grace),
                        epoch_config: em::EpochConfig { duration: Uint64::new(*duration), genesis_epoch: Uint64::new(GENESIS_TIME_NS) },
                        distribution_asset: native(NATIVES[0]),
                    },
                    "direct distributor",
                );
                let o = self.run("instantiate_distributor", USERS[1], vec![m], ctx);
                if let Some(a) = new_contract_addr(&o) {
                    self.dists.push(DistT { addr: a, owner: USERS[1].to_string(), grace_seen: None });
                    ctx.probe("distributor_instantiated");
                }
            }
            Op::UpdDistributor { which, grace, duration } => {
                let Some(d) = self.dists.get(*which).cloned() else { return ctx.trace("skip") };
                let m = wasm_exec(
                    &d.addr,
                    &fee_distributor::ExecuteMsg::UpdateConfig {
                        owner: None,
                        bonding_contract_addr: None,
                        fee_collector_addr: None,
                        grace_period: grace.map(Uint64::new),
                        distribution_asset: None,
                        epoch_config: duration.map(|x| em::EpochConfig { duration: Uint64::new(x), genesis_epoch: Uint64::new(GENESIS_TIME_NS) }),
                    },
                    vec![],
                );
                let o = self.run("update_distributor", &d.owner, vec![m], ctx);
                if o.is_ok() {
                    ctx.probe("distributor_updated");
                    ctx.state_of(&format!("dist:{}:{:?}:{:?}", d.addr, grace, duration));
                }
            }
            Op::InstEpochManager { duration } => {
                let start = now_ns(&self.h.app);
                let m = inst_msg(
                    self.h.codes.epoch_manager,
                    &em::InstantiateMsg {
                        start_epoch: em::EpochV2 { id: 0, start_time: Timestamp::from_nanos(start) },
                        epoch_config: em::EpochConfig { duration: Uint64::new(*duration), genesis_epoch: Uint64::new(start) },
                    },
                    "direct epoch manager",
                );
                let o = self.run("instantiate_epoch_manager", USERS[1], vec![m], ctx);
                if let Some(a) = new_contract_addr(&o) {
                    self.ems.push(EmT { addr: a, owner: USERS[1].to_string(), last_written: *duration });
                    ctx.probe("epoch_manager_instantiated");
                }
            }
            Op::UpdEpochManager { which, duration } => {
                let Some(e) = self.ems.get(*which).cloned() else { return ctx.trace("skip") };
                let m = wasm_exec(&e.addr, &em::ExecuteMsg::UpdateConfig { owner: None, epoch_config: duration.map(|x| em::EpochConfig { duration: Uint64::new(x), genesis_epoch: Uint64::new(GENESIS_TIME_NS) }) }, vec![]);
                let o = self.run("update_epoch_manager", &e.owner, vec![m], ctx);
                if o.is_ok() {
                    if let Some(x) = duration {
                        self.ems[*which].last_written = *x;
                        ctx.state_of(&format!("em:{}:{x}", e.addr));
                    }
                }
            }
            Op::InstLair { growth, natives, cw20, repeat_first } => {
                let mut assets: Vec<AssetInfo> = ["ampwhale", "bwhale", "cwhale"].iter().take(*natives).map(|d| native(d)).collect();
                if let Some(first) = assets.first().cloned() {
                    for k in 0..*repeat_first {
                        // once at the end, once in the middle
                        if k % 2 == 0 { assets.push(first.clone()) } else { assets.insert(1, first.clone()) }
                    }
                }
                if *cw20 {
                    if let Some(i) = self.h.first_cw20() {
                        assets.push(self.h.assets[i].clone());
                    }
                }
                let m = inst_msg(self.h.codes.lair, &whale_lair::InstantiateMsg { unbonding_period: Uint64::new(1_000_000_000_000), growth_rate: dec(growth), bonding_assets: assets }, "direct lair");
                let o = self.run("instantiate_lair", USERS[2], vec![m], ctx);
                if let Some(a) = new_contract_addr(&o) {
                    self.lairs.push((a, USERS[2].to_string()));
                    ctx.probe("lair_instantiated");
                }
            }
            Op::UpdLair { which, growth, unbonding } => {
                let Some((l, owner)) = self.lairs.get(*which).cloned() else { return ctx.trace("skip") };
                let m = wasm_exec(&l, &whale_lair::ExecuteMsg::UpdateConfig { owner: None, unbonding_period: unbonding.map(Uint64::new), growth_rate: growth.as_ref().map(|g| dec(g)), fee_distributor_addr: None }, vec![]);
                let o = self.run("update_lair", &owner, vec![m], ctx);
                if o.is_ok() {
                    ctx.state_of(&format!("lair:{l}:{growth:?}"));
                }
            }
            Op::UpdCollector { take_rate, active } => {
                let m = wasm_exec(
                    &self.h.collector.clone(),
                    &fee_collector::ExecuteMsg::UpdateConfig {
                        owner: None,
                        pool_router: None,
                        fee_distributor: None,
                        pool_factory: None,
                        vault_factory: None,
                        take_rate: take_rate.as_ref().map(|t| dec(t)),
                        take_rate_dao_address: None,
                        is_take_rate_active: *active,
                    },
                    vec![],
                );
                let o = self.run("update_collector", OWNER, vec![m], ctx);
                if o.is_ok() {
                    ctx.state_of(&format!("collector:{take_rate:?}"));
                }
            }
            Op::Blocks { n } => {
                self.h.advance(n.saturating_mul(6_000_000_000), *n);
                ctx.trace("blocks");
            }
        }
    }
}
