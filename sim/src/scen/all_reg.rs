//! ALL_REG — property C19: factories and router registries.
//!
//! Model registry keyed by asset *set*; create / remove / re-create of pairs, trios, vaults and
//! incentives over a universe of native + cw20 assets in every order of the assets; the listings
//! are walked with every page size 1..31 and from every cursor; swap routes are added / removed
//! with registered and unregistered hops and executed also after a pair was removed.

use std::collections::{BTreeMap, BTreeSet};

use cosmwasm_std::CosmosMsg;
use serde::{Deserialize, Serialize};

use white_whale_std::pool_network::asset::{AssetInfo, PairInfo, PairType, TrioInfo};
use white_whale_std::pool_network::router::{SwapOperation, SwapRoute, SwapRouteResponse};
use white_whale_std::pool_network::{factory, incentive, incentive_factory, pair, router, trio};
use white_whale_std::vault_network::{vault, vault_factory};

use crate::core::{Ctx, Scenario, Tier};
use crate::rng::Rng;
use crate::scen::all_world::*;
use crate::world::*;

#[derive(Serialize, Deserialize, Clone, Debug)]
pub struct Cfg {
    pub n_native: usize,
    pub n_cw20: usize,
    pub max_steps: usize,
    /// number of leading steps that are creations (fills the registries)
    pub prefill: usize,
    pub faults: bool,
}

#[derive(Serialize, Deserialize, Clone, Copy, Debug, PartialEq)]
#[serde(rename_all = "snake_case")]
pub enum Reg {
    Pairs,
    Trios,
    Vaults,
    Incentives,
}

#[derive(Serialize, Deserialize, Clone, Debug, PartialEq)]
#[serde(rename_all = "snake_case")]
pub enum Op {
    CreatePair { assets: [usize; 2], stable: Option<u64>, fault: Fault },
    RemovePair { assets: [usize; 2] },
    CreateTrio { assets: [usize; 3], fault: Fault },
    RemoveTrio { assets: [usize; 3] },
    CreateVault { asset: usize, fault: Fault },
    RemoveVault { asset: usize },
    /// incentive over an arbitrary LP asset (any asset info can serve as "LP asset")
    CreateIncentive { lp: AssetInfo, fault: Fault },
    Lookups,
    Walk { reg: Reg },
    AddRoute { offer: usize, ask: usize, hops: Vec<[usize; 2]> },
    RemoveRoute { offer: usize, ask: usize },
    RouterSwap { user: usize, hops: Vec<[usize; 2]>, amount: u128 },
    /// the owner registers a native denom's decimals again, with another value, while pairs and trios over
    /// that denom exist (their entries keep what they were created with)
    SetNativeDecimals { asset: usize, decimals: u8 },
}

#[derive(Serialize, Deserialize, Clone, Debug, PartialEq)]
pub struct Step {
    pub op: Op,
}

#[derive(Clone, Debug)]
struct PairE {
    /// decimals of the two assets as registered at the factory when the pair was created
    dec: [u8; 2],
    addr: String,
    order: [usize; 2],
    stable: Option<u64>,
    lp: String,
}
#[derive(Clone, Debug)]
struct TrioE {
    dec: [u8; 3],
    addr: String,
    order: [usize; 3],
    lp: String,
}

pub struct AllReg {
    pub cfg: Cfg,
    pub h: Hub,
    pairs: BTreeMap<Vec<usize>, PairE>,
    trios: BTreeMap<Vec<usize>, TrioE>,
    vaults: BTreeMap<usize, String>,
    /// key: canonical string of the LP asset
    incentives: BTreeMap<String, (String, AssetInfo)>,
    /// pair contracts that were removed from the factory: (address, assets)
    orphans: Vec<(String, [usize; 2])>,
    /// stored routes by (offer label, ask label)
    routes: BTreeMap<(String, String), Vec<[usize; 2]>>,
    /// every child address ever registered (a new entry must be a new contract)
    seen_addrs: BTreeSet<String>,
}

fn sorted<const N: usize>(a: &[usize; N]) -> Vec<usize> {
    let mut v = a.to_vec();
    v.sort();
    v
}
fn akey(a: &AssetInfo) -> String {
    match a {
        AssetInfo::NativeToken { denom } => format!("n:{denom}"),
        AssetInfo::Token { contract_addr } => format!("t:{contract_addr}"),
    }
}
fn perms3(a: [usize; 3]) -> [[usize; 3]; 6] {
    [[a[0], a[1], a[2]], [a[0], a[2], a[1]], [a[1], a[0], a[2]], [a[1], a[2], a[0]], [a[2], a[0], a[1]], [a[2], a[1], a[0]]]
}

impl AllReg {
    fn ai(&self, i: usize) -> AssetInfo {
        self.h.assets[i % self.h.assets.len()].clone()
    }
    fn label(&self, i: usize) -> String {
        let i = i % self.h.assets.len();
        if i < self.h.n_native {
            NATIVES[i].to_string()
        } else {
            CW20_SYMBOLS[i - self.h.n_native].to_string()
        }
    }
    fn infos2(&self, a: &[usize; 2]) -> [AssetInfo; 2] {
        [self.ai(a[0]), self.ai(a[1])]
    }
    fn infos3(&self, a: &[usize; 3]) -> [AssetInfo; 3] {
        [self.ai(a[0]), self.ai(a[1]), self.ai(a[2])]
    }
    fn ops_of(&self, hops: &[[usize; 2]]) -> Vec<SwapOperation> {
        hops.iter().map(|h| SwapOperation::TerraSwap { offer_asset_info: self.ai(h[0]), ask_asset_info: self.ai(h[1]) }).collect()
    }
    fn hop_registered(&self, h: &[usize; 2]) -> bool {
        h[0] != h[1] && self.pairs.contains_key(&sorted(h))
    }

    // ---- registry == child, lookups in every permutation ------------------------------------

    fn check_pair_entry(&self, set: &[usize], e: &PairE, ctx: &mut Ctx) {
        ctx.eval("C19");
        let orders = [[set[0], set[1]], [set[1], set[0]]];
        let mut infos: Vec<PairInfo> = vec![];
        for o in orders {
            match query::<PairInfo, _>(&self.h.app, &self.h.pool_factory, &factory::QueryMsg::Pair { asset_infos: self.infos2(&o) }) {
                Ok(pi) => infos.push(pi),
                Err(err) => {
                    ctx.fail("C19", "lookup_any_order", "pair", None, format!("registered pair {:?} not found when asked as {:?}: {err}", set, o));
                    return;
                }
            }
        }
        if infos[0] != infos[1] {
            ctx.fail("C19", "lookup_any_order", "pair", None, format!("pair {:?}: lookup depends on the asset order: {:?} vs {:?}", set, infos[0], infos[1]));
            return;
        }
        let pi = &infos[0];
        let want_infos = self.infos2(&e.order);
        let want_dec = e.dec;
        let want_type = match e.stable {
            Some(a) => PairType::StableSwap { amp: a },
            None => PairType::ConstantProduct,
        };
        if pi.contract_addr != e.addr || pi.asset_infos != want_infos || pi.asset_decimals != want_dec || pi.pair_type != want_type || asset_id(&pi.liquidity_token) != e.lp {
            ctx.fail("C19", "entry_matches_model", "pair", None, format!("pair {:?}: factory entry {:?} differs from what was created ({:?}, decimals {:?}, {:?}, addr {}, lp {})", set, pi, want_infos, want_dec, want_type, e.addr, e.lp));
            return;
        }
        match query::<PairInfo, _>(&self.h.app, &e.addr, &pair::QueryMsg::Pair {}) {
            Ok(child) => {
                if &child != pi {
                    ctx.fail("C19", "entry_equals_child", "pair", None, format!("pair {:?}: factory says {:?}, the pair itself says {:?}", set, pi, child));
                }
            }
            Err(err) => ctx.fail("C19", "entry_equals_child", "pair", None, format!("pair {} does not answer Pair: {err}", e.addr)),
        }
    }

    fn check_trio_entry(&self, set: &[usize], e: &TrioE, ctx: &mut Ctx) {
        ctx.eval("C19");
        let mut first: Option<TrioInfo> = None;
        for o in perms3([set[0], set[1], set[2]]) {
            match query::<TrioInfo, _>(&self.h.app, &self.h.pool_factory, &factory::QueryMsg::Trio { asset_infos: self.infos3(&o) }) {
                Ok(ti) => match &first {
                    None => first = Some(ti),
                    Some(f) => {
                        if f != &ti {
                            ctx.fail("C19", "lookup_any_order", "trio", None, format!("trio {:?}: lookup depends on the asset order: {:?} vs {:?}", set, f, ti));
                            return;
                        }
                    }
                },
                Err(err) => {
                    ctx.fail("C19", "lookup_any_order", "trio", None, format!("registered trio {:?} not found when asked as {:?}: {err}", set, o));
                    return;
                }
            }
        }
        let ti = first.unwrap();
        let want_infos = self.infos3(&e.order);
        let want_dec = e.dec;
        if ti.contract_addr != e.addr || ti.asset_infos != want_infos || ti.asset_decimals != want_dec || asset_id(&ti.liquidity_token) != e.lp {
            ctx.fail("C19", "entry_matches_model", "trio", None, format!("trio {:?}: factory entry {:?} differs from what was created ({:?}, decimals {:?}, addr {})", set, ti, want_infos, want_dec, e.addr));
            return;
        }
        match query::<TrioInfo, _>(&self.h.app, &e.addr, &trio::QueryMsg::Trio {}) {
            Ok(child) => {
                if child != ti {
                    ctx.fail("C19", "entry_equals_child", "trio", None, format!("trio {:?}: factory says {:?}, the trio itself says {:?}", set, ti, child));
                }
            }
            Err(err) => ctx.fail("C19", "entry_equals_child", "trio", None, format!("trio {} does not answer Trio: {err}", e.addr)),
        }
    }

    fn check_vault_entry(&self, asset: usize, addr: &str, ctx: &mut Ctx) {
        ctx.eval("C19");
        match query::<Option<String>, _>(&self.h.app, &self.h.vault_factory, &vault_factory::QueryMsg::Vault { asset_info: self.ai(asset) }) {
            Ok(Some(a)) if a == addr => {}
            other => {
                ctx.fail("C19", "entry_matches_model", "vault", None, format!("vault for asset {asset}: factory answers {other:?}, created {addr}"));
                return;
            }
        }
        match query::<vault::Config, _>(&self.h.app, addr, &vault::QueryMsg::Config {}) {
            Ok(c) => {
                if c.asset_info != self.ai(asset) || c.owner.as_str() != self.h.vault_factory {
                    ctx.fail("C19", "entry_equals_child", "vault", None, format!("vault {addr} registered for {:?} reports asset {:?}, owner {}", self.ai(asset), c.asset_info, c.owner));
                }
            }
            Err(err) => ctx.fail("C19", "entry_equals_child", "vault", None, format!("vault {addr} does not answer Config: {err}")),
        }
    }

    fn check_incentive_entry(&self, lp: &AssetInfo, addr: &str, ctx: &mut Ctx) {
        ctx.eval("C19");
        match query::<Option<String>, _>(&self.h.app, &self.h.incentive_factory, &incentive_factory::QueryMsg::Incentive { lp_asset: lp.clone() }) {
            Ok(Some(a)) if a == addr => {}
            other => {
                ctx.fail("C19", "entry_matches_model", "incentive", None, format!("incentive for {lp:?}: factory answers {other:?}, created {addr}"));
                return;
            }
        }
        match qjson(&self.h.app, addr, &incentive::QueryMsg::Config {}) {
            Ok(c) => {
                let child_lp = c.get("lp_asset").and_then(|v| serde_json::from_value::<AssetInfo>(v.clone()).ok());
                let fac = jstr(&c, &["factory_address"]).unwrap_or("");
                if child_lp.as_ref() != Some(lp) || fac != self.h.incentive_factory {
                    ctx.fail("C19", "entry_equals_child", "incentive", None, format!("incentive {addr} registered for {lp:?} reports {c}"));
                }
            }
            Err(err) => ctx.fail("C19", "entry_equals_child", "incentive", None, format!("incentive {addr} does not answer Config: {err}")),
        }
    }

    fn check_absent_pair(&self, set: &[usize], ctx: &mut Ctx) {
        ctx.eval("C19");
        for o in [[set[0], set[1]], [set[1], set[0]]] {
            if let Ok(pi) = query::<PairInfo, _>(&self.h.app, &self.h.pool_factory, &factory::QueryMsg::Pair { asset_infos: self.infos2(&o) }) {
                ctx.fail("C19", "absent_not_listed", "pair", None, format!("no pair is registered for {:?} but the factory answers {:?} for order {:?}", set, pi, o));
                return;
            }
        }
    }
    fn check_absent_trio(&self, set: &[usize], ctx: &mut Ctx) {
        ctx.eval("C19");
        for o in perms3([set[0], set[1], set[2]]) {
            if let Ok(ti) = query::<TrioInfo, _>(&self.h.app, &self.h.pool_factory, &factory::QueryMsg::Trio { asset_infos: self.infos3(&o) }) {
                ctx.fail("C19", "absent_not_listed", "trio", None, format!("no trio is registered for {:?} but the factory answers {:?} for order {:?}", set, ti, o));
                return;
            }
        }
    }

    fn lookups(&self, ctx: &mut Ctx) {
        let n = self.h.assets.len();
        for (set, e) in &self.pairs {
            self.check_pair_entry(set, e, ctx);
            if ctx.stopped() {
                return;
            }
        }
        for a in 0..n {
            for b in (a + 1)..n {
                if !self.pairs.contains_key(&vec![a, b]) {
                    self.check_absent_pair(&[a, b], ctx);
                }
            }
        }
        for (set, e) in &self.trios {
            self.check_trio_entry(set, e, ctx);
            if ctx.stopped() {
                return;
            }
        }
        for a in 0..n {
            for b in (a + 1)..n {
                for c in (b + 1)..n {
                    if !self.trios.contains_key(&vec![a, b, c]) {
                        self.check_absent_trio(&[a, b, c], ctx);
                    }
                }
            }
        }
        for a in 0..n {
            match self.vaults.get(&a) {
                Some(addr) => self.check_vault_entry(a, addr, ctx),
                None => {
                    ctx.eval("C19");
                    if let Ok(Some(x)) = query::<Option<String>, _>(&self.h.app, &self.h.vault_factory, &vault_factory::QueryMsg::Vault { asset_info: self.ai(a) }) {
                        ctx.fail("C19", "absent_not_listed", "vault", None, format!("no vault is registered for asset {a} but the factory answers {x}"));
                    }
                }
            }
        }
        for (_, (addr, lp)) in &self.incentives {
            self.check_incentive_entry(lp, addr, ctx);
        }
        // the router only stores routes that the model saw being stored with registered hops
        ctx.eval("C19");
        match query::<Vec<SwapRouteResponse>, _>(&self.h.app, &self.h.router, &router::QueryMsg::SwapRoutes {}) {
            Ok(rs) => {
                if rs.len() != self.routes.len() {
                    ctx.fail("C19", "routes_match_model", "router", None, format!("router lists {} routes, the model stored {}", rs.len(), self.routes.len()));
                    return;
                }
                for r in rs {
                    match self.routes.get(&(r.offer_asset.clone(), r.ask_asset.clone())) {
                        Some(hops) if self.ops_of(hops) == r.swap_route => {}
                        other => {
                            ctx.fail("C19", "routes_match_model", "router", None, format!("router stores route {} -> {} = {:?}; the model has {:?}", r.offer_asset, r.ask_asset, r.swap_route, other));
                            return;
                        }
                    }
                }
            }
            Err(e) => ctx.fail("C19", "routes_match_model", "router", None, format!("SwapRoutes query failed: {e}")),
        }
    }

    // ---- pagination ---------------------------------------------------------------------------

    /// Generic walk: `page(cursor, limit)` returns the ids of one page; ids double as cursors.
    fn walk_all(&self, reg: Reg, ctx: &mut Ctx) {
        let model: BTreeSet<String> = match reg {
            Reg::Pairs => self.pairs.values().map(|e| e.addr.clone()).collect(),
            Reg::Trios => self.trios.values().map(|e| e.addr.clone()).collect(),
            Reg::Vaults => self.vaults.values().cloned().collect(),
            Reg::Incentives => self.incentives.values().map(|e| e.0.clone()).collect(),
        };
        let mut order1: Vec<String> = vec![];
        let limits: Vec<Option<u32>> = (1..=31u32).map(Some).chain([None, Some(1000)]).collect();
        for lim in limits {
            ctx.eval("C19");
            let eff = lim.unwrap_or(10).min(30) as usize;
            let mut got: Vec<String> = vec![];
            let mut cursor: Option<String> = None;
            let mut pages = 0;
            loop {
                pages += 1;
                if pages > 200 {
                    ctx.fail("C19", "pagination_exactly_once", &format!("{reg:?}"), None, format!("{reg:?} walk with limit {lim:?} does not terminate"));
                    return;
                }
                let page = match self.page(reg, cursor.as_deref(), lim) {
                    Ok(p) => p,
                    Err(e) => {
                        ctx.fail("C19", "pagination_exactly_once", &format!("{reg:?}"), None, format!("{reg:?} listing (cursor {cursor:?}, limit {lim:?}) failed: {e}"));
                        return;
                    }
                };
                if page.len() > eff {
                    ctx.fail("C19", "pagination_exactly_once", &format!("{reg:?}"), None, format!("{reg:?} page of {} entries for limit {lim:?}", page.len()));
                    return;
                }
                let short = page.len() < eff;
                if let Some(last) = page.last() {
                    cursor = Some(last.clone());
                }
                got.extend(page);
                if short {
                    break;
                }
            }
            let set: BTreeSet<String> = got.iter().cloned().collect();
            if set.len() != got.len() || set != model {
                ctx.fail(
                    "C19",
                    "pagination_exactly_once",
                    &format!("{reg:?}"),
                    None,
                    format!("{reg:?} walked with limit {lim:?} returned {} entries ({} distinct): {:?}; the registry holds {} : {:?}", got.len(), set.len(), got, model.len(), model),
                );
                return;
            }
            if lim == Some(1) {
                order1 = got;
            }
            ctx.probe("pagination_walk_completed");
            if model.len() > 30 {
                ctx.probe("pagination_walk_over_30_entries");
            }
        }
        // every cursor: the page after entry k is the continuation of the walk
        for (k, c) in order1.iter().enumerate() {
            ctx.eval("C19");
            match self.page(reg, Some(c), None) {
                Ok(p) => {
                    let want: Vec<String> = order1.iter().skip(k + 1).take(10).cloned().collect();
                    if p != want {
                        ctx.fail("C19", "pagination_every_cursor", &format!("{reg:?}"), None, format!("{reg:?} listing after cursor {c} returned {:?}, the walk continues with {:?}", p, want));
                        return;
                    }
                }
                Err(e) => {
                    ctx.fail("C19", "pagination_every_cursor", &format!("{reg:?}"), None, format!("{reg:?} listing after cursor {c} failed: {e}"));
                    return;
                }
            }
        }
    }

    /// one page; entries and cursors are identified by the child's address
    fn page(&self, reg: Reg, cursor: Option<&str>, limit: Option<u32>) -> Result<Vec<String>, String> {
        match reg {
            Reg::Pairs => {
                let start_after = match cursor {
                    None => None,
                    Some(addr) => {
                        let e = self.pairs.values().find(|e| e.addr == addr).ok_or_else(|| format!("listing returned an unknown pair {addr}"))?;
                        // the cursor is given in the listing's own order or swapped: both must work
                        let o = if addr.len() % 2 == 0 { e.order } else { [e.order[1], e.order[0]] };
                        Some(self.infos2(&o))
                    }
                };
                let r: factory::PairsResponse = query(&self.h.app, &self.h.pool_factory, &factory::QueryMsg::Pairs { start_after, limit })?;
                Ok(r.pairs.into_iter().map(|p| p.contract_addr).collect())
            }
            Reg::Trios => {
                let start_after = match cursor {
                    None => None,
                    Some(addr) => {
                        let e = self.trios.values().find(|e| e.addr == addr).ok_or_else(|| format!("listing returned an unknown trio {addr}"))?;
                        let o = perms3(e.order)[addr.len() % 6];
                        Some(self.infos3(&o))
                    }
                };
                let r: factory::TriosResponse = query(&self.h.app, &self.h.pool_factory, &factory::QueryMsg::Trios { start_after, limit })?;
                Ok(r.trios.into_iter().map(|p| p.contract_addr).collect())
            }
            Reg::Vaults => {
                let start_after = match cursor {
                    None => None,
                    Some(addr) => {
                        let (a, _) = self.vaults.iter().find(|(_, v)| v.as_str() == addr).ok_or_else(|| format!("listing returned an unknown vault {addr}"))?;
                        Some(asset_id(&self.ai(*a)).into_bytes())
                    }
                };
                let r: vault_factory::VaultsResponse = query(&self.h.app, &self.h.vault_factory, &vault_factory::QueryMsg::Vaults { start_after, limit })?;
                let mut out = vec![];
                for v in r.vaults {
                    // the listed asset must be the registered one
                    match self.vaults.iter().find(|(_, x)| **x == v.vault) {
                        Some((a, _)) if self.ai(*a) == v.asset_info && v.asset_info_reference == asset_id(&v.asset_info).into_bytes() => {}
                        _ => return Err(format!("listed vault entry {:?} does not match the registry", v)),
                    }
                    out.push(v.vault);
                }
                Ok(out)
            }
            Reg::Incentives => {
                let start_after = match cursor {
                    None => None,
                    Some(addr) => {
                        let (_, (_, lp)) = self.incentives.iter().find(|(_, v)| v.0 == addr).ok_or_else(|| format!("listing returned an unknown incentive {addr}"))?;
                        Some(lp.clone())
                    }
                };
                let r: incentive_factory::IncentivesResponse = query(&self.h.app, &self.h.incentive_factory, &incentive_factory::QueryMsg::Incentives { start_after, limit })?;
                Ok(r.into_iter().map(|p| p.incentive_address.to_string()).collect())
            }
        }
    }

    fn quick_listing(&self, reg: Reg, ctx: &mut Ctx) {
        // one page of 30 after each change (cheap); the full walks are their own op
        let model: BTreeSet<String> = match reg {
            Reg::Pairs => self.pairs.values().map(|e| e.addr.clone()).collect(),
            Reg::Trios => self.trios.values().map(|e| e.addr.clone()).collect(),
            Reg::Vaults => self.vaults.values().cloned().collect(),
            Reg::Incentives => self.incentives.values().map(|e| e.0.clone()).collect(),
        };
        if model.len() > 30 {
            return;
        }
        ctx.eval("C19");
        match self.page(reg, None, Some(30)) {
            Ok(p) => {
                let set: BTreeSet<String> = p.iter().cloned().collect();
                if set.len() != p.len() || set != model {
                    ctx.fail("C19", "listing_matches_model", &format!("{reg:?}"), None, format!("{reg:?} listing {:?} differs from the registry {:?}", p, model));
                }
            }
            Err(e) => ctx.fail("C19", "listing_matches_model", &format!("{reg:?}"), None, format!("{reg:?} listing failed: {e}")),
        }
    }

    fn fresh_addr(&mut self, kind: &str, addr: &str, ctx: &mut Ctx) {
        if !self.seen_addrs.insert(addr.to_string()) {
            ctx.fail("C19", "new_entry_is_new_contract", kind, None, format!("{kind}: the new registry entry points to {addr}, which already was a registered child"));
        }
    }

    fn run_create(&mut self, name: &str, kind: &str, msg: CosmosMsg, fault: Fault, absent: bool, ctx: &mut Ctx) -> bool {
        let fp0 = fingerprint(&self.h.app);
        let r = tx(&mut self.h.app, OWNER, vec![msg], fault);
        ctx.op(name, r.outcome.kind());
        ctx.trace(&format!("{name}:{}:{}", r.outcome.kind(), r.fault_fired));
        ctx.eval("C19");
        if r.fault_fired {
            ctx.fault("F1_subcall");
        }
        let ok = r.outcome.is_ok();
        if !ok && fingerprint(&self.h.app) != fp0 {
            ctx.fail("C19", "failed_create_changes_nothing", kind, None, format!("{name} failed ({}) but the state changed", r.outcome.err_text()));
            return false;
        }
        if r.fault_fired {
            if ok {
                ctx.fail("C19", "fault_must_abort", kind, None, format!("{name}: an injected sub-call failure did not abort the creation"));
            }
            return ok;
        }
        if ok && !absent {
            ctx.fail("C19", "one_child_per_asset_set", kind, None, format!("{name} succeeded although a {kind} for this asset set is already registered"));
            return false;
        }
        if !ok && absent {
            ctx.fail("C19", "create_succeeds_when_absent", kind, None, format!("{name} was refused although no {kind} is registered for this asset set: {}", r.outcome.err_text()));
            return false;
        }
        if !ok {
            ctx.probe(&format!("duplicate_{kind}_refused"));
        }
        ok
    }
}

impl Scenario for AllReg {
    const NAME: &'static str = "ALL_REG";
    type Cfg = Cfg;
    type Step = Step;

    fn gen_cfg(rng: &mut Rng, _prop: &str, tier: Tier, _idx: u64) -> Cfg {
        let big = if tier == Tier::Thorough { rng.chance(1, 6) } else { rng.chance(1, 40) };
        let cap = if tier == Tier::Thorough { 200 } else { 60 };
        let mut n = 10;
        while n < cap && !rng.chance(1, 25) {
            n += 1;
        }
        let prefill = if big { rng.range(100, 130) as usize } else { rng.range(0, 12) as usize };
        Cfg { n_native: if big || rng.chance(1, 4) { 4 } else { 3 }, n_cw20: if big || rng.chance(1, 4) { 4 } else { 3 }, max_steps: if big { (n + prefill).min(200) } else { n }, prefill, faults: rng.chance(1, 3) }
    }
    fn max_steps(cfg: &Cfg) -> usize {
        cfg.max_steps
    }

    fn build(cfg: &Cfg, _ctx: &mut Ctx) -> Self {
        let h = Hub::build(&HubOpts { n_native: cfg.n_native, n_cw20: cfg.n_cw20, children: false });
        AllReg { cfg: cfg.clone(), h, pairs: BTreeMap::new(), trios: BTreeMap::new(), vaults: BTreeMap::new(), incentives: BTreeMap::new(), orphans: vec![], routes: BTreeMap::new(), seen_addrs: BTreeSet::new() }
    }

    fn gen_step(&mut self, rng: &mut Rng, ctx: &mut Ctx) -> Option<Step> {
        let n = self.h.assets.len();
        let fault = |rng: &mut Rng, on: bool| if on && rng.chance(1, 6) { Fault::SubCall(rng.range(2, 5) as u32) } else { Fault::None };
        let faults = self.cfg.faults;
        let pick2 = |rng: &mut Rng| {
            let a = rng.idx(n);
            let mut b = rng.idx(n);
            if b == a {
                b = (a + 1 + rng.idx(n - 1)) % n;
            }
            [a, b]
        };
        let pick3 = |rng: &mut Rng| {
            let mut idx: Vec<usize> = (0..n).collect();
            rng.shuffle(&mut idx);
            [idx[0], idx[1], idx[2]]
        };
        let kind = if ctx.step < self.cfg.prefill {
            // big runs fill the trio registry beyond one page (30 entries)
            if self.cfg.prefill >= 100 && rng.chance(3, 5) {
                3
            } else {
                rng.below(8)
            }
        } else {
            rng.below(30)
        };
        let op = match kind {
            0..=2 => Op::CreatePair { assets: pick2(rng), stable: if rng.chance(1, 4) { Some(*rng.pick(&[1u64, 10, 100, 1000])) } else { None }, fault: fault(rng, faults) },
            3 | 4 => Op::CreateTrio { assets: pick3(rng), fault: fault(rng, faults) },
            5 => Op::CreateVault { asset: rng.idx(n), fault: fault(rng, faults) },
            6 | 7 => {
                // LP asset: a universe asset, an LP token of a (possibly removed) pair, or a fresh denom
                let mut cands: Vec<AssetInfo> = self.h.assets.clone();
                for e in self.pairs.values() {
                    cands.push(token(&e.lp));
                }
                for e in self.trios.values() {
                    cands.push(token(&e.lp));
                }
                cands.push(native(&format!("ulp{}", (b'a' + rng.below(26) as u8) as char)));
                Op::CreateIncentive { lp: rng.pick(&cands).clone(), fault: fault(rng, faults) }
            }
            8..=10 => {
                // remove: mostly an existing pair, in a random order of its assets
                if !self.pairs.is_empty() && rng.chance(5, 6) {
                    let keys: Vec<&Vec<usize>> = self.pairs.keys().collect();
                    let k = rng.pick(&keys);
                    let a = if rng.chance(1, 2) { [k[0], k[1]] } else { [k[1], k[0]] };
                    Op::RemovePair { assets: a }
                } else {
                    Op::RemovePair { assets: pick2(rng) }
                }
            }
            11 | 12 => {
                if !self.trios.is_empty() && rng.chance(5, 6) {
                    let keys: Vec<&Vec<usize>> = self.trios.keys().collect();
                    let k = rng.pick(&keys);
                    let mut a = [k[0], k[1], k[2]];
                    rng.shuffle(&mut a);
                    Op::RemoveTrio { assets: a }
                } else {
                    Op::RemoveTrio { assets: pick3(rng) }
                }
            }
            13 => Op::RemoveVault { asset: rng.idx(n) },
            14 | 15 => Op::Lookups,
            16..=19 => Op::Walk { reg: *rng.pick(&[Reg::Pairs, Reg::Pairs, Reg::Trios, Reg::Trios, Reg::Vaults, Reg::Incentives]) },
            20..=23 => {
                // route: a path over registered pairs, sometimes with an unregistered hop
                let len = rng.range(1, 3) as usize;
                let mut hops: Vec<[usize; 2]> = vec![];
                let mut cur = rng.idx(n);
                let start = cur;
                for _ in 0..len {
                    let regs: Vec<usize> = (0..n).filter(|x| *x != cur && self.pairs.contains_key(&sorted(&[cur, *x]))).collect();
                    let next = if !regs.is_empty() && rng.chance(5, 6) { *rng.pick(&regs) } else { (cur + 1 + rng.idx(n - 1)) % n };
                    hops.push([cur, next]);
                    cur = next;
                }
                // sometimes a later hop does not continue where the previous one ended: its declared offer is
                // some other asset (every hop on its own must still be a registered pair)
                if hops.len() >= 2 && rng.chance(1, 4) {
                    let k = 1 + rng.idx(hops.len() - 1);
                    hops[k][0] = (hops[k][0] + 1 + rng.idx(n - 1)) % n;
                }
                if kind <= 21 {
                    Op::AddRoute { offer: start, ask: cur, hops }
                } else {
                    Op::RouterSwap { user: rng.idx(USERS.len()), hops, amount: rng.range128(1_000, 1_000_000) }
                }
            }
            24 => {
                if !self.routes.is_empty() && rng.chance(4, 5) {
                    let hops: Vec<&Vec<[usize; 2]>> = self.routes.values().collect();
                    let h = rng.pick(&hops);
                    Op::RemoveRoute { offer: h[0][0], ask: h[h.len() - 1][1] }
                } else {
                    let p = pick2(rng);
                    Op::RemoveRoute { offer: p[0], ask: p[1] }
                }
            }
            25..=27 => {
                // execute a stored route (its pairs may have been removed since)
                if !self.routes.is_empty() {
                    let hops: Vec<&Vec<[usize; 2]>> = self.routes.values().collect();
                    Op::RouterSwap { user: rng.idx(USERS.len()), hops: (*rng.pick(&hops)).clone(), amount: rng.range128(1_000, 1_000_000) }
                } else {
                    Op::Lookups
                }
            }
            28 if rng.chance(1, 2) => Op::SetNativeDecimals { asset: rng.idx(n), decimals: *rng.pick(&[6u8, 8, 18, 0]) },
            _ => Op::CreatePair { assets: pick2(rng), stable: None, fault: fault(rng, faults) },
        };
        Some(Step { op })
    }

    fn apply(&mut self, step: &Step, ctx: &mut Ctx) {
        self.apply_op(&step.op, ctx);
    }

    fn finish(&mut self, ctx: &mut Ctx) {
        self.lookups(ctx);
        for reg in [Reg::Pairs, Reg::Trios, Reg::Vaults, Reg::Incentives] {
            if ctx.stopped() {
                return;
            }
            self.quick_listing(reg, ctx);
        }
    }

    fn simplify(step: &Step) -> Vec<Step> {
        match &step.op {
            Op::CreatePair { assets, stable, fault } if *fault != Fault::None || stable.is_some() => vec![Step { op: Op::CreatePair { assets: *assets, stable: None, fault: Fault::None } }],
            Op::CreateTrio { assets, fault } if *fault != Fault::None => vec![Step { op: Op::CreateTrio { assets: *assets, fault: Fault::None } }],
            _ => vec![],
        }
    }

    fn sim_clock(&self) -> (u64, u64) {
        (self.h.ns, self.h.blocks)
    }
}

impl AllReg {
    fn apply_op(&mut self, op: &Op, ctx: &mut Ctx) {
        let n = self.h.assets.len();
        let pf = self.h.pool_factory.clone();
        let vf = self.h.vault_factory.clone();
        let inf = self.h.incentive_factory.clone();
        match op {
            Op::CreatePair { assets, stable, fault } => {
                let a = [assets[0] % n, assets[1] % n];
                if a[0] == a[1] {
                    return ctx.trace("skip");
                }
                let set = sorted(&a);
                let absent = !self.pairs.contains_key(&set);
                let ptype = match stable {
                    Some(x) => PairType::StableSwap { amp: *x },
                    None => PairType::ConstantProduct,
                };
                let m = wasm_exec(&pf, &factory::ExecuteMsg::CreatePair { asset_infos: self.infos2(&a), pool_fees: pool_fee3(&default_pool_fees()), pair_type: ptype, token_factory_lp: false }, vec![]);
                if !self.run_create("create_pair", "pair", m, *fault, absent, ctx) {
                    return;
                }
                // what did the factory register?
                match query::<PairInfo, _>(&self.h.app, &pf, &factory::QueryMsg::Pair { asset_infos: self.infos2(&a) }) {
                    Ok(pi) => {
                        let e = PairE { dec: [self.h.decimals[a[0]], self.h.decimals[a[1]]], addr: pi.contract_addr.clone(), order: a, stable: *stable, lp: asset_id(&pi.liquidity_token) };
                        self.fresh_addr("pair", &pi.contract_addr, ctx);
                        if self.orphans.iter().any(|o| sorted(&o.1) == set) {
                            ctx.probe("pair_recreated_after_removal");
                        }
                        self.pairs.insert(set.clone(), e.clone());
                        ctx.state_of(&format!("pairs:{:?}", self.pairs.keys().collect::<Vec<_>>()));
                        self.check_pair_entry(&set, &e, ctx);
                        // liquidity, so that routes over this pair can be simulated and executed
                        let infos = self.infos2(&a);
                        let amt = |i: usize| 1_000_000u128 * 10u128.pow(self.h.decimals[i] as u32).min(1_000_000_000_000);
                        let msgs = self.h.provide_msgs(&e.addr, &infos, [amt(a[0]), amt(a[1])]);
                        let r = tx(&mut self.h.app, OWNER, msgs, Fault::None);
                        ctx.op("provide", r.outcome.kind());
                        ctx.trace(&format!("provide:{}", r.outcome.kind()));
                    }
                    Err(err) => ctx.fail("C19", "created_is_registered", "pair", None, format!("CreatePair succeeded but the factory does not list the pair: {err}")),
                }
                if !ctx.stopped() {
                    self.quick_listing(Reg::Pairs, ctx);
                }
            }
            Op::RemovePair { assets } => {
                let a = [assets[0] % n, assets[1] % n];
                if a[0] == a[1] {
                    return ctx.trace("skip");
                }
                let set = sorted(&a);
                let present = self.pairs.contains_key(&set);
                let fp0 = fingerprint(&self.h.app);
                // what the listing returns after this pair as cursor, before the removal
                let after_cursor = |s: &Self| -> Option<Vec<String>> {
                    query::<factory::PairsResponse, _>(&s.h.app, &s.h.pool_factory, &factory::QueryMsg::Pairs { start_after: Some(s.infos2(&a)), limit: Some(30) }).ok().map(|r| r.pairs.into_iter().map(|p| p.contract_addr).collect())
                };
                let cont_before = if present { after_cursor(self) } else { None };
                let m = wasm_exec(&pf, &factory::ExecuteMsg::RemovePair { asset_infos: self.infos2(&a) }, vec![]);
                let r = tx(&mut self.h.app, OWNER, vec![m], Fault::None);
                ctx.op("remove_pair", r.outcome.kind());
                ctx.trace(&format!("remove_pair:{}", r.outcome.kind()));
                ctx.eval("C19");
                if r.outcome.is_ok() != present {
                    ctx.fail("C19", "remove_iff_present", "pair", None, format!("RemovePair {:?} (registered: {present}) -> {}", a, if r.outcome.is_ok() { "ok".to_string() } else { r.outcome.err_text() }));
                    return;
                }
                if !r.outcome.is_ok() {
                    if fingerprint(&self.h.app) != fp0 {
                        ctx.fail("C19", "failed_remove_changes_nothing", "pair", None, "a refused RemovePair changed the state".to_string());
                    }
                    return;
                }
                if let Some(e) = self.pairs.remove(&set) {
                    self.orphans.push((e.addr, e.order));
                }
                ctx.probe("pair_removed");
                // a cursor that points at an entry removed in the meantime still continues the walk at
                // the same place: nothing that follows it is skipped or repeated
                if let Some(before) = cont_before {
                    let after = after_cursor(self);
                    if after.as_ref() != Some(&before) {
                        ctx.fail("C19", "pagination_every_cursor", "cursor_of_removed_pair", None, format!("Pairs listing after the cursor {:?}: {:?} while the pair was registered, {:?} after it was removed", a, before, after));
                        return;
                    }
                    ctx.probe("listing_from_cursor_of_removed_entry");
                }
                ctx.state_of(&format!("pairs:{:?}", self.pairs.keys().collect::<Vec<_>>()));
                self.check_absent_pair(&set, ctx);
                if !ctx.stopped() {
                    self.quick_listing(Reg::Pairs, ctx);
                }
            }
            Op::CreateTrio { assets, fault } => {
                let a = [assets[0] % n, assets[1] % n, assets[2] % n];
                if a[0] == a[1] || a[0] == a[2] || a[1] == a[2] {
                    return ctx.trace("skip");
                }
                let set = sorted(&a);
                let absent = !self.trios.contains_key(&set);
                let m = wasm_exec(&pf, &factory::ExecuteMsg::CreateTrio { asset_infos: self.infos3(&a), pool_fees: trio_fee3(&default_pool_fees()), amp_factor: 100, token_factory_lp: false }, vec![]);
                if !self.run_create("create_trio", "trio", m, *fault, absent, ctx) {
                    return;
                }
                match query::<TrioInfo, _>(&self.h.app, &pf, &factory::QueryMsg::Trio { asset_infos: self.infos3(&a) }) {
                    Ok(ti) => {
                        let e = TrioE { dec: [self.h.decimals[a[0]], self.h.decimals[a[1]], self.h.decimals[a[2]]], addr: ti.contract_addr.clone(), order: a, lp: asset_id(&ti.liquidity_token) };
                        self.fresh_addr("trio", &ti.contract_addr, ctx);
                        self.trios.insert(set.clone(), e.clone());
                        ctx.state_of(&format!("trios:{:?}", self.trios.keys().collect::<Vec<_>>()));
                        self.check_trio_entry(&set, &e, ctx);
                    }
                    Err(err) => ctx.fail("C19", "created_is_registered", "trio", None, format!("CreateTrio succeeded but the factory does not list the trio: {err}")),
                }
                if !ctx.stopped() {
                    self.quick_listing(Reg::Trios, ctx);
                }
            }
            Op::RemoveTrio { assets } => {
                let a = [assets[0] % n, assets[1] % n, assets[2] % n];
                if a[0] == a[1] || a[0] == a[2] || a[1] == a[2] {
                    return ctx.trace("skip");
                }
                let set = sorted(&a);
                let present = self.trios.contains_key(&set);
                let after_cursor = |s: &Self| -> Option<Vec<String>> {
                    query::<factory::TriosResponse, _>(&s.h.app, &s.h.pool_factory, &factory::QueryMsg::Trios { start_after: Some(s.infos3(&a)), limit: Some(30) }).ok().map(|r| r.trios.into_iter().map(|p| p.contract_addr).collect())
                };
                let cont_before = if present { after_cursor(self) } else { None };
                let m = wasm_exec(&pf, &factory::ExecuteMsg::RemoveTrio { asset_infos: self.infos3(&a) }, vec![]);
                let r = tx(&mut self.h.app, OWNER, vec![m], Fault::None);
                ctx.op("remove_trio", r.outcome.kind());
                ctx.trace(&format!("remove_trio:{}", r.outcome.kind()));
                ctx.eval("C19");
                if r.outcome.is_ok() != present {
                    ctx.fail("C19", "remove_iff_present", "trio", None, format!("RemoveTrio {:?} (registered: {present}) -> {}", a, if r.outcome.is_ok() { "ok".to_string() } else { r.outcome.err_text() }));
                    return;
                }
                if !r.outcome.is_ok() {
                    return;
                }
                self.trios.remove(&set);
                ctx.probe("trio_removed");
                if let Some(before) = cont_before {
                    let after = after_cursor(self);
                    if after.as_ref() != Some(&before) {
                        ctx.fail("C19", "pagination_every_cursor", "cursor_of_removed_trio", None, format!("Trios listing after the cursor {:?}: {:?} while the trio was registered, {:?} after it was removed", a, before, after));
                        return;
                    }
                    ctx.probe("listing_from_cursor_of_removed_entry");
                }
                ctx.state_of(&format!("trios:{:?}", self.trios.keys().collect::<Vec<_>>()));
                self.check_absent_trio(&set, ctx);
                if !ctx.stopped() {
                    self.quick_listing(Reg::Trios, ctx);
                }
            }
            Op::CreateVault { asset, fault } => {
                let a = asset % n;
                let absent = !self.vaults.contains_key(&a);
                let m = wasm_exec(&vf, &vault_factory::ExecuteMsg::CreateVault { asset_info: self.ai(a), fees: vault_fee3(&default_vault_fees()), token_factory_lp: false }, vec![]);
                if !self.run_create("create_vault", "vault", m, *fault, absent, ctx) {
                    return;
                }
                match query::<Option<String>, _>(&self.h.app, &vf, &vault_factory::QueryMsg::Vault { asset_info: self.ai(a) }) {
                    Ok(Some(addr)) => {
                        self.fresh_addr("vault", &addr, ctx);
                        self.vaults.insert(a, addr.clone());
                        ctx.state_of(&format!("vaults:{:?}", self.vaults.keys().collect::<Vec<_>>()));
                        self.check_vault_entry(a, &addr, ctx);
                    }
                    other => ctx.fail("C19", "created_is_registered", "vault", None, format!("CreateVault succeeded but the factory answers {other:?}")),
                }
                if !ctx.stopped() {
                    self.quick_listing(Reg::Vaults, ctx);
                }
            }
            Op::RemoveVault { asset } => {
                let a = asset % n;
                let present = self.vaults.contains_key(&a);
                let after_cursor = |s: &Self| -> Option<Vec<String>> {
                    query::<vault_factory::VaultsResponse, _>(&s.h.app, &s.h.vault_factory, &vault_factory::QueryMsg::Vaults { start_after: Some(asset_id(&s.ai(a)).into_bytes()), limit: Some(30) }).ok().map(|r| r.vaults.into_iter().map(|p| p.vault).collect())
                };
                let cont_before = if present { after_cursor(self) } else { None };
                let m = wasm_exec(&vf, &vault_factory::ExecuteMsg::RemoveVault { asset_info: self.ai(a) }, vec![]);
                let r = tx(&mut self.h.app, OWNER, vec![m], Fault::None);
                ctx.op("remove_vault", r.outcome.kind());
                ctx.trace(&format!("remove_vault:{}", r.outcome.kind()));
                ctx.eval("C19");
                if r.outcome.is_ok() != present {
                    ctx.fail("C19", "remove_iff_present", "vault", None, format!("RemoveVault asset {a} (registered: {present}) -> {}", if r.outcome.is_ok() { "ok".to_string() } else { r.outcome.err_text() }));
                    return;
                }
                if !r.outcome.is_ok() {
                    return;
                }
                self.vaults.remove(&a);
                ctx.probe("vault_removed");
                if let Some(before) = cont_before {
                    let after = after_cursor(self);
                    if after.as_ref() != Some(&before) {
                        ctx.fail("C19", "pagination_every_cursor", "cursor_of_removed_vault", None, format!("Vaults listing after the cursor asset {a}: {:?} while the vault was registered, {:?} after it was removed", before, after));
                        return;
                    }
                    ctx.probe("listing_from_cursor_of_removed_entry");
                }
                ctx.state_of(&format!("vaults:{:?}", self.vaults.keys().collect::<Vec<_>>()));
                if let Ok(Some(x)) = query::<Option<String>, _>(&self.h.app, &vf, &vault_factory::QueryMsg::Vault { asset_info: self.ai(a) }) {
                    ctx.fail("C19", "absent_not_listed", "vault", None, format!("the vault for asset {a} was removed but the factory still answers {x}"));
                    return;
                }
                self.quick_listing(Reg::Vaults, ctx);
            }
            Op::CreateIncentive { lp, fault } => {
                let k = akey(lp);
                let absent = !self.incentives.contains_key(&k);
                let m = wasm_exec(&inf, &incentive_factory::ExecuteMsg::CreateIncentive { lp_asset: lp.clone() }, vec![]);
                if !self.run_create("create_incentive", "incentive", m, *fault, absent, ctx) {
                    return;
                }
                match query::<Option<String>, _>(&self.h.app, &inf, &incentive_factory::QueryMsg::Incentive { lp_asset: lp.clone() }) {
                    Ok(Some(addr)) => {
                        self.fresh_addr("incentive", &addr, ctx);
                        self.incentives.insert(k, (addr.clone(), lp.clone()));
                        ctx.state_of(&format!("incentives:{:?}", self.incentives.keys().collect::<Vec<_>>()));
                        self.check_incentive_entry(lp, &addr, ctx);
                    }
                    other => ctx.fail("C19", "created_is_registered", "incentive", None, format!("CreateIncentive succeeded but the factory answers {other:?}")),
                }
                if !ctx.stopped() {
                    self.quick_listing(Reg::Incentives, ctx);
                }
            }
            Op::SetNativeDecimals { asset, decimals } => {
                if let AssetInfo::NativeToken { denom } = self.ai(*asset) {
                    let r = tx(
                        &mut self.h.app,
                        OWNER,
                        vec![wasm_exec(&self.h.pool_factory.clone(), &factory::ExecuteMsg::AddNativeTokenDecimals { denom: denom.clone(), decimals: *decimals }, vec![cosmwasm_std::coin(1, denom.as_str())])],
                        Fault::None,
                    );
                    ctx.op("set_native_decimals", r.outcome.kind());
                    ctx.trace(&format!("set_native_decimals:{asset}:{decimals}:{}", r.outcome.kind()));
                    if r.outcome.is_ok() {
                        self.h.decimals[*asset] = *decimals;
                        ctx.probe("native_decimals_registered_again");
                    }
                    self.lookups(ctx);
                }
            }
            Op::Lookups => {
                ctx.trace("lookups");
                self.lookups(ctx);
            }
            Op::Walk { reg } => {
                ctx.trace("walk");
                self.walk_all(*reg, ctx);
            }
            Op::AddRoute { offer, ask, hops } => {
                if hops.is_empty() {
                    return ctx.trace("skip");
                }
                let hops: Vec<[usize; 2]> = hops.iter().map(|h| [h[0] % n, h[1] % n]).collect();
                let route = SwapRoute { offer_asset_info: self.ai(*offer), ask_asset_info: self.ai(*ask), swap_operations: self.ops_of(&hops) };
                let all_reg = hops.iter().all(|h| self.hop_registered(h));
                let fp0 = fingerprint(&self.h.app);
                let r = tx(&mut self.h.app, WADMIN, vec![wasm_exec(&self.h.router.clone(), &router::ExecuteMsg::AddSwapRoutes { swap_routes: vec![route] }, vec![])], Fault::None);
                ctx.op("add_route", r.outcome.kind());
                ctx.trace(&format!("add_route:{}", r.outcome.kind()));
                ctx.eval("C19");
                if r.outcome.is_ok() {
                    if !all_reg {
                        let bad: Vec<&[usize; 2]> = hops.iter().filter(|h| !self.hop_registered(h)).collect();
                        ctx.fail("C19", "route_hops_registered", "router", None, format!("the router stored the route {:?} although no pair is registered for the hops {:?}", hops, bad));
                        return;
                    }
                    self.routes.insert((self.label(*offer), self.label(*ask)), hops.clone());
                    ctx.probe("route_stored");
                    ctx.state_of(&format!("routes:{:?}", self.routes));
                } else {
                    if all_reg {
                        ctx.probe("route_refused_although_hops_registered");
                    } else {
                        ctx.probe("route_with_unregistered_hop_refused");
                    }
                    if fingerprint(&self.h.app) != fp0 {
                        ctx.fail("C19", "failed_route_update_changes_nothing", "router", None, "a refused AddSwapRoutes changed the state".to_string());
                    }
                }
            }
            Op::RemoveRoute { offer, ask } => {
                let route = SwapRoute { offer_asset_info: self.ai(*offer), ask_asset_info: self.ai(*ask), swap_operations: vec![] };
                let key = (self.label(*offer), self.label(*ask));
                let r = tx(&mut self.h.app, WADMIN, vec![wasm_exec(&self.h.router.clone(), &router::ExecuteMsg::RemoveSwapRoutes { swap_routes: vec![route] }, vec![])], Fault::None);
                ctx.op("remove_route", r.outcome.kind());
                ctx.trace(&format!("remove_route:{}", r.outcome.kind()));
                ctx.eval("C19");
                if r.outcome.is_ok() != self.routes.contains_key(&key) {
                    ctx.fail("C19", "routes_match_model", "router", None, format!("RemoveSwapRoutes {key:?} -> ok={} but the model has the route: {}", r.outcome.is_ok(), self.routes.contains_key(&key)));
                    return;
                }
                if r.outcome.is_ok() {
                    self.routes.remove(&key);
                    ctx.probe("route_removed");
                }
            }
            Op::RouterSwap { user, hops, amount } => {
                if hops.is_empty() {
                    return ctx.trace("skip");
                }
                let hops: Vec<[usize; 2]> = hops.iter().map(|h| [h[0] % n, h[1] % n]).collect();
                let all_reg = hops.iter().all(|h| self.hop_registered(h));
                let who = USERS[user % USERS.len()];
                let Some(m) = self.h.router_swap_msg(self.ops_of(&hops), *amount, None, None) else { return ctx.trace("skip") };
                // balances of every removed pair contract: a removed pair must never take part
                let orphan_bal = |s: &Self| -> Vec<u128> { s.orphans.iter().flat_map(|(a, o)| [balance(&s.h.app, a, &s.ai(o[0])), balance(&s.h.app, a, &s.ai(o[1]))]).collect() };
                let ob0 = orphan_bal(self);
                let fp0 = fingerprint(&self.h.app);
                let r = tx(&mut self.h.app, who, vec![m], Fault::None);
                ctx.op("router_swap", r.outcome.kind());
                ctx.trace(&format!("router_swap:{}", r.outcome.kind()));
                ctx.eval("C19");
                if r.outcome.is_ok() {
                    if !all_reg {
                        ctx.fail("C19", "unregistered_hop_never_executes", "router", None, format!("a swap through {:?} succeeded although a hop has no registered pair", hops));
                        return;
                    }
                    if orphan_bal(self) != ob0 {
                        ctx.fail("C19", "unregistered_hop_never_executes", "router", None, format!("a swap through {:?} moved the balances of a pair that was removed from the factory", hops));
                        return;
                    }
                    ctx.probe("route_executed");
                    if !self.orphans.is_empty() {
                        ctx.probe("route_executed_while_removed_pairs_exist");
                    }
                } else {
                    if !all_reg {
                        ctx.probe("swap_through_unregistered_hop_refused");
                        if hops.iter().any(|h| self.orphans.iter().any(|o| sorted(&o.1) == sorted(h)) && !self.hop_registered(h)) {
                            ctx.probe("swap_through_removed_pair_refused");
                        }
                    }
                    if fingerprint(&self.h.app) != fp0 {
                        ctx.fail("C19", "failed_swap_changes_nothing", "router", None, "a failed router swap changed the state".to_string());
                    }
                }
            }
        }
    }
}
