//! ALL world: every contract of the liquidity hub deployed once and wired as in production,
//! plus the harness-only `Proxy` contract (forwards arbitrary messages, so that *a contract*
//! is the sender; also accepts the epoch-manager hook message so that it can be registered
//! as a hook). Shared by the scenarios ALL_AUTH (C16), ALL_CFG (C18) and ALL_REG (C19).

use cosmwasm_std::{
    coin, to_json_binary, Binary, Coin, CosmosMsg, Decimal, Deps, DepsMut, Empty, Env,
    MessageInfo, Response, StdResult, Timestamp, Uint128, Uint64, WasmMsg,
};
use cw_multi_test::{Contract, ContractWrapper};
use schemars::JsonSchema;
use serde::{Deserialize, Serialize};
use serde_json::Value;
use std::str::FromStr;

use white_whale_std::epoch_manager::epoch_manager as em;
use white_whale_std::epoch_manager::hooks::EpochChangedHookMsg;
use white_whale_std::fee::{Fee, VaultFee};
use white_whale_std::pool_network::asset::{Asset, AssetInfo, PairInfo, PairType, TrioInfo};
use white_whale_std::pool_network::pair::PoolFee;
use white_whale_std::pool_network::router::{SwapOperation, SwapRoute};
use white_whale_std::pool_network::trio::PoolFee as TrioPoolFee;
use white_whale_std::pool_network::{factory, frontend_helper, incentive, incentive_factory, pair, router, trio};
use white_whale_std::vault_network::{vault, vault_factory, vault_router};
use white_whale_std::{fee_collector, fee_distributor, whale_lair};

use crate::world::*;

pub const OWNER: &str = "owner";
/// deploys contracts whose instantiate message names the owner explicitly (deployer != configured owner)
pub const DEPLOYER: &str = "deployer";
pub const WADMIN: &str = "wadmin";
pub const NEWOWNER: &str = "newowner";
pub const CREATOR: &str = "creator";
pub const DAO: &str = "daoaddr";
pub const USERS: [&str; 3] = ["alice", "bobby", "carol"];
// the last denom extends another one as a prefix (registry keys / pagination cursors built from asset bytes)
pub const NATIVES: [&str; 4] = ["uwhale", "uusdc", "uatom", "uusdcx"];
pub const NATIVE_DECIMALS: [u8; 4] = [6, 6, 8, 18];
pub const CW20_SYMBOLS: [&str; 4] = ["TKA", "TKB", "TKC", "TKD"];
pub const CW20_DECIMALS: [u8; 4] = [6, 8, 18, 6];
pub const BOND_DENOMS: [&str; 2] = ["ampwhale", "bwhale"];
/// a token-factory style denom (the bank can hold it without a token-factory module)
pub const FACTORY_DENOM: &str = "factory/migaloo1creator/uprobe";
pub const DAY_NS: u64 = 86_400_000_000_000;
pub const RICH: u128 = 1_000_000_000_000_000_000_000_000; // 1e24

// ---------------------------------------------------------------------------------------------
// Proxy: harness-only contract
// ---------------------------------------------------------------------------------------------

#[derive(Serialize, Deserialize, Clone, Debug, PartialEq, JsonSchema)]
#[serde(rename_all = "snake_case")]
pub enum ProxyExec {
    /// emits the given messages, so the proxy contract is their sender
    Forward { msgs: Vec<CosmosMsg> },
    /// epoch-manager hook: accepted and ignored
    EpochChangedHook(EpochChangedHookMsg),
}

fn proxy_execute(_d: DepsMut, _e: Env, _i: MessageInfo, msg: ProxyExec) -> StdResult<Response> {
    match msg {
        ProxyExec::Forward { msgs } => Ok(Response::new().add_messages(msgs)),
        ProxyExec::EpochChangedHook(_) => Ok(Response::new()),
    }
}
fn proxy_instantiate(_d: DepsMut, _e: Env, _i: MessageInfo, _m: Empty) -> StdResult<Response> {
    Ok(Response::new())
}
fn proxy_query(_d: Deps, _e: Env, _m: Empty) -> StdResult<Binary> {
    to_json_binary(&Empty {})
}
fn ok_migrate(_d: DepsMut, _e: Env, _m: Empty) -> StdResult<Response> {
    Ok(Response::new())
}
/// The real child contracts with a migrate entry point that accepts (the real one refuses a
/// migration to the same crate version), so that a factory-driven migration can succeed.
pub fn pair_v2() -> Box<dyn Contract<Empty>> {
    faulty(Box::new(
        ContractWrapper::new(terraswap_pair::contract::execute, terraswap_pair::contract::instantiate, terraswap_pair::contract::query)
            .with_reply(terraswap_pair::contract::reply)
            .with_migrate(ok_migrate),
    ))
}
pub fn trio_v2() -> Box<dyn Contract<Empty>> {
    faulty(Box::new(
        ContractWrapper::new(stableswap_3pool::contract::execute, stableswap_3pool::contract::instantiate, stableswap_3pool::contract::query)
            .with_reply(stableswap_3pool::contract::reply)
            .with_migrate(ok_migrate),
    ))
}
pub fn vault_v2() -> Box<dyn Contract<Empty>> {
    faulty(Box::new(
        ContractWrapper::new(::vault::contract::execute, ::vault::contract::instantiate, ::vault::contract::query)
            .with_reply(::vault::reply::reply)
            .with_migrate(ok_migrate),
    ))
}
pub fn incentive_v2() -> Box<dyn Contract<Empty>> {
    faulty(Box::new(
        ContractWrapper::new(::incentive::contract::execute, ::incentive::contract::instantiate, ::incentive::contract::query).with_migrate(ok_migrate),
    ))
}
pub fn proxy_code() -> Box<dyn Contract<Empty>> {
    faulty(Box::new(ContractWrapper::new(proxy_execute, proxy_instantiate, proxy_query)))
}

/// `via` forwards `msgs`: the sender of `msgs` is the proxy contract
pub fn via_proxy(proxy: &str, msgs: Vec<CosmosMsg>, funds: Vec<Coin>) -> CosmosMsg {
    wasm_exec(proxy, &ProxyExec::Forward { msgs }, funds)
}

// ---------------------------------------------------------------------------------------------
// small helpers
// ---------------------------------------------------------------------------------------------

pub fn dec(s: &str) -> Decimal {
    Decimal::from_str(s).unwrap_or_else(|_| panic!("harness: bad decimal {s}"))
}
pub fn pool_fee3(f: &[String; 3]) -> PoolFee {
    PoolFee {
        protocol_fee: Fee { share: dec(&f[0]) },
        swap_fee: Fee { share: dec(&f[1]) },
        burn_fee: Fee { share: dec(&f[2]) },
    }
}
pub fn trio_fee3(f: &[String; 3]) -> TrioPoolFee {
    TrioPoolFee {
        protocol_fee: Fee { share: dec(&f[0]) },
        swap_fee: Fee { share: dec(&f[1]) },
        burn_fee: Fee { share: dec(&f[2]) },
    }
}
/// protocol, flash-loan, burn
pub fn vault_fee3(f: &[String; 3]) -> VaultFee {
    VaultFee {
        protocol_fee: Fee { share: dec(&f[0]) },
        flash_loan_fee: Fee { share: dec(&f[1]) },
        burn_fee: Fee { share: dec(&f[2]) },
    }
}
pub fn s3(a: &str, b: &str, c: &str) -> [String; 3] {
    [a.to_string(), b.to_string(), c.to_string()]
}

/// The innermost cause of a cw-multi-test error chain (`{:#}` joins contexts with ": "; the
/// contract's own error text is the last element). Used to classify refusals by the
/// contract's specific error text and never by a word of the echoed message.
pub fn root_cause(err: &str) -> &str {
    // every context of the chain ends with the Debug rendering of the message: "... funds: [..] }: "
    match err.rfind(" }: ") {
        Some(i) => err[i + 4..].trim(),
        None => err.trim(),
    }
}
/// Does the innermost error equal one of the contract's refusal texts? A pattern ending in
/// '*' is a prefix (the contract appends a value to the sentence).
pub fn refused_with(err: &str, pats: &[&str]) -> bool {
    let root = root_cause(err);
    pats.iter().any(|p| match p.strip_suffix('*') {
        Some(pre) => root.starts_with(pre),
        // thiserror wrappers with `#[error("{0}")]` + source make anyhow print the text twice ("X: X")
        None => root == *p || (root.starts_with(p) && root.ends_with(p) && root.replace(p, "").chars().all(|c| c == ':' || c == ' ')),
    })
}

pub fn sorted_funds(mut v: Vec<Coin>) -> Vec<Coin> {
    v.retain(|c| !c.amount.is_zero());
    v.sort_by(|a, b| a.denom.cmp(&b.denom));
    v
}

/// Decimal string (as serialised by cosmwasm `Decimal`) -> atomics; None when not parseable.
pub fn dec_atomics_opt(s: &str) -> Option<u128> {
    let (i, f) = match s.split_once('.') {
        Some((i, f)) => (i, f),
        None => (s, ""),
    };
    if f.len() > 18 || (i.is_empty() && f.is_empty()) {
        return None;
    }
    let mut frac = f.to_string();
    while frac.len() < 18 {
        frac.push('0');
    }
    let ip: u128 = if i.is_empty() { 0 } else { i.parse().ok()? };
    let fp: u128 = if frac.is_empty() { 0 } else { frac.parse().ok()? };
    ip.checked_mul(crate::big::E18)?.checked_add(fp)
}

pub fn jstr<'a>(v: &'a Value, path: &[&str]) -> Option<&'a str> {
    let mut cur = v;
    for p in path {
        cur = cur.get(*p)?;
    }
    cur.as_str()
}
pub fn jget<'a>(v: &'a Value, path: &[&str]) -> Option<&'a Value> {
    let mut cur = v;
    for p in path {
        cur = cur.get(*p)?;
    }
    Some(cur)
}
/// number or numeric string -> u128
pub fn jnum(v: &Value) -> Option<u128> {
    match v {
        Value::String(s) => s.parse().ok(),
        Value::Number(n) => n.to_string().parse().ok(),
        _ => None,
    }
}

pub fn qjson<Q: Serialize>(app: &SimApp, contract: &str, q: &Q) -> Result<Value, String> {
    query::<Value, Q>(app, contract, q)
}

// ---------------------------------------------------------------------------------------------
// the hub
// ---------------------------------------------------------------------------------------------

#[derive(Clone, Debug, Default)]
pub struct Codes {
    pub token: u64,
    pub pair: u64,
    pub trio: u64,
    pub pool_factory: u64,
    pub router: u64,
    pub vault: u64,
    pub vault_factory: u64,
    pub vault_router: u64,
    pub collector: u64,
    pub distributor: u64,
    pub lair: u64,
    pub incentive: u64,
    pub incentive_factory: u64,
    pub helper: u64,
    pub epoch_manager: u64,
    pub proxy: u64,
    pub pair_v2: u64,
    pub trio_v2: u64,
    pub vault_v2: u64,
    pub incentive_v2: u64,
}

#[derive(Clone, Debug)]
pub struct PairH {
    pub addr: String,
    pub lp: String,
    pub assets: [AssetInfo; 2],
}
#[derive(Clone, Debug)]
pub struct TrioH {
    pub addr: String,
    pub lp: String,
    pub assets: [AssetInfo; 3],
}
#[derive(Clone, Debug)]
pub struct VaultH {
    pub addr: String,
    pub lp: String,
    pub asset: AssetInfo,
}

#[derive(Clone, Debug)]
pub struct HubOpts {
    pub n_native: usize,
    pub n_cw20: usize,
    /// create the initial children (2 pairs, 1 trio, 2 vaults, 1 incentive), liquidity, routes,
    /// first epoch, one flow, one hook
    pub children: bool,
}

pub struct Hub {
    pub app: SimApp,
    pub codes: Codes,
    /// universe: natives first, then cw20
    pub assets: Vec<AssetInfo>,
    pub decimals: Vec<u8>,
    pub n_native: usize,
    pub pool_factory: String,
    pub router: String,
    pub vault_factory: String,
    pub vault_router: String,
    pub collector: String,
    pub distributor: String,
    /// a second distributor instance deployed by a stranger, configured like the real one (see build)
    pub rogue_distributor: String,
    pub lair: String,
    pub incentive_factory: String,
    pub helper: String,
    pub epoch_manager: String,
    pub proxy: String,
    pub proxy2: String,
    pub pairs: Vec<PairH>,
    pub trios: Vec<TrioH>,
    pub vaults: Vec<VaultH>,
    /// (incentive address, lp asset)
    pub incentives: Vec<(String, AssetInfo)>,
    pub ns: u64,
    pub blocks: u64,
}

pub fn default_pool_fees() -> [String; 3] {
    s3("0.001", "0.002", "0")
}
pub fn default_vault_fees() -> [String; 3] {
    s3("0.001", "0.002", "0")
}

impl Hub {
    pub fn asset(&self, i: usize, amount: u128) -> Asset {
        Asset { info: self.assets[i].clone(), amount: Uint128::new(amount) }
    }
    pub fn is_native(&self, i: usize) -> bool {
        i < self.n_native
    }
    pub fn advance(&mut self, ns: u64, blocks: u64) {
        if ns > 0 || blocks > 0 {
            let t = now_ns(&self.app).saturating_add(ns);
            let h = height(&self.app).saturating_add(blocks);
            set_clock(&mut self.app, t, h);
            self.ns = self.ns.saturating_add(ns);
            self.blocks = self.blocks.saturating_add(blocks);
        }
    }

    /// messages (allowances + call) by which `who` provides `amounts` to a pair
    pub fn provide_msgs(&self, pairaddr: &str, assets: &[AssetInfo; 2], amounts: [u128; 2]) -> Vec<CosmosMsg> {
        let mut msgs = vec![];
        let mut funds = vec![];
        for k in 0..2 {
            match &assets[k] {
                AssetInfo::NativeToken { denom } => funds.push(coin(amounts[k], denom)),
                AssetInfo::Token { contract_addr } => msgs.push(wasm_exec(
                    contract_addr,
                    &cw20::Cw20ExecuteMsg::IncreaseAllowance {
                        spender: pairaddr.to_string(),
                        amount: Uint128::new(amounts[k]),
                        expires: None,
                    },
                    vec![],
                )),
            }
        }
        msgs.push(wasm_exec(
            pairaddr,
            &pair::ExecuteMsg::ProvideLiquidity {
                assets: [
                    Asset { info: assets[0].clone(), amount: Uint128::new(amounts[0]) },
                    Asset { info: assets[1].clone(), amount: Uint128::new(amounts[1]) },
                ],
                slippage_tolerance: None,
                receiver: None,
            },
            sorted_funds(funds),
        ));
        msgs
    }

    pub fn swap_msg(&self, pairaddr: &str, offer: &AssetInfo, amount: u128) -> CosmosMsg {
        match offer {
            AssetInfo::NativeToken { denom } => wasm_exec(
                pairaddr,
                &pair::ExecuteMsg::Swap {
                    offer_asset: Asset { info: offer.clone(), amount: Uint128::new(amount) },
                    belief_price: None,
                    max_spread: Some(dec("0.5")),
                    to: None,
                },
                vec![coin(amount, denom)],
            ),
            AssetInfo::Token { contract_addr } => wasm_exec(
                contract_addr,
                &cw20::Cw20ExecuteMsg::Send {
                    contract: pairaddr.to_string(),
                    amount: Uint128::new(amount),
                    msg: to_json_binary(&pair::Cw20HookMsg::Swap { belief_price: None, max_spread: Some(dec("0.5")), to: None }).unwrap(),
                },
                vec![],
            ),
        }
    }

    pub fn router_swap_msg(&self, ops: Vec<SwapOperation>, amount: u128, min_receive: Option<u128>, to: Option<String>) -> Option<CosmosMsg> {
        let first = match ops.first()? {
            SwapOperation::TerraSwap { offer_asset_info, .. } => offer_asset_info.clone(),
        };
        Some(match &first {
            AssetInfo::NativeToken { denom } => wasm_exec(
                &self.router,
                &router::ExecuteMsg::ExecuteSwapOperations {
                    operations: ops,
                    minimum_receive: min_receive.map(Uint128::new),
                    to,
                    max_spread: Some(dec("0.5")),
                },
                vec![coin(amount, denom)],
            ),
            AssetInfo::Token { contract_addr } => wasm_exec(
                contract_addr,
                &cw20::Cw20ExecuteMsg::Send {
                    contract: self.router.clone(),
                    amount: Uint128::new(amount),
                    msg: to_json_binary(&router::Cw20HookMsg::ExecuteSwapOperations {
                        operations: ops,
                        minimum_receive: min_receive.map(Uint128::new),
                        to,
                        max_spread: Some(dec("0.5")),
                    })
                    .unwrap(),
                },
                vec![],
            ),
        })
    }

    pub fn vault_deposit_msgs(&self, v: &VaultH, amount: u128) -> Vec<CosmosMsg> {
        match &v.asset {
            AssetInfo::NativeToken { denom } => vec![wasm_exec(
                &v.addr,
                &vault::ExecuteMsg::Deposit { amount: Uint128::new(amount) },
                vec![coin(amount, denom)],
            )],
            AssetInfo::Token { contract_addr } => vec![
                wasm_exec(
                    contract_addr,
                    &cw20::Cw20ExecuteMsg::IncreaseAllowance { spender: v.addr.clone(), amount: Uint128::new(amount), expires: None },
                    vec![],
                ),
                wasm_exec(&v.addr, &vault::ExecuteMsg::Deposit { amount: Uint128::new(amount) }, vec![]),
            ],
        }
    }

    pub fn pair_info(&self, a: &AssetInfo, b: &AssetInfo) -> Result<PairInfo, String> {
        query(&self.app, &self.pool_factory, &factory::QueryMsg::Pair { asset_infos: [a.clone(), b.clone()] })
    }
    pub fn trio_info(&self, a: &[AssetInfo; 3]) -> Result<TrioInfo, String> {
        query(&self.app, &self.pool_factory, &factory::QueryMsg::Trio { asset_infos: a.clone() })
    }

    /// Setup-time creation helpers (panic on failure): used by `build` only.
    pub fn setup_pair(&mut self, a: usize, b: usize, pair_type: PairType, liquidity: u128) {
        let infos = [self.assets[a].clone(), self.assets[b].clone()];
        must_exec(
            &mut self.app,
            OWNER,
            &self.pool_factory.clone(),
            &factory::ExecuteMsg::CreatePair {
                asset_infos: infos.clone(),
                pool_fees: pool_fee3(&default_pool_fees()),
                pair_type,
                token_factory_lp: false,
            },
            vec![],
        );
        let pi = self.pair_info(&infos[0], &infos[1]).expect("harness: pair info");
        let ph = PairH { addr: pi.contract_addr.clone(), lp: asset_id(&pi.liquidity_token), assets: infos.clone() };
        if liquidity > 0 {
            let msgs = self.provide_msgs(&ph.addr, &infos, [liquidity, liquidity]);
            let r = tx(&mut self.app, OWNER, msgs, Fault::None);
            if !r.outcome.is_ok() {
                panic!("harness: setup liquidity failed: {}", r.outcome.err_text());
            }
        }
        self.pairs.push(ph);
    }
    pub fn setup_trio(&mut self, idx: [usize; 3]) {
        let infos = [self.assets[idx[0]].clone(), self.assets[idx[1]].clone(), self.assets[idx[2]].clone()];
        must_exec(
            &mut self.app,
            OWNER,
            &self.pool_factory.clone(),
            &factory::ExecuteMsg::CreateTrio {
                asset_infos: infos.clone(),
                pool_fees: trio_fee3(&default_pool_fees()),
                amp_factor: 100,
                token_factory_lp: false,
            },
            vec![],
        );
        let ti = self.trio_info(&infos).expect("harness: trio info");
        self.trios.push(TrioH { addr: ti.contract_addr, lp: asset_id(&ti.liquidity_token), assets: infos });
    }
    pub fn setup_vault(&mut self, asset: AssetInfo, deposit: u128) {
        must_exec(
            &mut self.app,
            OWNER,
            &self.vault_factory.clone(),
            &vault_factory::ExecuteMsg::CreateVault { asset_info: asset.clone(), fees: vault_fee3(&default_vault_fees()), token_factory_lp: false },
            vec![],
        );
        let addr: Option<String> = query(&self.app, &self.vault_factory, &vault_factory::QueryMsg::Vault { asset_info: asset.clone() }).expect("harness: vault query");
        let addr = addr.expect("harness: vault registered");
        let cfg: vault::Config = query(&self.app, &addr, &vault::QueryMsg::Config {}).expect("harness: vault config");
        let vh = VaultH { addr, lp: asset_id(&cfg.lp_asset), asset };
        if deposit > 0 {
            let msgs = self.vault_deposit_msgs(&vh, deposit);
            let r = tx(&mut self.app, OWNER, msgs, Fault::None);
            if !r.outcome.is_ok() {
                panic!("harness: setup vault deposit failed: {}", r.outcome.err_text());
            }
        }
        self.vaults.push(vh);
    }

    pub fn build(o: &HubOpts) -> Hub {
        let nn = o.n_native.clamp(1, 4);
        let nc = o.n_cw20.clamp(0, 4);
        let mut holders: Vec<&str> = vec![OWNER, CREATOR, NEWOWNER, WADMIN];
        holders.extend_from_slice(&USERS);
        let mut bals: Vec<(&str, Vec<Coin>)> = vec![];
        for h in &holders {
            let mut cs = vec![];
            for d in NATIVES.iter().take(nn) {
                cs.push(coin(RICH, *d));
            }
            for d in BOND_DENOMS {
                cs.push(coin(RICH, d));
            }
            cs.push(coin(RICH, FACTORY_DENOM));
            bals.push((h, cs));
        }
        let mut app = new_app(&bals);
        let codes = Codes {
            token: app.store_code(code::token()),
            pair: app.store_code(code::pair()),
            trio: app.store_code(code::trio()),
            pool_factory: app.store_code(code::pool_factory()),
            router: app.store_code(code::pool_router()),
            vault: app.store_code(code::vault()),
            vault_factory: app.store_code(code::vault_factory()),
            vault_router: app.store_code(code::vault_router()),
            collector: app.store_code(code::fee_collector()),
            distributor: app.store_code(code::fee_distributor()),
            lair: app.store_code(code::whale_lair()),
            incentive: app.store_code(code::incentive()),
            incentive_factory: app.store_code(code::incentive_factory()),
            helper: app.store_code(code::frontend_helper()),
            epoch_manager: app.store_code(code::epoch_manager()),
            proxy: app.store_code(proxy_code()),
            pair_v2: app.store_code(pair_v2()),
            trio_v2: app.store_code(trio_v2()),
            vault_v2: app.store_code(vault_v2()),
            incentive_v2: app.store_code(incentive_v2()),
        };
        let mut assets: Vec<AssetInfo> = NATIVES.iter().take(nn).map(|d| native(d)).collect();
        let mut decimals: Vec<u8> = NATIVE_DECIMALS.iter().take(nn).copied().collect();
        for k in 0..nc {
            let b: Vec<(&str, u128)> = holders.iter().map(|h| (*h, RICH)).collect();
            let t = new_cw20(&mut app, codes.token, CW20_SYMBOLS[k], CW20_DECIMALS[k], OWNER, &b);
            assets.push(token(&t));
            decimals.push(CW20_DECIMALS[k]);
        }
        let adm = Some(WADMIN);
        let collector = must_instantiate(&mut app, codes.collector, OWNER, &fee_collector::InstantiateMsg {}, "fee_collector", adm);
        let pool_factory = must_instantiate(
            &mut app,
            codes.pool_factory,
            OWNER,
            &factory::InstantiateMsg { pair_code_id: codes.pair, trio_code_id: codes.trio, token_code_id: codes.token, fee_collector_addr: collector.clone() },
            "pool_factory",
            adm,
        );
        let router = must_instantiate(&mut app, codes.router, OWNER, &router::InstantiateMsg { terraswap_factory: pool_factory.clone() }, "pool_router", adm);
        let vault_factory = must_instantiate(
            &mut app,
            codes.vault_factory,
            // deployed by somebody else on behalf of the owner: the configured owner is the one named in the message
            DEPLOYER,
            &vault_factory::InstantiateMsg { owner: OWNER.to_string(), vault_id: codes.vault, token_id: codes.token, fee_collector_addr: collector.clone() },
            "vault_factory",
            adm,
        );
        let vault_router = must_instantiate(
            &mut app,
            codes.vault_router,
            DEPLOYER,
            &vault_router::InstantiateMsg { owner: OWNER.to_string(), vault_factory_addr: vault_factory.clone() },
            "vault_router",
            adm,
        );
        let lair = must_instantiate(
            &mut app,
            codes.lair,
            OWNER,
            &whale_lair::InstantiateMsg {
                unbonding_period: Uint64::new(1_000_000_000_000),
                growth_rate: dec("0.000000064"),
                bonding_assets: vec![native(BOND_DENOMS[0]), native(BOND_DENOMS[1])],
            },
            "whale_lair",
            adm,
        );
        let distributor = must_instantiate(
            &mut app,
            codes.distributor,
            OWNER,
            &fee_distributor::InstantiateMsg {
                bonding_contract_addr: lair.clone(),
                fee_collector_addr: collector.clone(),
                grace_period: Uint64::new(2),
                epoch_config: em::EpochConfig { duration: Uint64::new(DAY_NS), genesis_epoch: Uint64::new(GENESIS_TIME_NS) },
                distribution_asset: native("uwhale"),
            },
            "fee_distributor",
            adm,
        );
        // a look-alike: a second fee distributor instance, deployed by a stranger, whose configuration names the
        // hub's collector and lair exactly as the real one does; the collector is NOT configured with it
        let rogue_distributor = must_instantiate(
            &mut app,
            codes.distributor,
            USERS[0],
            &fee_distributor::InstantiateMsg {
                bonding_contract_addr: lair.clone(),
                fee_collector_addr: collector.clone(),
                grace_period: Uint64::new(2),
                epoch_config: em::EpochConfig { duration: Uint64::new(DAY_NS), genesis_epoch: Uint64::new(GENESIS_TIME_NS) },
                distribution_asset: native("uwhale"),
            },
            "fee_distributor_lookalike",
            None,
        );
        must_exec(
            &mut app,
            OWNER,
            &lair,
            &whale_lair::ExecuteMsg::UpdateConfig { owner: None, unbonding_period: None, growth_rate: None, fee_distributor_addr: Some(distributor.clone()) },
            vec![],
        );
        must_exec(
            &mut app,
            OWNER,
            &collector,
            &fee_collector::ExecuteMsg::UpdateConfig {
                owner: None,
                pool_router: Some(router.clone()),
                fee_distributor: Some(distributor.clone()),
                pool_factory: Some(pool_factory.clone()),
                vault_factory: Some(vault_factory.clone()),
                take_rate: Some(dec("0.1")),
                take_rate_dao_address: Some(DAO.to_string()),
                is_take_rate_active: Some(true),
            },
            vec![],
        );
        let incentive_factory = must_instantiate(
            &mut app,
            codes.incentive_factory,
            OWNER,
            &incentive_factory::InstantiateMsg {
                fee_collector_addr: collector.clone(),
                fee_distributor_addr: distributor.clone(),
                create_flow_fee: Asset { info: native("uwhale"), amount: Uint128::new(1_000) },
                max_concurrent_flows: 5,
                incentive_code_id: codes.incentive,
                max_flow_epoch_buffer: 14,
                min_unbonding_duration: 86_400,
                max_unbonding_duration: 31_536_000,
            },
            "incentive_factory",
            adm,
        );
        let helper = must_instantiate(&mut app, codes.helper, OWNER, &frontend_helper::InstantiateMsg { incentive_factory: incentive_factory.clone() }, "frontend_helper", adm);
        let epoch_manager = must_instantiate(
            &mut app,
            codes.epoch_manager,
            OWNER,
            &em::InstantiateMsg {
                start_epoch: em::EpochV2 { id: 0, start_time: Timestamp::from_nanos(GENESIS_TIME_NS) },
                epoch_config: em::EpochConfig { duration: Uint64::new(DAY_NS), genesis_epoch: Uint64::new(GENESIS_TIME_NS) },
            },
            "epoch_manager",
            adm,
        );
        let proxy = must_instantiate(&mut app, codes.proxy, OWNER, &Empty {}, "proxy", None);
        let proxy2 = must_instantiate(&mut app, codes.proxy, OWNER, &Empty {}, "proxy2", None);
        for k in 0..nn {
            must_exec(
                &mut app,
                OWNER,
                &pool_factory,
                &factory::ExecuteMsg::AddNativeTokenDecimals { denom: NATIVES[k].to_string(), decimals: NATIVE_DECIMALS[k] },
                vec![coin(1, NATIVES[k])],
            );
        }
        let mut h = Hub {
            app,
            codes,
            assets,
            decimals,
            n_native: nn,
            pool_factory,
            router,
            vault_factory,
            vault_router,
            collector,
            distributor,
            rogue_distributor,
            lair,
            incentive_factory,
            helper,
            epoch_manager,
            proxy,
            proxy2,
            pairs: vec![],
            trios: vec![],
            vaults: vec![],
            incentives: vec![],
            ns: 0,
            blocks: 0,
        };
        if o.children {
            h.setup_children();
        }
        h
    }

    /// `build`, with a setup failure (the panic of `must_exec` / `must_instantiate`) returned as text
    pub fn try_build(o: &HubOpts) -> Result<Hub, String> {
        std::panic::catch_unwind(std::panic::AssertUnwindSafe(|| Hub::build(o))).map_err(|_| last_panic())
    }

    /// an empty chain without contracts (placeholder after a failed setup; never driven)
    pub fn bare() -> Hub {
        Hub {
            app: new_app(&[]),
            codes: Codes::default(),
            assets: vec![],
            decimals: vec![],
            n_native: 0,
            pool_factory: String::new(),
            router: String::new(),
            vault_factory: String::new(),
            vault_router: String::new(),
            collector: String::new(),
            distributor: String::new(),
            rogue_distributor: String::new(),
            lair: String::new(),
            incentive_factory: String::new(),
            helper: String::new(),
            epoch_manager: String::new(),
            proxy: String::new(),
            proxy2: String::new(),
            pairs: vec![],
            trios: vec![],
            vaults: vec![],
            incentives: vec![],
            ns: 0,
            blocks: 0,
        }
    }

    /// index of the first cw20 of the universe (if any)
    pub fn first_cw20(&self) -> Option<usize> {
        if self.assets.len() > self.n_native {
            Some(self.n_native)
        } else {
            None
        }
    }

    fn setup_children(&mut self) {
        // pairs: (uwhale, uusdc), (uwhale, TKA) [or (uwhale, uatom) without cw20], trio, vaults
        let liq = 5_000_000_000u128;
        self.setup_pair(0, 1, PairType::ConstantProduct, liq);
        let second = self.first_cw20().unwrap_or(2);
        self.setup_pair(0, second, PairType::ConstantProduct, liq);
        let third = if self.assets.len() > second + 1 { second + 1 } else { 2 };
        self.setup_trio([1, 2.min(self.assets.len() - 1), third]);
        self.setup_vault(self.assets[0].clone(), 1_000_000_000);
        self.setup_vault(self.assets[second].clone(), 1_000_000_000);
        // incentive over the LP token of pair 0
        let lp0 = token(&self.pairs[0].lp);
        must_exec(
            &mut self.app,
            OWNER,
            &self.incentive_factory.clone(),
            &incentive_factory::ExecuteMsg::CreateIncentive { lp_asset: lp0.clone() },
            vec![],
        );
        let inc: Option<String> = query(&self.app, &self.incentive_factory, &incentive_factory::QueryMsg::Incentive { lp_asset: lp0.clone() }).expect("harness: incentive query");
        self.incentives.push((inc.expect("harness: incentive registered"), lp0));
        // routes towards the distribution asset
        let routes = vec![
            SwapRoute {
                offer_asset_info: self.assets[1].clone(),
                ask_asset_info: self.assets[0].clone(),
                swap_operations: vec![SwapOperation::TerraSwap { offer_asset_info: self.assets[1].clone(), ask_asset_info: self.assets[0].clone() }],
            },
            SwapRoute {
                offer_asset_info: self.assets[second].clone(),
                ask_asset_info: self.assets[0].clone(),
                swap_operations: vec![SwapOperation::TerraSwap { offer_asset_info: self.assets[second].clone(), ask_asset_info: self.assets[0].clone() }],
            },
        ];
        must_exec(&mut self.app, WADMIN, &self.router.clone(), &router::ExecuteMsg::AddSwapRoutes { swap_routes: routes }, vec![]);
        // first epoch of the distributor (at genesis)
        must_exec(&mut self.app, USERS[0], &self.distributor.clone(), &fee_distributor::ExecuteMsg::NewEpoch {}, vec![]);
        // one flow by CREATOR
        let m = self.open_flow_msg(10_000);
        let r = tx(&mut self.app, CREATOR, vec![m], Fault::None);
        if !r.outcome.is_ok() {
            panic!("harness: setup open flow failed: {}", r.outcome.err_text());
        }
        // one hook
        must_exec(&mut self.app, OWNER, &self.epoch_manager.clone(), &em::ExecuteMsg::AddHook { contract_addr: self.proxy2.clone() }, vec![]);
    }

    /// OpenFlow on incentive 0 paying the flow in asset 1 (uusdc) and the fee in uwhale
    pub fn open_flow_msg(&self, amount: u128) -> CosmosMsg {
        self.open_flow_msg_l(amount, None)
    }
    pub fn open_flow_msg_l(&self, amount: u128, label: Option<String>) -> CosmosMsg {
        wasm_exec(
            &self.incentives[0].0,
            &incentive::ExecuteMsg::OpenFlow {
                start_epoch: None,
                end_epoch: None,
                curve: None,
                flow_asset: Asset { info: self.assets[1].clone(), amount: Uint128::new(amount) },
                flow_label: label,
            },
            sorted_funds(vec![coin(amount, NATIVES[1]), coin(1_000, NATIVES[0])]),
        )
    }
}

/// raw JSON execute (used where a step records the message as JSON)
pub fn exec_json(contract: &str, msg: &Value, funds: Vec<Coin>) -> CosmosMsg {
    CosmosMsg::Wasm(WasmMsg::Execute {
        contract_addr: contract.to_string(),
        msg: Binary::from(serde_json::to_vec(msg).expect("harness: json")),
        funds,
    })
}
