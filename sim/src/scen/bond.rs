//! BOND: the real whale-lair (bonding) contract with >=3 users and 2 whitelisted bonding denoms.
//! Serves C08 "every bonded token is bonded, unbonding, or back with its owner".
//!
//! Bond/Unbond ask the fee distributor for the sender's claimable epochs and for the current epoch
//! (`whale_lair::helpers::validate_claimed`, `validate_bonding_for_current_epoch`), so the lair
//! needs a distributor. Three worlds, chosen per run:
//!  * `Real`     — the real fee_distributor + fee_collector + (empty) pool factory, vault factory and
//!                 router, wired like fee_collector's own integration test, so that `NewEpoch` works
//!                 and both regimes exist (no epoch yet / epochs running, claim-before-bond);
//!  * `Stub`     — a harness contract answering Config / CurrentEpoch / Claimable with settable
//!                 values (cheap way to reach the refusal paths and query faults);
//!  * `RepoMock` — the repo's fee-distributor-mock. It answers `Claimable` with `""`, which the lair
//!                 cannot parse, so every Bond/Unbond is refused; kept as a small share of the runs
//!                 ("refused => nothing changed").
//! Generation is in `bond_gen.rs`, the model and the oracles in `bond_oracle.rs`.

use std::str::FromStr;

use cosmwasm_schema::cw_serde;
use cosmwasm_std::{
    coin, to_json_binary, Addr, Binary, Coin, CosmosMsg, Decimal, Deps, DepsMut, Empty, Env,
    MessageInfo, Response, StdResult, Timestamp, Uint128, Uint64, WasmMsg,
};
use cw_multi_test::{Contract, ContractWrapper};
use cw_storage_plus::{Item, Map};
use serde::{Deserialize, Serialize};

use white_whale_std::epoch_manager::epoch_manager::EpochConfig;
use white_whale_std::fee_distributor as fd;
use white_whale_std::pool_network::asset::{Asset, AssetInfo};
use white_whale_std::whale_lair as lair;

use crate::core::{Ctx, Scenario, Tier};
use crate::rng::Rng;
use crate::scen::bond_oracle::{Model, Obs};
use crate::world::*;

pub const OWNER: &str = "owner";
pub const USERS: [&str; 5] = ["alice", "bobby", "carol", "david", "erin0"];
/// the two whitelisted bonding denoms
pub const DENOMS: [&str; 2] = ["uamp", "ubwh"];
/// a native denom that is NOT whitelisted (a look-alike of a whitelisted one: denoms are case sensitive)
pub const JUNK: &str = "uAMP"; // differs from the whitelisted "uamp" only in letter case
/// distribution asset of the fee distributor (unless `dist_is_bond0`)
pub const FEE: &str = "uwhale";
pub const DAY: u64 = 86_400_000_000_000;
pub const BLOCK_NS: u64 = 6_000_000_000;

// ---------------------------------------------------------------------------------------------
// harness stub of the fee distributor
// ---------------------------------------------------------------------------------------------

pub mod fdstub {
    use super::*;

    #[cw_serde]
    pub struct InstantiateMsg {
        pub lair: String,
        pub duration: u64,
        pub genesis: u64,
    }

    #[cw_serde]
    pub enum ExecuteMsg {
        SetEpoch { id: u64, start_ns: u64 },
        SetClaimable { address: String, n: u32 },
    }

    const CFG: Item<InstantiateMsg> = Item::new("cfg");
    const EPOCH: Item<(u64, u64)> = Item::new("epoch");
    const CLAIMABLE: Map<&Addr, u32> = Map::new("claimable");

    pub fn instantiate(deps: DepsMut, _env: Env, _info: MessageInfo, msg: InstantiateMsg) -> StdResult<Response> {
        CFG.save(deps.storage, &msg)?;
        EPOCH.save(deps.storage, &(0, 0))?;
        Ok(Response::default())
    }

    pub fn execute(deps: DepsMut, _env: Env, _info: MessageInfo, msg: ExecuteMsg) -> StdResult<Response> {
        match msg {
            ExecuteMsg::SetEpoch { id, start_ns } => EPOCH.save(deps.storage, &(id, start_ns))?,
            ExecuteMsg::SetClaimable { address, n } => CLAIMABLE.save(deps.storage, &Addr::unchecked(address), &n)?,
        }
        Ok(Response::default())
    }

    fn epoch(id: u64, start_ns: u64) -> fd::Epoch {
        fd::Epoch {
            id: Uint64::new(id),
            start_time: Timestamp::from_nanos(start_ns),
            total: vec![],
            available: vec![],
            claimed: vec![],
            global_index: Default::default(),
        }
    }

    pub fn query(deps: Deps, _env: Env, msg: fd::QueryMsg) -> StdResult<Binary> {
        let (id, start) = EPOCH.load(deps.storage)?;
        match msg {
            fd::QueryMsg::Config {} => {
                let c = CFG.load(deps.storage)?;
                to_json_binary(&fd::Config {
                    owner: Addr::unchecked(OWNER),
                    bonding_contract_addr: Addr::unchecked(c.lair),
                    fee_collector_addr: Addr::unchecked("collector"),
                    grace_period: Uint64::new(2),
                    epoch_config: EpochConfig {
                        duration: Uint64::new(c.duration),
                        genesis_epoch: Uint64::new(c.genesis),
                    },
                    distribution_asset: AssetInfo::NativeToken { denom: FEE.to_string() },
                })
            }
            fd::QueryMsg::CurrentEpoch {} => to_json_binary(&fd::EpochResponse { epoch: epoch(id, start) }),
            fd::QueryMsg::Epoch { id: q } => to_json_binary(&fd::EpochResponse {
                epoch: if q.u64() == id { epoch(id, start) } else { fd::Epoch::default() },
            }),
            fd::QueryMsg::ClaimableEpochs {} => to_json_binary(&fd::ClaimableEpochsResponse { epochs: vec![epoch(id, start)] }),
            fd::QueryMsg::Claimable { address } => {
                let n = CLAIMABLE.may_load(deps.storage, &Addr::unchecked(address))?.unwrap_or(0);
                to_json_binary(&fd::ClaimableEpochsResponse {
                    epochs: (0..n).map(|i| epoch(id.saturating_sub(i as u64), start)).collect(),
                })
            }
        }
    }

    pub fn code() -> Box<dyn Contract<Empty>> {
        faulty(Box::new(ContractWrapper::new(execute, instantiate, query)))
    }
}

// ---------------------------------------------------------------------------------------------
// configuration and steps
// ---------------------------------------------------------------------------------------------

#[derive(Serialize, Deserialize, Clone, Copy, Debug, PartialEq)]
#[serde(rename_all = "snake_case")]
pub enum FdKind {
    Real,
    Stub,
    RepoMock,
}

#[derive(Serialize, Deserialize, Clone, Debug)]
pub struct Cfg {
    pub fd: FdKind,
    pub n_users: usize,
    /// genesis balance of every user in each of the bonding denoms (and the junk / fee denoms)
    pub funds: u128,
    /// unbonding period in ns
    pub period: u64,
    /// growth rate of the bonding weight (decimal string, 0..=1)
    pub growth: String,
    pub epoch_duration: u64,
    /// distributor genesis = chain genesis + offset; None = far in the future (no epoch ever)
    pub fd_genesis_offset: Option<u64>,
    pub grace: u64,
    /// the distributor distributes bonding denom 0 instead of a separate fee denom
    pub dist_is_bond0: bool,
    pub max_steps: usize,
    pub faults: bool,
    /// bond, bond_invalid, unbond, unbond_invalid, withdraw, multi, series, new_epoch, feed, claim, stub
    pub weights: [u32; 11],
}

/// One message to the lair.
#[derive(Serialize, Deserialize, Clone, Debug, PartialEq)]
#[serde(rename_all = "snake_case")]
pub enum Msg {
    Bond {
        denom: String,
        amount: u128,
        /// coins attached to the message
        funds: Vec<(String, u128)>,
        /// declare the asset as a cw20 token with this address instead of a native denom
        cw20: bool,
    },
    Unbond {
        denom: String,
        amount: u128,
        cw20: bool,
    },
    Withdraw {
        denom: String,
    },
}

#[derive(Serialize, Deserialize, Clone, Debug, PartialEq)]
#[serde(rename_all = "snake_case")]
pub enum Op {
    /// ONE transaction of the actor carrying these messages (atomic, same timestamp)
    Lair { msgs: Vec<Msg> },
    /// `count` separate Unbond transactions, the clock moving `gap_ns` before each but the first
    UnbondSeries { denom: String, amount: u128, count: u32, gap_ns: u64 },
    /// `times` separate NewEpoch transactions on the distributor (real distributor)
    NewEpoch { times: u32 },
    /// the actor sends `amount` of the distribution asset to the fee collector (next epoch's fees)
    Feed { amount: u128 },
    /// the actor claims on the distributor
    Claim,
    StubEpoch { id: u64, start_ns: u64 },
    StubClaimable { user: usize, n: u32 },
}

#[derive(Serialize, Deserialize, Clone, Debug, PartialEq)]
pub struct Step {
    pub actor: usize,
    pub op: Op,
    pub adv_ns: u64,
    pub adv_blocks: u32,
    pub fault: Fault,
}

pub struct Bond {
    pub cfg: Cfg,
    pub app: SimApp,
    pub lair: String,
    pub fd: String,
    pub collector: String,
    pub dist_denom: String,
    pub m: Model,
    /// observation after the previous step
    pub last: Obs,
    /// `last` was taken at the current block time and after the last state change
    pub fresh: bool,
    pub elapsed_ns: u64,
    pub blocks: u64,
}

pub fn asset_of(denom: &str, amount: u128, cw20: bool) -> Asset {
    Asset {
        info: if cw20 {
            AssetInfo::Token { contract_addr: denom.to_string() }
        } else {
            AssetInfo::NativeToken { denom: denom.to_string() }
        },
        amount: Uint128::new(amount),
    }
}

impl Bond {
    pub fn user(&self, i: usize) -> &'static str {
        USERS[i % self.cfg.n_users]
    }
    pub fn uidx(&self, i: usize) -> usize {
        i % self.cfg.n_users
    }
    pub fn lair_msg(&self, m: &Msg) -> CosmosMsg {
        match m {
            Msg::Bond { denom, amount, funds, cw20 } => {
                let mut fs: Vec<Coin> = funds.iter().map(|(d, a)| coin(*a, d)).collect();
                fs.sort_by(|a, b| a.denom.cmp(&b.denom));
                wasm_exec(&self.lair, &lair::ExecuteMsg::Bond { asset: asset_of(denom, *amount, *cw20) }, fs)
            }
            Msg::Unbond { denom, amount, cw20 } => {
                wasm_exec(&self.lair, &lair::ExecuteMsg::Unbond { asset: asset_of(denom, *amount, *cw20) }, vec![])
            }
            Msg::Withdraw { denom } => wasm_exec(&self.lair, &lair::ExecuteMsg::Withdraw { denom: denom.clone() }, vec![]),
        }
    }
    pub fn advance(&mut self, ns: u64, blocks: u32) {
        if ns > 0 || blocks > 0 {
            let t = now_ns(&self.app).saturating_add(ns);
            let h = height(&self.app) + blocks as u64;
            set_clock(&mut self.app, t, h);
            self.elapsed_ns = self.elapsed_ns.saturating_add(ns);
            self.blocks += blocks as u64;
            self.fresh = false;
        }
    }
    /// (current epoch id, start ns) as the distributor reports it; None if the query fails
    pub fn fd_epoch(&self) -> Option<(u64, u64)> {
        let r: Result<fd::EpochResponse, String> = query(&self.app, &self.fd, &fd::QueryMsg::CurrentEpoch {});
        r.ok().map(|e| (e.epoch.id.u64(), e.epoch.start_time.nanos()))
    }
    /// number of epochs the distributor says `who` still has to claim; None if the query fails
    pub fn fd_claimable(&self, who: &str) -> Option<usize> {
        let r: Result<fd::ClaimableEpochsResponse, String> =
            query(&self.app, &self.fd, &fd::QueryMsg::Claimable { address: who.to_string() });
        r.ok().map(|c| c.epochs.len())
    }
    /// would `validate_bonding_for_current_epoch` let a bond/unbond through at `now`?
    pub fn bonding_open_at(&self, now: u64) -> Option<bool> {
        let (id, start) = self.fd_epoch()?;
        let (now_s, start_s) = (now / 1_000_000_000, start / 1_000_000_000);
        Some(id == 0 || (now_s >= start_s && now_s - start_s <= 86_400))
    }
}

fn geometric(rng: &mut Rng, min: usize, cap: usize, den: u64) -> usize {
    let mut n = min;
    while n < cap && !rng.chance(1, den) {
        n += 1;
    }
    n
}

impl Scenario for Bond {
    const NAME: &'static str = "BOND";
    type Cfg = Cfg;
    type Step = Step;

    fn gen_cfg(rng: &mut Rng, _prop: &str, tier: Tier, _idx: u64) -> Cfg {
        let fdk = match rng.below(20) {
            0 => FdKind::RepoMock,
            1..=6 => FdKind::Stub,
            _ => FdKind::Real,
        };
        let funds = match rng.below(if tier == Tier::Thorough { 5 } else { 4 }) {
            0 => 10_000,
            1 => 10u128.pow(12),
            2 => 10u128.pow(24),
            3 => rng.range128(1_000, 10u128.pow(15)),
            _ => 1u128 << 100,
        };
        let period = match rng.below(10) {
            0 => 1,
            1 => 1_000,
            2 => 1_000_000_000,
            3 => 3_600_000_000_000,
            4 => DAY,
            5 => DAY - 1,
            6 => 14 * DAY,
            7 => 1_000_000_000_000,
            8 => rng.range(1, 2 * DAY),
            _ => {
                if rng.chance(1, 4) {
                    0
                } else {
                    BLOCK_NS
                }
            }
        };
        let growth = rng.pick(&["0", "1", "0.5", "0.000001", "0.000000064", "1"]).to_string();
        let epoch_duration = *rng.pick(&[DAY, DAY, DAY + 1, 36 * 3_600_000_000_000, 7 * DAY]);
        let fd_genesis_offset = match rng.below(8) {
            0 | 1 => None,
            2 => Some(1),
            3 => Some(3_600_000_000_000),
            4 => Some(2 * DAY),
            _ => Some(0),
        };
        let mut weights = [22, 6, 18, 6, 16, 12, 3, 6, 3, 4, 0];
        for i in [1usize, 3, 5, 6, 8] {
            if rng.chance(1, 5) {
                weights[i] = 0;
            }
        }
        match fdk {
            FdKind::Real => {}
            FdKind::Stub => {
                weights[7] = 0;
                weights[8] = 0;
                weights[9] = 0;
                weights[10] = 6;
            }
            FdKind::RepoMock => {
                weights[7] = 2; // the mock accepts NewEpoch from anyone
                weights[8] = 0;
                weights[9] = 0;
            }
        }
        let cap = if tier == Tier::Thorough { 200 } else { 60 };
        Cfg {
            fd: fdk,
            n_users: rng.range(3, 5) as usize,
            funds,
            period,
            growth,
            epoch_duration,
            fd_genesis_offset,
            grace: rng.range(1, 4),
            dist_is_bond0: rng.chance(1, 4),
            max_steps: geometric(rng, 6, cap, 22),
            faults: rng.chance(1, 3),
            weights,
        }
    }

    fn max_steps(cfg: &Cfg) -> usize {
        cfg.max_steps
    }

    fn build(cfg: &Cfg, ctx: &mut Ctx) -> Self {
        let n = cfg.n_users;
        let mut bals: Vec<(&str, Vec<Coin>)> = vec![];
        for u in USERS.iter().take(n) {
            bals.push((
                u,
                vec![coin(cfg.funds, DENOMS[0]), coin(cfg.funds, DENOMS[1]), coin(cfg.funds, JUNK), coin(cfg.funds, FEE)],
            ));
        }
        let mut app = new_app(&bals);
        let lair_code = app.store_code(code::whale_lair());
        let bonding_assets = vec![native(DENOMS[0]), native(DENOMS[1])];
        let init = lair::InstantiateMsg {
            unbonding_period: Uint64::new(cfg.period),
            growth_rate: Decimal::from_str(&cfg.growth).unwrap(),
            bonding_assets: bonding_assets.clone(),
        };
        // "only whitelisted NATIVE assets": a lair whose whitelist contains a cw20 must not exist
        let r = tx(
            &mut app,
            OWNER,
            vec![CosmosMsg::Wasm(WasmMsg::Instantiate {
                admin: None,
                code_id: lair_code,
                msg: to_json_binary(&lair::InstantiateMsg {
                    bonding_assets: vec![native(DENOMS[0]), token("sometoken")],
                    ..init.clone()
                })
                .unwrap(),
                funds: vec![],
                label: "bad".into(),
            })],
            Fault::None,
        );
        ctx.eval("C08");
        if r.outcome.is_ok() {
            ctx.fail("C08", "cw20_whitelisted", "instantiate", None, "a lair with a cw20 token in its bonding whitelist was accepted".into());
        }
        let lair_addr = must_instantiate(&mut app, lair_code, OWNER, &init, "whale_lair", None);
        let genesis = match cfg.fd_genesis_offset {
            Some(o) => GENESIS_TIME_NS + o,
            None => GENESIS_TIME_NS + 3650 * DAY,
        };
        let dist_denom = if cfg.dist_is_bond0 { DENOMS[0] } else { FEE }.to_string();
        let mut collector = String::from("collector");
        let fd_addr = match cfg.fd {
            FdKind::Real => {
                let token_code = app.store_code(code::token());
                let pair_code = app.store_code(code::pair());
                let trio_code = app.store_code(code::trio());
                let pf_code = app.store_code(code::pool_factory());
                let router_code = app.store_code(code::pool_router());
                let vault_code = app.store_code(code::vault());
                let vf_code = app.store_code(code::vault_factory());
                let coll_code = app.store_code(code::fee_collector());
                let fd_code = app.store_code(code::fee_distributor());
                collector = must_instantiate(&mut app, coll_code, OWNER, &white_whale_std::fee_collector::InstantiateMsg {}, "fee_collector", None);
                let pool_factory = must_instantiate(
                    &mut app,
                    pf_code,
                    OWNER,
                    &white_whale_std::pool_network::factory::InstantiateMsg {
                        pair_code_id: pair_code,
                        trio_code_id: trio_code,
                        token_code_id: token_code,
                        fee_collector_addr: collector.clone(),
                    },
                    "pool_factory",
                    None,
                );
                let router = must_instantiate(
                    &mut app,
                    router_code,
                    OWNER,
                    &white_whale_std::pool_network::router::InstantiateMsg { terraswap_factory: pool_factory.clone() },
                    "pool_router",
                    None,
                );
                let vault_factory = must_instantiate(
                    &mut app,
                    vf_code,
                    OWNER,
                    &white_whale_std::vault_network::vault_factory::InstantiateMsg {
                        owner: OWNER.to_string(),
                        vault_id: vault_code,
                        token_id: token_code,
                        fee_collector_addr: collector.clone(),
                    },
                    "vault_factory",
                    None,
                );
                let fd_addr = must_instantiate(
                    &mut app,
                    fd_code,
                    OWNER,
                    &fd::InstantiateMsg {
                        bonding_contract_addr: lair_addr.clone(),
                        fee_collector_addr: collector.clone(),
                        grace_period: Uint64::new(cfg.grace),
                        epoch_config: EpochConfig {
                            duration: Uint64::new(cfg.epoch_duration),
                            genesis_epoch: Uint64::new(genesis),
                        },
                        distribution_asset: native(&dist_denom),
                    },
                    "fee_distributor",
                    None,
                );
                must_exec(
                    &mut app,
                    OWNER,
                    &collector,
                    &white_whale_std::fee_collector::ExecuteMsg::UpdateConfig {
                        owner: None,
                        pool_router: Some(router),
                        fee_distributor: Some(fd_addr.clone()),
                        pool_factory: Some(pool_factory),
                        vault_factory: Some(vault_factory),
                        take_rate: None,
                        take_rate_dao_address: None,
                        is_take_rate_active: None,
                    },
                    vec![],
                );
                fd_addr
            }
            FdKind::Stub => {
                let c = app.store_code(fdstub::code());
                must_instantiate(
                    &mut app,
                    c,
                    OWNER,
                    &fdstub::InstantiateMsg {
                        lair: lair_addr.clone(),
                        duration: cfg.epoch_duration,
                        genesis,
                    },
                    "fd_stub",
                    None,
                )
            }
            FdKind::RepoMock => {
                let c = app.store_code(code::fee_distributor_mock());
                must_instantiate(&mut app, c, OWNER, &Empty {}, "fd_mock", None)
            }
        };
        must_exec(
            &mut app,
            OWNER,
            &lair_addr,
            &lair::ExecuteMsg::UpdateConfig {
                owner: None,
                unbonding_period: None,
                growth_rate: None,
                fee_distributor_addr: Some(fd_addr.clone()),
            },
            vec![],
        );
        let mut s = Bond {
            cfg: cfg.clone(),
            app,
            lair: lair_addr,
            fd: fd_addr,
            collector,
            dist_denom,
            m: Model::new(n),
            last: Obs::default(),
            fresh: false,
            elapsed_ns: 0,
            blocks: 0,
        };
        match s.observe() {
            Ok(o) => s.last = o,
            Err(e) => {
                ctx.fail("C08", "query_failed", "after_setup", None, e);
                s.last = Obs::empty(n);
            }
        }
        s
    }

    fn gen_step(&mut self, rng: &mut Rng, ctx: &mut Ctx) -> Option<Step> {
        Some(crate::scen::bond_gen::gen_step(self, rng, ctx))
    }

    fn apply(&mut self, step: &Step, ctx: &mut Ctx) {
        crate::scen::bond_oracle::apply(self, step, ctx)
    }

    fn finish(&mut self, ctx: &mut Ctx) {
        crate::scen::bond_oracle::finish(self, ctx)
    }

    fn simplify(step: &Step) -> Vec<Step> {
        crate::scen::bond_gen::simplify(step)
    }

    fn sim_clock(&self) -> (u64, u64) {
        (self.elapsed_ns, self.blocks)
    }
}
