//! State-aware step generation for BOND. What is recorded is the concrete step.

use crate::core::Ctx;
use crate::rng::Rng;
use crate::scen::bond::*;
use crate::world::*;

fn pick_amount(rng: &mut Rng, max: u128) -> u128 {
    if max == 0 {
        return 0;
    }
    match rng.below(10) {
        0 => 1,
        1 => max,
        2 => (max / 2).max(1),
        3 => max.saturating_sub(1).max(1),
        4 => rng.range128(1, max.min(1000)),
        _ => rng.log_amount((max / 4).max(1)),
    }
}

fn bond_valid(s: &Bond, rng: &mut Rng, u: usize) -> Option<Msg> {
    let d0 = rng.idx(2);
    for k in 0..2 {
        let d = (d0 + k) % 2;
        let bal = s.last.user_bal[u][d];
        if bal > 0 {
            let a = pick_amount(rng, bal);
            return Some(Msg::Bond {
                denom: DENOMS[d].to_string(),
                amount: a,
                funds: vec![(DENOMS[d].to_string(), a)],
                cw20: false,
            });
        }
    }
    None
}

fn bond_invalid(s: &Bond, rng: &mut Rng, u: usize) -> Msg {
    let d = rng.idx(2);
    let o = 1 - d;
    let bal = s.last.user_bal[u][d].min(s.last.user_bal[u][o]).min(s.last.user_bal[u][2]).min(s.last.user_bal[u][3]);
    let a = pick_amount(rng, (bal / 4).max(2)).max(2);
    let dn = DENOMS[d].to_string();
    let on = DENOMS[o].to_string();
    let (denom, amount, funds, cw20) = match rng.below(12) {
        // a native denom that is not on the whitelist, funds and declaration agree
        0 | 1 => (JUNK.to_string(), a, vec![(JUNK.to_string(), a)], false),
        2 => (FEE.to_string(), a, vec![(FEE.to_string(), a)], false),
        // whitelisted denom, attached amount differs
        3 => (dn.clone(), a, vec![(dn.clone(), a + 1)], false),
        4 => (dn.clone(), a, vec![(dn.clone(), a - 1)], false),
        // the other whitelisted denom attached
        5 => (dn.clone(), a, vec![(on.clone(), a)], false),
        // two coins
        6 => (dn.clone(), a, vec![(dn.clone(), a), (on.clone(), a)], false),
        // nothing attached
        7 => (dn.clone(), a, vec![], false),
        // zero
        8 => (dn.clone(), 0, if rng.chance(1, 2) { vec![] } else { vec![(dn.clone(), 0)] }, false),
        // declared as a cw20 token
        9 => (if rng.chance(1, 2) { "sometoken".to_string() } else { dn.clone() }, a, vec![(dn.clone(), a)], true),
        // whitelisted declared, junk attached / junk declared, whitelisted attached
        10 => (dn.clone(), a, vec![(JUNK.to_string(), a)], false),
        _ => (JUNK.to_string(), a, vec![(dn.clone(), a)], false),
    };
    Msg::Bond { denom, amount, funds, cw20 }
}

fn unbond_valid(s: &Bond, rng: &mut Rng, u: usize) -> Option<Msg> {
    let d0 = rng.idx(2);
    for k in 0..2 {
        let d = (d0 + k) % 2;
        let b = s.m.bonded[u][d];
        if b > 0 {
            return Some(Msg::Unbond {
                denom: DENOMS[d].to_string(),
                amount: pick_amount(rng, b),
                cw20: false,
            });
        }
    }
    None
}

fn unbond_invalid(s: &Bond, rng: &mut Rng, u: usize) -> Msg {
    let d = rng.idx(2);
    let b = s.m.bonded[u][d];
    let dn = DENOMS[d].to_string();
    match rng.below(6) {
        0 | 1 => Msg::Unbond { denom: dn, amount: b.saturating_add(1), cw20: false },
        2 => Msg::Unbond { denom: dn, amount: 0, cw20: false },
        3 => Msg::Unbond { denom: dn, amount: b.max(1), cw20: true },
        4 => Msg::Unbond { denom: JUNK.to_string(), amount: b.max(1), cw20: false },
        _ => Msg::Unbond { denom: dn, amount: b.saturating_mul(2).saturating_add(rng.range128(1, 1000)), cw20: false },
    }
}

fn withdraw_msg(s: &Bond, rng: &mut Rng, u: usize) -> Msg {
    let d0 = rng.idx(2);
    if rng.chance(1, 12) {
        return Msg::Withdraw { denom: JUNK.to_string() };
    }
    for k in 0..2 {
        let d = (d0 + k) % 2;
        if !s.m.pending[u][d].is_empty() {
            return Msg::Withdraw { denom: DENOMS[d].to_string() };
        }
    }
    Msg::Withdraw { denom: DENOMS[d0].to_string() }
}

/// user with at least one pending record, preferring `u`
fn someone_unbonding(s: &Bond, rng: &mut Rng, u: usize) -> usize {
    let has = |i: usize| s.m.pending[i].iter().any(|p| !p.is_empty());
    if has(u) && rng.chance(2, 3) {
        return u;
    }
    let c: Vec<usize> = (0..s.cfg.n_users).filter(|i| has(*i)).collect();
    if c.is_empty() {
        u
    } else {
        *rng.pick(&c)
    }
}

fn multi(s: &Bond, rng: &mut Rng, u: usize) -> Vec<Msg> {
    let d = rng.idx(2);
    let dn = DENOMS[d].to_string();
    let b = s.m.bonded[u][d];
    let bal = s.last.user_bal[u][d];
    let unb = |a: u128| Msg::Unbond { denom: dn.clone(), amount: a, cw20: false };
    let bnd = |dd: usize, a: u128| Msg::Bond {
        denom: DENOMS[dd].to_string(),
        amount: a,
        funds: vec![(DENOMS[dd].to_string(), a)],
        cw20: false,
    };
    match rng.below(10) {
        // two / three unbonds of the same denom in one transaction (same timestamp)
        0 | 1 | 2 if b >= 2 => {
            let a = rng.range128(1, b / 2);
            let c = rng.range128(1, b - a);
            vec![unb(a), unb(c)]
        }
        3 if b >= 3 => {
            let a = rng.range128(1, b / 3);
            vec![unb(a), unb(a), unb(rng.range128(1, b - 2 * a))]
        }
        // bond and unbond at once
        4 if bal >= 1 => {
            let a = pick_amount(rng, bal);
            vec![bnd(d, a), unb(rng.range128(1, b.saturating_add(a)))]
        }
        // unbond and try to withdraw immediately
        5 if b >= 1 => vec![unb(pick_amount(rng, b)), Msg::Withdraw { denom: dn.clone() }],
        // both denoms
        6 => vec![Msg::Withdraw { denom: DENOMS[0].to_string() }, Msg::Withdraw { denom: DENOMS[1].to_string() }],
        7 if s.last.user_bal[u][0] >= 1 && s.last.user_bal[u][1] >= 1 => {
            vec![bnd(0, pick_amount(rng, s.last.user_bal[u][0])), bnd(1, pick_amount(rng, s.last.user_bal[u][1]))]
        }
        // a valid message followed by an invalid one: all or nothing
        8 if bal >= 1 => vec![bnd(d, pick_amount(rng, bal)), bond_invalid(s, rng, u)],
        _ => {
            let o = 1 - d;
            let mut v = vec![];
            if b >= 1 {
                v.push(unb(pick_amount(rng, b)));
            }
            if s.m.bonded[u][o] >= 1 {
                v.push(Msg::Unbond {
                    denom: DENOMS[o].to_string(),
                    amount: pick_amount(rng, s.m.bonded[u][o]),
                    cw20: false,
                });
            }
            if v.len() < 2 {
                v.push(withdraw_msg(s, rng, u));
            }
            if v.len() < 2 {
                v.push(Msg::Withdraw { denom: DENOMS[o].to_string() });
            }
            v
        }
    }
}

pub fn gen_step(s: &mut Bond, rng: &mut Rng, ctx: &mut Ctx) -> Step {
    let n = s.cfg.n_users;
    let now = now_ns(&s.app);
    let period = s.cfg.period;
    let mut actor = rng.idx(n);
    let ep = s.fd_epoch();

    // ---- clock alphabet ------------------------------------------------------------------
    // maturity instants still ahead (the actor's first, otherwise anybody's)
    let mut targets: Vec<u64> = vec![];
    for pass in 0..2 {
        for i in 0..n {
            if (pass == 0) != (i == actor) {
                continue;
            }
            for d in 0..2 {
                for ts in s.m.pending[i][d].keys() {
                    let t = *ts as u128 + period as u128;
                    if t > now as u128 && t < (u64::MAX / 4) as u128 {
                        targets.push(t as u64);
                    }
                }
            }
        }
        if !targets.is_empty() {
            break;
        }
    }
    let mut adv_ns: u64 = match rng.below(22) {
        0..=6 => 0,
        7 => 1,
        8 => BLOCK_NS,
        9 => period.saturating_sub(1),
        10 => period,
        11 => period.saturating_add(1),
        12 => period.saturating_mul(rng.range(2, 5)),
        13..=16 => {
            if targets.is_empty() {
                if rng.chance(1, 2) { 0 } else { BLOCK_NS }
            } else {
                let t = *rng.pick(&targets) - now;
                match rng.below(4) {
                    0 => t - 1,
                    1 | 2 => t,
                    _ => t + 1,
                }
            }
        }
        17 => match ep {
            // the distributor's epoch boundary
            Some((id, start)) if id > 0 => {
                let b = (start as u128 + s.cfg.epoch_duration as u128).saturating_sub(now as u128).min(40 * DAY as u128) as u64;
                match rng.below(3) {
                    0 => b.saturating_sub(1),
                    1 => b,
                    _ => b.saturating_add(1),
                }
            }
            _ => DAY,
        },
        18 => rng.range(1, 2 * DAY),
        19 => rng.range(1, 3) * BLOCK_NS,
        _ => 0,
    };
    adv_ns = adv_ns.min(80 * DAY);
    let adv_blocks = if adv_ns == 0 {
        0
    } else if rng.chance(1, 8) {
        0
    } else {
        (adv_ns / BLOCK_NS).clamp(1, 2_000_000) as u32
    };
    let now2 = now.saturating_add(adv_ns);

    let mut fault = Fault::None;
    let want_fault = s.cfg.faults && rng.chance(1, 7);

    // ---- keep the distributor in a state in which bonding is possible, most of the time ----
    let genesis_reached = s.cfg.fd_genesis_offset.map(|o| now2 >= GENESIS_TIME_NS + o).unwrap_or(false);
    if let Some((id, start)) = ep {
        let open = id == 0 || (now2 / 1_000_000_000 >= start / 1_000_000_000 && now2 / 1_000_000_000 - start / 1_000_000_000 <= 86_400);
        match s.cfg.fd {
            FdKind::Real => {
                let late: u64 = if id > 0 && now2 as u128 >= start as u128 + s.cfg.epoch_duration as u128 {
                    ((now2 - start) / s.cfg.epoch_duration).min(40)
                } else if id == 0 && genesis_reached {
                    1
                } else {
                    0
                };
                let p = if !open { 4 } else if late > 0 { 2 } else { 0 };
                if late > 0 && rng.chance(p, 5) {
                    if want_fault {
                        fault = match rng.below(3) {
                            0 => Fault::SubCall(rng.range(1, 10) as u32),
                            1 => Fault::Bank(1),
                            _ => Fault::Query(rng.range(1, 6) as u32),
                        };
                    }
                    let times = match rng.below(4) {
                        0 => late,
                        1 => 1,
                        _ => late + 1,
                    };
                    return Step { actor, op: Op::NewEpoch { times: times as u32 }, adv_ns, adv_blocks, fault };
                }
            }
            FdKind::Stub => {
                if !open && rng.chance(4, 5) {
                    let back = *rng.pick(&[0u64, 1, 1_000_000_000, DAY / 2, DAY - 1_000_000_000, DAY]);
                    return Step {
                        actor,
                        op: Op::StubEpoch { id: id + 1, start_ns: now2.saturating_sub(back) },
                        adv_ns,
                        adv_blocks,
                        fault,
                    };
                }
            }
            FdKind::RepoMock => {}
        }
    }
    let claimable = s.fd_claimable(s.user(actor)).unwrap_or(0);
    if claimable > 0 && rng.chance(2, 3) {
        match s.cfg.fd {
            FdKind::Real => {
                if want_fault {
                    fault = match rng.below(3) {
                        0 => Fault::SubCall(1),
                        1 => Fault::Bank(1),
                        _ => Fault::Query(rng.range(1, 3) as u32),
                    };
                }
                return Step { actor, op: Op::Claim, adv_ns, adv_blocks, fault };
            }
            FdKind::Stub => {
                return Step { actor, op: Op::StubClaimable { user: actor, n: 0 }, adv_ns, adv_blocks, fault };
            }
            FdKind::RepoMock => {}
        }
    }

    // ---- the operation ---------------------------------------------------------------------
    let nothing_bonded = s.m.bonded.iter().all(|b| b[0] == 0 && b[1] == 0);
    let mut kind = rng.weighted(&s.cfg.weights);
    if nothing_bonded && s.m.pending.iter().all(|p| p[0].is_empty() && p[1].is_empty()) && rng.chance(3, 4) {
        kind = 0;
    }
    let op = match kind {
        0 => match bond_valid(s, rng, actor) {
            Some(m) => Op::Lair { msgs: vec![m] },
            None => Op::Lair { msgs: vec![withdraw_msg(s, rng, actor)] },
        },
        1 => Op::Lair { msgs: vec![bond_invalid(s, rng, actor)] },
        2 => {
            // prefer somebody who has a bond
            if s.m.bonded[actor] == [0, 0] {
                let c: Vec<usize> = (0..n).filter(|i| s.m.bonded[*i] != [0, 0]).collect();
                if !c.is_empty() {
                    actor = *rng.pick(&c);
                }
            }
            match unbond_valid(s, rng, actor) {
                Some(m) => Op::Lair { msgs: vec![m] },
                None => match bond_valid(s, rng, actor) {
                    Some(m) => Op::Lair { msgs: vec![m] },
                    None => Op::Lair { msgs: vec![unbond_invalid(s, rng, actor)] },
                },
            }
        }
        3 => Op::Lair { msgs: vec![unbond_invalid(s, rng, actor)] },
        4 => {
            actor = someone_unbonding(s, rng, actor);
            Op::Lair { msgs: vec![withdraw_msg(s, rng, actor)] }
        }
        5 => {
            if s.m.bonded[actor] == [0, 0] {
                let c: Vec<usize> = (0..n).filter(|i| s.m.bonded[*i] != [0, 0]).collect();
                if !c.is_empty() {
                    actor = *rng.pick(&c);
                }
            }
            Op::Lair { msgs: multi(s, rng, actor) }
        }
        6 => {
            let c: Vec<(usize, usize)> = (0..n).flat_map(|i| (0..2).map(move |d| (i, d))).filter(|(i, d)| s.m.bonded[*i][*d] >= 4).collect();
            if c.is_empty() {
                match bond_valid(s, rng, actor) {
                    Some(m) => Op::Lair { msgs: vec![m] },
                    None => Op::Lair { msgs: vec![withdraw_msg(s, rng, actor)] },
                }
            } else {
                let (i, d) = *rng.pick(&c);
                actor = i;
                let b = s.m.bonded[i][d];
                let count = if b >= 40 && rng.chance(1, 3) { rng.range(31, 36) } else { rng.range(2, 6) } as u32;
                let amount = (b / (2 * count as u128)).max(1).min(b / count as u128).max(1);
                let gap_ns = *rng.pick(&[1u64, 1, 0, BLOCK_NS, 1_000]);
                Op::UnbondSeries { denom: DENOMS[d].to_string(), amount, count, gap_ns }
            }
        }
        7 => Op::NewEpoch { times: rng.range(1, 2) as u32 },
        8 => {
            let k = if s.cfg.dist_is_bond0 { 0 } else { 3 };
            let bal = s.last.user_bal[actor][k];
            let amount = match rng.below(4) {
                0 => rng.range128(1, 1000),
                1 => 1_000_000.min(bal / 8).max(1),
                _ => rng.log_amount((bal / 16).max(1)),
            };
            Op::Feed { amount }
        }
        9 => Op::Claim,
        _ => {
            if rng.chance(1, 2) {
                let (id, _) = ep.unwrap_or((0, 0));
                let start_ns = match rng.below(7) {
                    0 => now2,
                    1 => now2.saturating_sub(DAY),
                    2 => now2.saturating_sub(DAY + 1_000_000_000),
                    3 => now2.saturating_sub(DAY + 999_999_999),
                    4 => now2.saturating_sub(3 * DAY),
                    5 => now2.saturating_add(2_000_000_000), // an epoch that starts in the future
                    _ => now2.saturating_sub(rng.range(0, 2 * DAY)),
                };
                Op::StubEpoch { id: if rng.chance(1, 6) { 0 } else { id + 1 }, start_ns }
            } else {
                Op::StubClaimable { user: rng.idx(n), n: *rng.pick(&[0u32, 0, 1, 2]) }
            }
        }
    };
    if want_fault {
        fault = match &op {
            Op::Lair { msgs } => {
                let has_w = msgs.iter().any(|m| matches!(m, Msg::Withdraw { .. }));
                let has_b = msgs.iter().any(|m| !matches!(m, Msg::Withdraw { .. }));
                match rng.below(3) {
                    0 if has_w => Fault::Bank(rng.range(1, msgs.len() as u64) as u32),
                    1 if has_b => Fault::Query(rng.range(1, 4) as u32),
                    _ => {
                        if has_w {
                            Fault::Bank(1)
                        } else {
                            Fault::SubCall(rng.range(1, msgs.len() as u64) as u32)
                        }
                    }
                }
            }
            Op::UnbondSeries { .. } => Fault::Query(rng.range(1, 4) as u32),
            Op::NewEpoch { .. } => match rng.below(3) {
                0 => Fault::SubCall(rng.range(1, 10) as u32),
                1 => Fault::Bank(1),
                _ => Fault::Query(rng.range(1, 6) as u32),
            },
            Op::Claim => Fault::Bank(1),
            _ => Fault::None,
        };
    }
    let _ = ctx;
    Step { actor, op, adv_ns, adv_blocks, fault }
}

fn shr(x: u128) -> Vec<u128> {
    let mut v = vec![];
    if x > 1 {
        v.push(x / 2);
        let mut p = 1u128;
        while p <= x / 10 {
            p *= 10;
        }
        if p != x {
            v.push(p);
        }
        v.push(x - 1);
        v.push(1);
    }
    v
}

fn simplify_msg(m: &Msg) -> Vec<Msg> {
    let mut out = vec![];
    match m {
        Msg::Bond { denom, amount, funds, cw20 } => {
            if funds.len() == 1 && funds[0].1 == *amount {
                for a in shr(*amount) {
                    out.push(Msg::Bond {
                        denom: denom.clone(),
                        amount: a,
                        funds: vec![(funds[0].0.clone(), a)],
                        cw20: *cw20,
                    });
                }
            }
        }
        Msg::Unbond { denom, amount, cw20 } => {
            for a in shr(*amount) {
                out.push(Msg::Unbond { denom: denom.clone(), amount: a, cw20: *cw20 });
            }
        }
        Msg::Withdraw { .. } => {}
    }
    out
}

pub fn simplify(step: &Step) -> Vec<Step> {
    let mut out = vec![];
    if step.fault != Fault::None {
        out.push(Step { fault: Fault::None, ..step.clone() });
    }
    if step.adv_ns != 0 {
        out.push(Step { adv_ns: 0, adv_blocks: 0, ..step.clone() });
    }
    if step.adv_blocks != 0 {
        out.push(Step { adv_blocks: 0, ..step.clone() });
    }
    if step.actor != 0 {
        out.push(Step { actor: 0, ..step.clone() });
    }
    match &step.op {
        Op::Lair { msgs } => {
            if msgs.len() > 1 {
                for i in 0..msgs.len() {
                    let mut v = msgs.clone();
                    v.remove(i);
                    out.push(Step { op: Op::Lair { msgs: v }, ..step.clone() });
                }
            }
            for i in 0..msgs.len() {
                for alt in simplify_msg(&msgs[i]) {
                    let mut v = msgs.clone();
                    v[i] = alt;
                    out.push(Step { op: Op::Lair { msgs: v }, ..step.clone() });
                }
            }
        }
        Op::UnbondSeries { denom, amount, count, gap_ns } => {
            if *count > 1 {
                out.push(Step {
                    op: Op::UnbondSeries { denom: denom.clone(), amount: *amount, count: count - 1, gap_ns: *gap_ns },
                    ..step.clone()
                });
                out.push(Step {
                    op: Op::UnbondSeries { denom: denom.clone(), amount: *amount, count: (count / 2).max(1), gap_ns: *gap_ns },
                    ..step.clone()
                });
            } else {
                out.push(Step {
                    op: Op::Lair { msgs: vec![Msg::Unbond { denom: denom.clone(), amount: *amount, cw20: false }] },
                    ..step.clone()
                });
            }
            for a in shr(*amount) {
                out.push(Step {
                    op: Op::UnbondSeries { denom: denom.clone(), amount: a, count: *count, gap_ns: *gap_ns },
                    ..step.clone()
                });
            }
        }
        Op::NewEpoch { times } if *times > 1 => {
            out.push(Step { op: Op::NewEpoch { times: 1 }, ..step.clone() });
            out.push(Step { op: Op::NewEpoch { times: times - 1 }, ..step.clone() });
        }
        Op::Feed { amount } => {
            for a in shr(*amount) {
                out.push(Step { op: Op::Feed { amount: a }, ..step.clone() });
            }
        }
        _ => {}
    }
    out
}
