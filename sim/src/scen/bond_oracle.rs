//! Execution, exact model and oracles of BOND (property C08).
//!
//! Model: per user and bonding denom the bonded amount and the pending unbonding records
//! (timestamp -> amount). Ideal semantics, as the property states them: Bond moves exactly the
//! attached coins of a whitelisted native denom into `bonded`; Unbond moves `amount` from `bonded`
//! into a pending record stamped with the block time; a record matures at `timestamp + period`;
//! Withdraw pays the caller exactly his matured records among his 30 oldest ones (the contract's
//! documented page, `MAX_PAGE_LIMIT`), removes them and touches nobody else.
//!
//! Known defect D6: the contract keys records by (address, denom, block time) and *overwrites* an
//! existing record of the same key. Next to the ideal transition `predict(.., bug=false)` the
//! harness computes the bug-compatible one (`bug=true`: the older amount is dropped from the pending
//! set and remembered as `lost`). An observation that equals the ideal prediction is fine; one that
//! equals the bug-compatible prediction (and differs from the ideal) is classified D6 and the model
//! follows the contract; anything else is an ordinary violation. With the defect absent the
//! bug-compatible branch is simply never taken.

use std::collections::BTreeMap;

use white_whale_std::fee_distributor as fd;
use white_whale_std::pool_network::asset::AssetInfo;
use white_whale_std::whale_lair as lair;

use crate::core::Ctx;
use crate::scen::bond::*;
use crate::world::*;

/// print unexpected refusals of valid bond/unbond messages (development aid; keep off)
const DEBUG_REFUSALS: bool = false;
pub const PAGE: usize = 30;

#[derive(Clone, Debug, PartialEq, Default)]
pub struct Model {
    pub bonded: Vec<[u128; 2]>,
    pub pending: Vec<[BTreeMap<u64, u128>; 2]>,
    /// D6 bookkeeping: amounts of overwritten unbonding records (still held by the contract)
    pub lost: Vec<[u128; 2]>,
    pub unbonded_total: Vec<[u128; 2]>,
    pub withdrawn_total: Vec<[u128; 2]>,
}

impl Model {
    pub fn new(n: usize) -> Self {
        Model {
            bonded: vec![[0; 2]; n],
            pending: (0..n).map(|_| [BTreeMap::new(), BTreeMap::new()]).collect(),
            lost: vec![[0; 2]; n],
            unbonded_total: vec![[0; 2]; n],
            withdrawn_total: vec![[0; 2]; n],
        }
    }
    pub fn lost_total(&self, d: usize) -> u128 {
        self.lost.iter().fold(0u128, |a, l| a.saturating_add(l[d]))
    }
}

#[derive(Clone, Debug, PartialEq, Default)]
pub struct Obs {
    /// bank balances in DENOMS[0], DENOMS[1], JUNK, FEE
    pub lair_bal: [u128; 4],
    pub user_bal: Vec<[u128; 4]>,
    pub total_bonded: [u128; 2],
    pub total_scalar: u128,
    /// amount reported as bonded in any other asset
    pub total_foreign: u128,
    pub bonded: Vec<[u128; 2]>,
    pub bonded_scalar: Vec<u128>,
    pub bonded_foreign: Vec<u128>,
    pub pending: Vec<[BTreeMap<u64, u128>; 2]>,
    pub withdrawable: Vec<[u128; 2]>,
}

impl Obs {
    pub fn empty(n: usize) -> Self {
        Obs {
            user_bal: vec![[0; 4]; n],
            bonded: vec![[0; 2]; n],
            bonded_scalar: vec![0; n],
            bonded_foreign: vec![0; n],
            pending: (0..n).map(|_| [BTreeMap::new(), BTreeMap::new()]).collect(),
            withdrawable: vec![[0; 2]; n],
            ..Default::default()
        }
    }
}

const BAL_DENOMS: [&str; 4] = [DENOMS[0], DENOMS[1], JUNK, FEE];

fn split_assets(assets: &[white_whale_std::pool_network::asset::Asset]) -> ([u128; 2], u128) {
    let mut per = [0u128; 2];
    let mut foreign = 0u128;
    for a in assets {
        match &a.info {
            AssetInfo::NativeToken { denom } if denom == DENOMS[0] => per[0] = per[0].saturating_add(a.amount.u128()),
            AssetInfo::NativeToken { denom } if denom == DENOMS[1] => per[1] = per[1].saturating_add(a.amount.u128()),
            _ => foreign = foreign.saturating_add(a.amount.u128()),
        }
    }
    (per, foreign)
}

impl Bond {
    fn bals(&self, who: &str) -> [u128; 4] {
        let mut b = [0u128; 4];
        for (i, d) in BAL_DENOMS.iter().enumerate() {
            b[i] = self.app.wrap().query_balance(who, *d).map(|c| c.amount.u128()).unwrap_or(0);
        }
        b
    }

    pub fn observe(&self) -> Result<Obs, String> {
        let n = self.cfg.n_users;
        let mut o = Obs::empty(n);
        o.lair_bal = self.bals(&self.lair);
        let t: lair::BondedResponse =
            query(&self.app, &self.lair, &lair::QueryMsg::TotalBonded {}).map_err(|e| format!("TotalBonded query failed: {e}"))?;
        let (per, foreign) = split_assets(&t.bonded_assets);
        o.total_bonded = per;
        o.total_foreign = foreign;
        o.total_scalar = t.total_bonded.u128();
        for i in 0..n {
            let who = USERS[i];
            o.user_bal[i] = self.bals(who);
            let b: lair::BondedResponse = query(&self.app, &self.lair, &lair::QueryMsg::Bonded { address: who.to_string() })
                .map_err(|e| format!("Bonded({who}) query failed: {e}"))?;
            let (per, foreign) = split_assets(&b.bonded_assets);
            o.bonded[i] = per;
            o.bonded_foreign[i] = foreign;
            o.bonded_scalar[i] = b.total_bonded.u128();
            for d in 0..2 {
                let mut start_after: Option<u64> = None;
                for _page in 0..64 {
                    let r: lair::UnbondingResponse = query(
                        &self.app,
                        &self.lair,
                        &lair::QueryMsg::Unbonding {
                            address: who.to_string(),
                            denom: DENOMS[d].to_string(),
                            start_after,
                            limit: Some(PAGE as u8),
                        },
                    )
                    .map_err(|e| format!("Unbonding({who},{}) query failed: {e}", DENOMS[d]))?;
                    let mut sum = 0u128;
                    let mut last = start_after;
                    for rec in &r.unbonding_requests {
                        match &rec.asset.info {
                            AssetInfo::NativeToken { denom } if denom == DENOMS[d] => {}
                            other => return Err(format!("Unbonding({who},{}) lists a record of asset {other}", DENOMS[d])),
                        }
                        let ts = rec.timestamp.nanos();
                        let e = o.pending[i][d].entry(ts).or_insert(0);
                        *e = e.saturating_add(rec.asset.amount.u128());
                        sum = sum.saturating_add(rec.asset.amount.u128());
                        last = Some(last.map(|l| l.max(ts)).unwrap_or(ts));
                    }
                    if sum != r.total_amount.u128() {
                        return Err(format!(
                            "Unbonding({who},{}) reports total {} but its records add up to {sum}",
                            DENOMS[d], r.total_amount
                        ));
                    }
                    if r.unbonding_requests.len() < PAGE || last == start_after {
                        break;
                    }
                    start_after = last;
                }
                let w: lair::WithdrawableResponse = query(
                    &self.app,
                    &self.lair,
                    &lair::QueryMsg::Withdrawable {
                        address: who.to_string(),
                        denom: DENOMS[d].to_string(),
                    },
                )
                .map_err(|e| format!("Withdrawable({who},{}) query failed: {e}", DENOMS[d]))?;
                o.withdrawable[i][d] = w.withdrawable_amount.u128();
            }
        }
        Ok(o)
    }
}

pub fn denom_idx(d: &str) -> Option<usize> {
    DENOMS.iter().position(|x| *x == d)
}

pub fn is_matured(ts: u64, now: u64, period: u64) -> bool {
    now as u128 >= ts as u128 + period as u128
}

/// (sum, timestamps) of the matured records among the 30 oldest ones
pub fn matured_page(p: &BTreeMap<u64, u128>, now: u64, period: u64) -> (u128, Vec<u64>) {
    let mut sum = 0u128;
    let mut keys = vec![];
    for (ts, a) in p.iter().take(PAGE) {
        if is_matured(*ts, now, period) {
            sum = sum.saturating_add(*a);
            keys.push(*ts);
        }
    }
    (sum, keys)
}

#[derive(Clone, Debug)]
pub struct Pred {
    pub m: Model,
    /// balance change of the sender / of the lair per bonding denom
    pub user_delta: [i128; 2],
    pub lair_delta: [i128; 2],
    /// some unbond hit a timestamp that already carries a record of the same user and denom
    pub collision: bool,
    pub has_withdraw: bool,
    /// every message is a Withdraw with something matured to pay
    pub must_succeed: bool,
    /// some Withdraw has nothing matured (the zero transfer is expected to be refused)
    pub zero_withdraw: bool,
    pub paid_exactly_at_maturity: bool,
}

fn to_i(x: u128) -> i128 {
    i128::try_from(x).unwrap_or(i128::MAX)
}

/// Transition of the model under one transaction of user `u`. `Err(reason)`: a necessary
/// condition of the property is violated, so the transaction must not succeed.
pub fn predict(m: &Model, u: usize, msgs: &[Msg], now: u64, period: u64, bug: bool) -> Result<Pred, &'static str> {
    let mut p = Pred {
        m: m.clone(),
        user_delta: [0; 2],
        lair_delta: [0; 2],
        collision: false,
        has_withdraw: false,
        must_succeed: !msgs.is_empty(),
        zero_withdraw: false,
        paid_exactly_at_maturity: false,
    };
    for msg in msgs {
        match msg {
            Msg::Bond { denom, amount, funds, cw20 } => {
                p.must_succeed = false;
                if *cw20 {
                    return Err("cw20_asset_bonded");
                }
                let Some(d) = denom_idx(denom) else { return Err("non_whitelisted_denom_bonded") };
                if *amount == 0 {
                    return Err("zero_amount_bonded");
                }
                if funds.len() != 1 || funds[0].0 != *denom || funds[0].1 != *amount {
                    return Err("funds_differ_from_declared_asset");
                }
                p.m.bonded[u][d] = p.m.bonded[u][d].saturating_add(*amount);
                p.user_delta[d] = p.user_delta[d].saturating_sub(to_i(*amount));
                p.lair_delta[d] = p.lair_delta[d].saturating_add(to_i(*amount));
            }
            Msg::Unbond { denom, amount, cw20 } => {
                p.must_succeed = false;
                if *cw20 {
                    return Err("cw20_asset_unbonded");
                }
                let Some(d) = denom_idx(denom) else { return Err("non_whitelisted_denom_unbonded") };
                if *amount == 0 {
                    return Err("zero_amount_unbonded");
                }
                if *amount > p.m.bonded[u][d] {
                    return Err("unbonded_more_than_bonded");
                }
                p.m.bonded[u][d] -= *amount;
                p.m.unbonded_total[u][d] = p.m.unbonded_total[u][d].saturating_add(*amount);
                let old = p.m.pending[u][d].get(&now).copied().unwrap_or(0);
                if old > 0 {
                    p.collision = true;
                }
                if bug {
                    p.m.lost[u][d] = p.m.lost[u][d].saturating_add(old);
                    p.m.pending[u][d].insert(now, *amount);
                } else {
                    p.m.pending[u][d].insert(now, old.saturating_add(*amount));
                }
            }
            Msg::Withdraw { denom } => {
                p.has_withdraw = true;
                // nothing to pay (foreign denom, no record, nothing matured): the contract refuses
                // (its zero transfer is refused by the bank); a success that moves nothing would be
                // just as good for the property, so this is not a necessary condition
                let Some(d) = denom_idx(denom) else {
                    p.must_succeed = false;
                    p.zero_withdraw = true;
                    continue;
                };
                let (sum, keys) = matured_page(&p.m.pending[u][d], now, period);
                if sum == 0 {
                    p.must_succeed = false;
                    p.zero_withdraw = true;
                }
                for k in keys {
                    if k as u128 + period as u128 == now as u128 {
                        p.paid_exactly_at_maturity = true;
                    }
                    p.m.pending[u][d].remove(&k);
                }
                p.m.withdrawn_total[u][d] = p.m.withdrawn_total[u][d].saturating_add(sum);
                p.user_delta[d] = p.user_delta[d].saturating_add(to_i(sum));
                p.lair_delta[d] = p.lair_delta[d].saturating_sub(to_i(sum));
            }
        }
    }
    Ok(p)
}

fn add_delta(x: u128, d: i128) -> u128 {
    if d >= 0 {
        x.saturating_add(d as u128)
    } else {
        x.saturating_sub(d.unsigned_abs())
    }
}

/// First difference between the observation and a prediction: (check id, signature, detail).
fn compare(pre: &Obs, obs: &Obs, p: &Pred, u: usize) -> Option<(&'static str, &'static str, String)> {
    let n = obs.bonded.len();
    for i in 0..n {
        for d in 0..2 {
            if obs.bonded[i][d] != p.m.bonded[i][d] {
                return Some((
                    "bonded_mismatch",
                    if i == u { "sender" } else { "third_party" },
                    format!("{} has {} {} bonded, expected {}", USERS[i], obs.bonded[i][d], DENOMS[d], p.m.bonded[i][d]),
                ));
            }
            if obs.pending[i][d] != p.m.pending[i][d] {
                return Some((
                    "unbonding_mismatch",
                    if i == u { "sender" } else { "third_party" },
                    format!(
                        "{}'s unbonding records in {} are {:?}, expected {:?}",
                        USERS[i],
                        DENOMS[d],
                        tail(&obs.pending[i][d]),
                        tail(&p.m.pending[i][d])
                    ),
                ));
            }
        }
    }
    for i in 0..n {
        for k in 0..4 {
            let want = if i == u && k < 2 { add_delta(pre.user_bal[i][k], p.user_delta[k]) } else { pre.user_bal[i][k] };
            if obs.user_bal[i][k] != want {
                if i != u {
                    return Some((
                        "third_party_balance_moved",
                        "user",
                        format!("{}'s {} balance went {} -> {} in a transaction of {}", USERS[i], BAL_DENOMS[k], pre.user_bal[i][k], obs.user_bal[i][k], USERS[u]),
                    ));
                }
                return Some((
                    if p.has_withdraw { "payout_mismatch" } else { "balance_mismatch" },
                    "sender",
                    format!(
                        "{}'s {} balance went {} -> {}, expected {} (matured records of the page pay {})",
                        USERS[i],
                        BAL_DENOMS[k],
                        pre.user_bal[i][k],
                        obs.user_bal[i][k],
                        want,
                        if k < 2 { p.user_delta[k] } else { 0 }
                    ),
                ));
            }
        }
    }
    for k in 0..4 {
        let want = if k < 2 { add_delta(pre.lair_bal[k], p.lair_delta[k]) } else { pre.lair_bal[k] };
        if obs.lair_bal[k] != want {
            return Some((
                if p.has_withdraw { "payout_mismatch" } else { "balance_mismatch" },
                "contract",
                format!("the lair's {} balance went {} -> {}, expected {}", BAL_DENOMS[k], pre.lair_bal[k], obs.lair_bal[k], want),
            ));
        }
    }
    None
}

fn tail(m: &BTreeMap<u64, u128>) -> Vec<(u64, u128)> {
    let v: Vec<(u64, u128)> = m.iter().map(|(a, b)| (*a, *b)).collect();
    let k = v.len().saturating_sub(4);
    v[k..].to_vec()
}

fn note_fault(ctx: &mut Ctx, r: &TxResult, fault: Fault) {
    if r.fault_fired {
        ctx.fault(match fault {
            Fault::SubCall(_) => "F1_subcall",
            Fault::Bank(_) => "F2_bank",
            _ => "F3_query",
        });
    }
}

fn refusal_probe(ctx: &mut Ctx, e: &str) {
    let table: [(&str, &str); 9] = [
        ("The asset sent doesn't match the asset expected", "refused_asset_mismatch"),
        ("There are unclaimed rewards available", "refused_unclaimed_rewards"),
        ("before the new/latest epoch has been created", "refused_new_epoch_not_created_yet"),
        ("greater than the amount of tokens bonded", "refused_insufficient_bond"),
        ("to unbond must be greater than zero", "refused_zero_unbond"),
        ("Can only bond native assets", "refused_cw20_asset"),
        ("Nothing to unbond", "refused_nothing_to_unbond"),
        ("Nothing to withdraw", "refused_nothing_to_withdraw"),
        ("Cannot transfer empty coins amount", "refused_zero_transfer"),
    ];
    for (needle, probe) in table {
        if e.contains(needle) {
            ctx.probe(probe);
            return;
        }
    }
}

/// The property's own equations, evaluated on the observation alone (plus the D6 bookkeeping).
fn invariants(s: &Bond, ctx: &mut Ctx, d6_this_step: bool, when: &str) {
    let o = &s.last;
    let n = o.bonded.len();
    ctx.eval("C08");
    // the model and the contract agree on every user's bonds and records (also after steps that do
    // not address the lair)
    for i in 0..n {
        for d in 0..2 {
            if o.bonded[i][d] != s.m.bonded[i][d] || o.pending[i][d] != s.m.pending[i][d] {
                ctx.fail(
                    "C08",
                    "model_divergence",
                    when,
                    None,
                    format!(
                        "{} {}: bonded {} / records {:?}, model {} / {:?}",
                        USERS[i],
                        DENOMS[d],
                        o.bonded[i][d],
                        tail(&o.pending[i][d]),
                        s.m.bonded[i][d],
                        tail(&s.m.pending[i][d])
                    ),
                );
                return;
            }
        }
    }
    for d in 0..2 {
        // balance = total bonded + all pending unbondings
        let pend = o.pending.iter().fold(0u128, |a, p| p[d].values().fold(a, |a, x| a.saturating_add(*x)));
        let claimed = o.total_bonded[d].saturating_add(pend);
        if o.lair_bal[d] != claimed {
            let lost = s.m.lost_total(d);
            let explained = lost > 0 && o.lair_bal[d] > claimed && o.lair_bal[d] - claimed == lost;
            if explained {
                if d6_this_step {
                    ctx.fail(
                        "C08",
                        "conservation",
                        "same_timestamp_unbond_overwritten",
                        Some("D6"),
                        format!(
                            "the lair holds {} {} but reports {} bonded + {} unbonding; the difference {} is exactly the amount of unbonding records overwritten by a later unbond of the same user at the same block time",
                            o.lair_bal[d], DENOMS[d], o.total_bonded[d], pend, lost
                        ),
                    );
                }
            } else {
                ctx.fail(
                    "C08",
                    "conservation",
                    when,
                    None,
                    format!(
                        "the lair holds {} {} but reports {} bonded + {} unbonding (overwritten records known to the model: {lost})",
                        o.lair_bal[d], DENOMS[d], o.total_bonded[d], pend
                    ),
                );
                return;
            }
        }
        // global total = sum of the users' bonds
        let sum = o.bonded.iter().fold(0u128, |a, b| a.saturating_add(b[d]));
        if o.total_bonded[d] != sum {
            ctx.fail(
                "C08",
                "total_vs_sum",
                "per_denom",
                None,
                format!("TotalBonded reports {} {} but the users' bonds add up to {sum}", o.total_bonded[d], DENOMS[d]),
            );
            return;
        }
    }
    let all = o.total_bonded[0].saturating_add(o.total_bonded[1]);
    if o.total_scalar != all || o.total_foreign != 0 {
        ctx.fail(
            "C08",
            "total_vs_sum",
            "scalar",
            None,
            format!("TotalBonded.total_bonded = {} but its assets add up to {all} (+{} in other assets)", o.total_scalar, o.total_foreign),
        );
        return;
    }
    for i in 0..n {
        if o.bonded_scalar[i] != o.bonded[i][0].saturating_add(o.bonded[i][1]) || o.bonded_foreign[i] != 0 {
            ctx.fail(
                "C08",
                "total_vs_sum",
                "user_scalar",
                None,
                format!("Bonded({}).total_bonded = {} but its assets are {:?} (+{} in other assets)", USERS[i], o.bonded_scalar[i], o.bonded[i], o.bonded_foreign[i]),
            );
            return;
        }
    }
    // nothing but the bonding denoms is ever kept
    if o.lair_bal[2] != 0 {
        ctx.fail("C08", "non_whitelisted_held", when, None, format!("the lair holds {} {JUNK}", o.lair_bal[2]));
        return;
    }
    // the Withdrawable query announces what Withdraw would pay now
    let now = now_ns(&s.app);
    for i in 0..n {
        for d in 0..2 {
            let (want, _) = matured_page(&s.m.pending[i][d], now, s.cfg.period);
            if o.withdrawable[i][d] != want {
                ctx.fail(
                    "C08",
                    "withdrawable_query",
                    if o.withdrawable[i][d] > want { "too_much" } else { "too_little" },
                    None,
                    format!(
                        "Withdrawable({},{}) = {} at {now}, the matured records of the page add up to {want} (period {}, records {:?})",
                        USERS[i],
                        DENOMS[d],
                        o.withdrawable[i][d],
                        s.cfg.period,
                        tail(&s.m.pending[i][d])
                    ),
                );
                return;
            }
        }
    }
}

fn state_key(s: &Bond) -> String {
    let mut k = format!("{:?}{:?}", s.last.lair_bal, s.m.bonded);
    for p in &s.m.pending {
        k.push_str(&format!("{}/{}:", p[0].len(), p[1].len()));
        for d in 0..2 {
            k.push_str(&format!("{}", p[d].values().fold(0u128, |a, x| a.saturating_add(*x))));
        }
    }
    k
}

/// One transaction of `actor` to the lair. Returns whether it succeeded.
pub fn exec_lair(s: &mut Bond, ctx: &mut Ctx, actor: usize, msgs: &[Msg], fault: Fault, opname: &str) -> bool {
    let u = s.uidx(actor);
    let who = USERS[u];
    let now = now_ns(&s.app);
    let period = s.cfg.period;
    let ideal = predict(&s.m, u, msgs, now, period, false);
    let bugp = predict(&s.m, u, msgs, now, period, true);
    let pre = s.last.clone();
    let fp0 = fingerprint(&s.app);
    let cos: Vec<_> = msgs.iter().map(|m| s.lair_msg(m)).collect();
    let r = tx(&mut s.app, who, cos, fault);
    note_fault(ctx, &r, fault);
    ctx.op(opname, r.outcome.kind());
    ctx.trace(&format!("{opname}:{u}:{}:{}", r.outcome.kind(), r.fault_fired));
    ctx.eval("C08");
    if let Ok(p) = &ideal {
        if p.collision {
            ctx.probe("same_timestamp_unbond_attempted");
        }
    }
    match &r.outcome {
        Outcome::Ok(_) => {
            if r.fault_fired {
                ctx.fail("C08", "fault_swallowed", opname, None, "the transaction succeeded although one of its sub-calls, transfers or queries failed".into());
                return true;
            }
            let obs = match s.observe() {
                Ok(o) => o,
                Err(e) => {
                    ctx.fail("C08", "query_failed", opname, None, e);
                    return true;
                }
            };
            let p = match ideal {
                Ok(p) => p,
                Err(reason) => {
                    ctx.fail(
                        "C08",
                        "accepted_invalid",
                        reason,
                        None,
                        format!("{who}'s transaction {:?} was accepted ({reason}); bonded before: {:?}", msgs, s.m.bonded[u]),
                    );
                    s.last = obs;
                    return true;
                }
            };
            let mut d6 = false;
            match compare(&pre, &obs, &p, u) {
                None => s.m = p.m.clone(),
                Some((check, sig, detail)) => {
                    let bug_ok = match &bugp {
                        Ok(pb) => pb.m != p.m && compare(&pre, &obs, pb, u).is_none(),
                        Err(_) => false,
                    };
                    if bug_ok {
                        // exactly what the overwrite defect predicts: follow the contract
                        s.m = bugp.unwrap().m;
                        d6 = true;
                        ctx.probe("d6_record_overwritten");
                    } else {
                        ctx.fail("C08", check, sig, None, format!("{opname} by {who} {:?} at {now}: {detail}", msgs));
                        s.last = obs;
                        return true;
                    }
                }
            }
            s.last = obs;
            s.fresh = true;
            // probes
            let epochs_running = s.fd_epoch().map(|e| e.0 > 0).unwrap_or(false);
            for m in msgs {
                match m {
                    Msg::Bond { .. } => ctx.probe(if epochs_running { "bond_ok_epochs_running" } else { "bond_ok_no_epoch" }),
                    Msg::Unbond { .. } => ctx.probe(if epochs_running { "unbond_ok_epochs_running" } else { "unbond_ok_no_epoch" }),
                    Msg::Withdraw { .. } => ctx.probe("withdraw_paid"),
                }
            }
            if p.collision {
                ctx.probe("same_timestamp_unbond_accepted");
            }
            if p.paid_exactly_at_maturity {
                ctx.probe("withdraw_exactly_at_maturity");
            }
            if msgs.len() > 1 {
                ctx.probe("multi_message_tx_ok");
            }
            if s.m.pending[u].iter().any(|p| p.len() > PAGE) {
                ctx.probe("more_than_one_page_of_records");
            }
            invariants(s, ctx, d6, opname);
            if !ctx.stopped() {
                ctx.state_of(&state_key(s));
            }
            true
        }
        bad => {
            let e = bad.err_text();
            if fingerprint(&s.app) != fp0 {
                ctx.fail("C08", "rejected_changed_state", opname, None, format!("a failed transaction changed the chain state: {e}"));
                return false;
            }
            refusal_probe(ctx, &e);
            if DEBUG_REFUSALS && e.contains("PANIC") { eprintln!("panic: {:?} {e}", msgs); }
            if msgs.len() > 1 {
                ctx.probe("multi_message_tx_reverted");
            }
            if let Ok(p) = &ideal {
                if p.must_succeed && !r.fault_fired {
                    ctx.fail(
                        "C08",
                        "withdraw_refused",
                        "matured_not_withdrawable",
                        None,
                        format!(
                            "{who}'s {:?} at {now} was refused although matured records are pending (period {period}, records {:?}): {e}",
                            msgs,
                            msgs.iter()
                                .filter_map(|m| if let Msg::Withdraw { denom } = m { denom_idx(denom) } else { None })
                                .map(|d| tail(&s.m.pending[u][d]))
                                .collect::<Vec<_>>()
                        ),
                    );
                    return false;
                }
                if p.zero_withdraw {
                    // was it one nanosecond early?
                    for m in msgs {
                        if let Msg::Withdraw { denom } = m {
                            if let Some(d) = denom_idx(denom) {
                                if s.m.pending[u][d].keys().any(|ts| *ts as u128 + period as u128 == now as u128 + 1) {
                                    ctx.probe("withdraw_refused_1ns_before_maturity");
                                }
                            }
                        }
                    }
                    ctx.probe("withdraw_refused_before_maturity");
                } else if !p.must_succeed && !r.fault_fired {
                    // a bond/unbond that satisfies every condition of the property was refused: the
                    // property does not promise acceptance, so this is counted, not reported
                    let open = s.bonding_open_at(now);
                    let claim = s.fd_claimable(who);
                    if open == Some(true) && claim == Some(0) {
                        ctx.probe("valid_bond_or_unbond_refused");
                        if DEBUG_REFUSALS {
                            eprintln!("refused: {:?} by {who}: {e}", msgs);
                        }
                    }
                }
            }
            false
        }
    }
}

/// A transaction that does not address the lair: it must leave the lair's books and balances alone.
fn exec_other(s: &mut Bond, ctx: &mut Ctx, who: &str, msg: cosmwasm_std::CosmosMsg, fault: Fault, opname: &str) -> bool {
    let pre = s.last.clone();
    let fp0 = fingerprint(&s.app);
    let r = tx(&mut s.app, who, vec![msg], fault);
    note_fault(ctx, &r, fault);
    ctx.op(opname, r.outcome.kind());
    ctx.trace(&format!("{opname}:{who}:{}:{}", r.outcome.kind(), r.fault_fired));
    if r.outcome.is_ok() {
        if r.fault_fired {
            ctx.fail("C10", "fault_swallowed", opname, None, "succeeded although a sub-call failed".into());
        }
        match s.observe() {
            Ok(o) => s.last = o,
            Err(e) => {
                ctx.fail("C08", "query_failed", opname, None, e);
                return true;
            }
        }
        s.fresh = true;
        if s.last.lair_bal != pre.lair_bal {
            ctx.fail(
                "C08",
                "lair_balance_moved",
                opname,
                None,
                format!("{opname} changed the lair's balances {:?} -> {:?}", pre.lair_bal, s.last.lair_bal),
            );
            return true;
        }
        invariants(s, ctx, false, opname);
        true
    } else {
        if fingerprint(&s.app) != fp0 {
            ctx.fail("C10", "rejected_changed_state", opname, None, r.outcome.err_text());
        }
        false
    }
}

pub fn apply(s: &mut Bond, step: &Step, ctx: &mut Ctx) {
    if step.adv_ns == 0 && step.adv_blocks == 0 {
        ctx.probe("same_block_step");
    }
    s.advance(step.adv_ns, step.adv_blocks);
    let who = s.user(step.actor);
    match &step.op {
        Op::Lair { msgs } => {
            let name = if msgs.len() > 1 {
                "lair_multi"
            } else {
                match msgs.first() {
                    Some(Msg::Bond { .. }) => "bond",
                    Some(Msg::Unbond { .. }) => "unbond",
                    Some(Msg::Withdraw { .. }) => "withdraw",
                    None => "empty",
                }
            };
            if msgs.is_empty() {
                ctx.trace("empty");
            } else {
                exec_lair(s, ctx, step.actor, msgs, step.fault, name);
            }
        }
        Op::UnbondSeries { denom, amount, count, gap_ns } => {
            for i in 0..*count {
                if i > 0 {
                    s.advance(*gap_ns, if *gap_ns > 0 { 1 } else { 0 });
                }
                let f = if i == 0 { step.fault } else { Fault::None };
                let ok = exec_lair(
                    s,
                    ctx,
                    step.actor,
                    &[Msg::Unbond {
                        denom: denom.clone(),
                        amount: *amount,
                        cw20: false,
                    }],
                    f,
                    "unbond",
                );
                if ctx.stopped() {
                    return;
                }
                if !ok && i > 0 {
                    break;
                }
            }
        }
        Op::NewEpoch { times } => {
            if s.cfg.fd == FdKind::Stub {
                ctx.trace("noop");
            } else {
                for i in 0..*times {
                    let f = if i == 0 { step.fault } else { Fault::None };
                    let fd_addr = s.fd.clone();
                    let ok = exec_other(s, ctx, who, wasm_exec(&fd_addr, &fd::ExecuteMsg::NewEpoch {}, vec![]), f, "new_epoch");
                    if ctx.stopped() {
                        return;
                    }
                    if ok {
                        ctx.probe("new_epoch_created");
                    } else if i > 0 {
                        break;
                    }
                }
            }
        }
        Op::Feed { amount } => {
            if s.cfg.fd != FdKind::Real {
                ctx.trace("noop");
            } else {
                let (c, d) = (s.collector.clone(), s.dist_denom.clone());
                exec_other(s, ctx, who, bank_send(&c, *amount, &d), Fault::None, "feed_collector");
            }
        }
        Op::Claim => {
            if s.cfg.fd != FdKind::Real {
                ctx.trace("noop");
            } else {
                let fd_addr = s.fd.clone();
                if exec_other(s, ctx, who, wasm_exec(&fd_addr, &fd::ExecuteMsg::Claim {}, vec![]), step.fault, "claim") {
                    ctx.probe("claimed_rewards");
                }
            }
        }
        Op::StubEpoch { id, start_ns } => {
            if s.cfg.fd != FdKind::Stub {
                ctx.trace("noop");
            } else {
                let fd_addr = s.fd.clone();
                exec_other(s, ctx, who, wasm_exec(&fd_addr, &fdstub::ExecuteMsg::SetEpoch { id: *id, start_ns: *start_ns }, vec![]), Fault::None, "stub_epoch");
            }
        }
        Op::StubClaimable { user, n } => {
            if s.cfg.fd != FdKind::Stub {
                ctx.trace("noop");
            } else {
                let fd_addr = s.fd.clone();
                let target = s.user(*user).to_string();
                exec_other(s, ctx, who, wasm_exec(&fd_addr, &fdstub::ExecuteMsg::SetClaimable { address: target, n: *n }, vec![]), Fault::None, "stub_claimable");
            }
        }
    }
    if ctx.stopped() || s.fresh {
        return;
    }
    // time may have moved without any successful transaction: the Withdrawable announcements and
    // the books are re-read at the new block time
    match s.observe() {
        Ok(o) => s.last = o,
        Err(e) => {
            ctx.fail("C08", "query_failed", "after_step", None, e);
            return;
        }
    }
    invariants(s, ctx, false, "after_step");
}

/// End of run (faults off): past the unbonding period every user gets every unbonded amount back
/// with a bounded number of Withdraw calls, exactly once, and what remains equals what is bonded.
pub fn finish(s: &mut Bond, ctx: &mut Ctx) {
    let n = s.cfg.n_users;
    let jump = s.cfg.period.saturating_add(1);
    if now_ns(&s.app).saturating_add(jump) > u64::MAX / 2 {
        return;
    }
    s.advance(jump, 1);
    match s.observe() {
        Ok(o) => s.last = o,
        Err(e) => {
            ctx.fail("C08", "query_failed", "finish", None, e);
            return;
        }
    }
    let mut any = false;
    for u in 0..n {
        for d in 0..2 {
            let records = s.m.pending[u][d].len();
            if records == 0 {
                continue;
            }
            any = true;
            let max_calls = (records + PAGE - 1) / PAGE;
            let mut calls = 0;
            while !s.m.pending[u][d].is_empty() && calls < max_calls {
                let ok = exec_lair(s, ctx, u, &[Msg::Withdraw { denom: DENOMS[d].to_string() }], Fault::None, "withdraw");
                if ctx.stopped() {
                    return;
                }
                calls += 1;
                if !ok {
                    break;
                }
            }
            if !s.m.pending[u][d].is_empty() {
                ctx.fail(
                    "C08",
                    "liveness",
                    "records_left_after_period",
                    None,
                    format!("{} still has {} unbonding records in {} after {calls} withdrawals past the period", USERS[u], s.m.pending[u][d].len(), DENOMS[d]),
                );
                return;
            }
        }
    }
    if any {
        ctx.probe("final_withdraw_all");
    }
    ctx.eval("C08");
    // exactly once, in full
    for u in 0..n {
        for d in 0..2 {
            let back = s.m.withdrawn_total[u][d].saturating_add(s.m.lost[u][d]);
            if s.m.unbonded_total[u][d] != back {
                ctx.fail(
                    "C08",
                    "exactly_once",
                    "unbonded_vs_withdrawn",
                    None,
                    format!("{} unbonded {} {} in total but was paid {} (+{} overwritten)", USERS[u], s.m.unbonded_total[u][d], DENOMS[d], s.m.withdrawn_total[u][d], s.m.lost[u][d]),
                );
                return;
            }
        }
    }
    for d in 0..2 {
        let bonded = s.last.bonded.iter().fold(0u128, |a, b| a.saturating_add(b[d]));
        if s.last.lair_bal[d] != bonded {
            let lost = s.m.lost_total(d);
            let known = lost > 0 && s.last.lair_bal[d] > bonded && s.last.lair_bal[d] - bonded == lost;
            ctx.fail(
                "C08",
                "conservation",
                if known { "overwritten_unbonding_stuck_at_end" } else { "balance_vs_bonded_at_end" },
                if known { Some("D6") } else { None },
                format!(
                    "after everybody withdrew everything the lair holds {} {} against {} bonded; {} were unbonded in records that a later unbond at the same block time overwrote",
                    s.last.lair_bal[d], DENOMS[d], bonded, lost
                ),
            );
            if ctx.stopped() {
                return;
            }
        }
    }
}
