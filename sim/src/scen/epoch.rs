//! EPOCH: the real epoch-manager + 0..3 hook receivers (`HookSink`, a harness-only contract).
//! Serves the epoch-manager half of C20 "epoch clocks only move forward, one epoch at a time,
//! never early".
//!
//! Exact model (from the property text): a creation is accepted iff now >= current.start + duration
//! (hence never before genesis: the epoch stored at instantiation starts at genesis), id' = id + 1,
//! start' = start + configured duration, every registered hook is notified exactly once with the
//! new epoch, a failing hook (or any injected sub-call failure) reverts the whole creation, and a
//! rejected attempt (contract error or panic/abort) leaves the whole chain state unchanged.

use cosmwasm_schema::cw_serde;
use cosmwasm_std::{
    to_json_binary, Binary, CosmosMsg, Deps, DepsMut, Empty, Env, MessageInfo, Response, StdError,
    StdResult, Timestamp, Uint64, WasmMsg,
};
use cw_multi_test::{Contract, ContractWrapper};
use cw_storage_plus::Item;
use serde::{Deserialize, Serialize};

use white_whale_std::epoch_manager::epoch_manager as em;
use white_whale_std::epoch_manager::epoch_manager::{EpochConfig, EpochV2};

use crate::core::{Ctx, PlanPart, Scenario, Tier};
use crate::rng::Rng;
use crate::world::*;

pub const DAY: u64 = 86_400_000_000_000;
pub const BLOCK_NS: u64 = 6_000_000_000;
/// senders: index 0 is the instantiator (first owner)
pub const PEOPLE: [&str; 5] = ["owner", "alice", "bobby", "carol", "david"];

// ---------------------------------------------------------------------------------------------
// HookSink: accepts the manager's EpochChangedHook, logs it, fails on demand
// ---------------------------------------------------------------------------------------------

pub mod sink {
    use super::*;

    #[cw_serde]
    pub struct InstantiateMsg {}

    #[cw_serde]
    pub enum ExecuteMsg {
        /// same wire format as white_whale_std::epoch_manager::hooks::EpochChangedExecuteMsg
        EpochChangedHook { current_epoch: EpochV2 },
        SetFail { fail: bool },
    }

    #[cw_serde]
    pub enum QueryMsg {
        Log {},
    }

    #[cw_serde]
    pub struct LogEntry {
        pub sender: String,
        pub id: u64,
        pub start_ns: u64,
    }

    #[cw_serde]
    pub struct LogResponse {
        pub fail: bool,
        pub log: Vec<LogEntry>,
    }

    const LOG: Item<Vec<LogEntry>> = Item::new("log");
    const FAIL: Item<bool> = Item::new("fail");

    pub fn instantiate(deps: DepsMut, _env: Env, _info: MessageInfo, _msg: InstantiateMsg) -> StdResult<Response> {
        LOG.save(deps.storage, &vec![])?;
        FAIL.save(deps.storage, &false)?;
        Ok(Response::default())
    }

    pub fn execute(deps: DepsMut, _env: Env, info: MessageInfo, msg: ExecuteMsg) -> StdResult<Response> {
        match msg {
            ExecuteMsg::EpochChangedHook { current_epoch } => {
                if FAIL.load(deps.storage)? {
                    return Err(StdError::generic_err("hook sink is set to fail"));
                }
                let mut log = LOG.load(deps.storage)?;
                log.push(LogEntry {
                    sender: info.sender.to_string(),
                    id: current_epoch.id,
                    start_ns: current_epoch.start_time.nanos(),
                });
                LOG.save(deps.storage, &log)?;
                Ok(Response::default().add_attribute("action", "sink_logged"))
            }
            ExecuteMsg::SetFail { fail } => {
                FAIL.save(deps.storage, &fail)?;
                Ok(Response::default().add_attribute("action", "sink_set_fail"))
            }
        }
    }

    pub fn query(deps: Deps, _env: Env, msg: QueryMsg) -> StdResult<Binary> {
        match msg {
            QueryMsg::Log {} => to_json_binary(&LogResponse {
                fail: FAIL.load(deps.storage)?,
                log: LOG.load(deps.storage)?,
            }),
        }
    }

    pub fn code() -> Box<dyn Contract<Empty>> {
        faulty(Box::new(ContractWrapper::new(execute, instantiate, query)))
    }
}

// ---------------------------------------------------------------------------------------------
// configuration, steps
// ---------------------------------------------------------------------------------------------

#[derive(Serialize, Deserialize, Clone, Debug)]
pub struct Cfg {
    pub n_sinks: usize,
    /// how many of the sinks are registered during setup
    pub pre_registered: usize,
    pub duration: u64,
    /// epoch genesis = chain genesis + this
    pub genesis_offset_ns: u64,
    pub start_id: u64,
    pub max_steps: usize,
    pub faults: bool,
    /// create, create_multi, add_hook, remove_hook, update_config, sink_fail
    pub weights: [u32; 6],
}

#[derive(Serialize, Deserialize, Clone, Debug, PartialEq)]
#[serde(rename_all = "snake_case")]
pub enum Op {
    /// `times` separate CreateEpoch transactions in the same block
    Create { times: u32 },
    /// ONE transaction carrying `times` CreateEpoch messages (atomic)
    CreateMulti { times: u32 },
    AddHook { sink: usize },
    RemoveHook { sink: usize },
    UpdateConfig {
        /// index into PEOPLE
        owner: Option<usize>,
        duration: Option<u64>,
        genesis: Option<u64>,
    },
    SinkFail { sink: usize, fail: bool },
}

#[derive(Serialize, Deserialize, Clone, Debug, PartialEq)]
pub struct Step {
    /// index into PEOPLE
    pub actor: usize,
    pub op: Op,
    pub adv_ns: u64,
    pub adv_blocks: u32,
    pub fault: Fault,
}

#[derive(Clone, Debug, PartialEq)]
pub struct Model {
    pub id: u64,
    pub start: u64,
    pub duration: u64,
    pub genesis_cfg: u64,
    pub owner: String,
    /// registered sinks in registration order
    pub hooks: Vec<usize>,
    pub sink_fail: [bool; 3],
    pub sink_log: [Vec<(u64, u64)>; 3],
    /// every epoch that ever was current, oldest first
    pub history: Vec<(u64, u64)>,
    pub duration_changed: bool,
}

pub struct Epoch {
    pub cfg: Cfg,
    pub app: SimApp,
    pub manager: String,
    pub sinks: Vec<String>,
    pub genesis: u64,
    pub m: Model,
    pub elapsed_ns: u64,
    pub blocks: u64,
}

#[derive(Debug, Clone, PartialEq)]
struct Obs {
    id: u64,
    start: u64,
    owner: String,
    duration: u64,
    genesis_cfg: u64,
    hooks: Vec<String>,
    sink_fail: Vec<bool>,
    sink_log: Vec<Vec<(String, u64, u64)>>,
}

pub fn epoch_part() -> PlanPart {
    PlanPart {
        scen: crate::core::scen::<Epoch>(),
        quick_runs: 10_000,
        thorough_runs: 600_000,
    }
}

impl Epoch {
    fn observe(&self) -> Result<Obs, String> {
        let e: em::EpochResponse = query(&self.app, &self.manager, &em::QueryMsg::CurrentEpoch {})
            .map_err(|e| format!("CurrentEpoch query failed: {e}"))?;
        let c: em::ConfigResponse = query(&self.app, &self.manager, &em::QueryMsg::Config {})
            .map_err(|e| format!("Config query failed: {e}"))?;
        let hooks: Vec<String> = raw(&self.app, &self.manager, b"hooks").unwrap_or_default();
        let mut sink_fail = vec![];
        let mut sink_log = vec![];
        for s in &self.sinks {
            let l: sink::LogResponse =
                query(&self.app, s, &sink::QueryMsg::Log {}).map_err(|e| format!("sink log query failed: {e}"))?;
            sink_fail.push(l.fail);
            sink_log.push(l.log.into_iter().map(|x| (x.sender, x.id, x.start_ns)).collect());
        }
        Ok(Obs {
            id: e.epoch.id,
            start: e.epoch.start_time.nanos(),
            owner: c.owner.to_string(),
            duration: c.epoch_config.duration.u64(),
            genesis_cfg: c.epoch_config.genesis_epoch.u64(),
            hooks,
            sink_fail,
            sink_log,
        })
    }

    /// Compares the whole observable state with the model.
    fn check_state(&self, ctx: &mut Ctx, when: &str) {
        let o = match self.observe() {
            Ok(o) => o,
            Err(e) => {
                ctx.fail("C20", "query_failed", when, None, e);
                return;
            }
        };
        ctx.eval("C20");
        let m = &self.m;
        if (o.id, o.start) != (m.id, m.start) {
            ctx.fail(
                "C20",
                "epoch_state",
                when,
                None,
                format!("current epoch is (id {}, start {}) but the model says (id {}, start {})", o.id, o.start, m.id, m.start),
            );
            return;
        }
        if o.duration != m.duration || o.genesis_cfg != m.genesis_cfg || o.owner != m.owner {
            ctx.fail(
                "C20",
                "config_state",
                when,
                None,
                format!(
                    "config is (owner {}, duration {}, genesis {}) but the model says ({}, {}, {})",
                    o.owner, o.duration, o.genesis_cfg, m.owner, m.duration, m.genesis_cfg
                ),
            );
            return;
        }
        let want_hooks: Vec<String> = m.hooks.iter().map(|i| self.sinks[*i].clone()).collect();
        if o.hooks != want_hooks {
            ctx.fail("C20", "hooks_state", when, None, format!("registered hooks {:?}, model {:?}", o.hooks, want_hooks));
            return;
        }
        for i in 0..self.sinks.len() {
            let want: Vec<(String, u64, u64)> =
                m.sink_log[i].iter().map(|(id, st)| (self.manager.clone(), *id, *st)).collect();
            if o.sink_log[i] != want {
                let (a, b) = (o.sink_log[i].len(), want.len());
                let sig = if a > b { "notified_too_often" } else if a < b { "notification_missing" } else { "wrong_notification" };
                ctx.fail(
                    "C20",
                    "hook_log",
                    sig,
                    None,
                    format!(
                        "{when}: sink {i} received {a} notifications (last {:?}), the model expects {b} (last {:?})",
                        o.sink_log[i].last(),
                        want.last()
                    ),
                );
                return;
            }
            if o.sink_fail[i] != m.sink_fail[i] {
                ctx.fail("C20", "harness_sink_flag", when, None, format!("sink {i} fail flag {} vs model {}", o.sink_fail[i], m.sink_fail[i]));
                return;
            }
        }
        // the manager answers Epoch{id} for the current id with the current epoch, and for the
        // previous one with start - duration as long as the duration never changed
        let q: Result<em::EpochResponse, String> = query(&self.app, &self.manager, &em::QueryMsg::Epoch { id: m.id });
        match q {
            Ok(r) if (r.epoch.id, r.epoch.start_time.nanos()) == (m.id, m.start) => {}
            other => {
                ctx.fail("C20", "epoch_query", when, None, format!("Epoch{{id:{}}} answered {:?}, current epoch is start {}", m.id, other, m.start));
                return;
            }
        }
        if !m.duration_changed && m.history.len() >= 2 {
            let (pid, pstart) = m.history[m.history.len() - 2];
            let q: Result<em::EpochResponse, String> = query(&self.app, &self.manager, &em::QueryMsg::Epoch { id: pid });
            match q {
                Ok(r) if (r.epoch.id, r.epoch.start_time.nanos()) == (pid, pstart) => {}
                other => {
                    ctx.fail("C20", "epoch_query", "previous", None, format!("{when}: Epoch{{id:{pid}}} answered {:?}, that epoch started at {pstart}", other));
                }
            }
        }
    }

    fn who(&self, actor: usize) -> &'static str {
        PEOPLE[actor % PEOPLE.len()]
    }

    fn note_fault(ctx: &mut Ctx, r: &TxResult, fault: Fault) {
        if r.fault_fired {
            ctx.fault(match fault {
                Fault::SubCall(_) => "F1_subcall",
                Fault::Bank(_) => "F2_bank",
                _ => "F3_query",
            });
        }
    }

    /// One transaction carrying `n` CreateEpoch messages.
    fn do_create(&mut self, ctx: &mut Ctx, actor: usize, n: u32, fault: Fault, opname: &str) -> bool {
        let who = self.who(actor);
        let now = now_ns(&self.app);
        // --- prediction -------------------------------------------------------------------
        let mut id = self.m.id;
        let mut start = self.m.start as u128;
        let dur = self.m.duration as u128;
        let mut accept = n > 0;
        let mut why = "";
        let failing_hook = self.m.hooks.iter().any(|i| self.m.sink_fail[*i]);
        for _ in 0..n {
            if (now as u128) < start + dur {
                accept = false;
                why = if now < self.m.start { "before_start" } else { "early" };
                break;
            }
            if id == u64::MAX {
                accept = false;
                why = "id_overflow";
                break;
            }
            if start + dur > u64::MAX as u128 {
                accept = false;
                why = "time_overflow";
                break;
            }
            if failing_hook {
                accept = false;
                why = "failing_hook";
                break;
            }
            id += 1;
            start += dur;
        }
        // probes about where on the clock alphabet this attempt sits
        let boundary = self.m.start as u128 + dur;
        if now < self.genesis {
            ctx.probe("attempt_before_genesis");
        } else if now == self.genesis && self.m.history.len() == 1 {
            ctx.probe("attempt_exactly_at_genesis");
        }
        if (now as u128) + 1 == boundary {
            ctx.probe("attempt_boundary_minus_1ns");
        } else if now as u128 == boundary {
            ctx.probe("attempt_boundary_exact");
        } else if now as u128 == boundary + 1 {
            ctx.probe("attempt_boundary_plus_1ns");
        }
        if dur > 0 && now as u128 >= boundary + dur {
            ctx.probe("attempt_two_or_more_periods_late");
        }

        let fp0 = fingerprint(&self.app);
        let msgs: Vec<CosmosMsg> = (0..n).map(|_| wasm_exec(&self.manager, &em::ExecuteMsg::CreateEpoch {}, vec![])).collect();
        let r = tx(&mut self.app, who, msgs, fault);
        Self::note_fault(ctx, &r, fault);
        ctx.op(opname, r.outcome.kind());
        ctx.trace(&format!("{opname}:{n}:{}:{}", r.outcome.kind(), r.fault_fired));
        ctx.eval("C20");
        match &r.outcome {
            Outcome::Ok(_) => {
                if r.fault_fired {
                    ctx.fail("C20", "fault_swallowed", opname, None, "epoch creation succeeded although one of its sub-calls failed".into());
                    return true;
                }
                if !accept {
                    let sig = match why {
                        "before_start" | "early" => "early_creation_accepted",
                        "failing_hook" => "failing_hook_ignored",
                        _ => "unexpected_accept",
                    };
                    ctx.fail(
                        "C20",
                        "create_accepted",
                        sig,
                        None,
                        format!(
                            "{n} creation(s) accepted at now={now} although the model rejects ({why}): current (id {}, start {}), duration {}",
                            self.m.id, self.m.start, self.m.duration
                        ),
                    );
                    // keep going is pointless: the model cannot follow
                    return true;
                }
                // model transition
                for _ in 0..n {
                    self.m.id += 1;
                    self.m.start += self.m.duration;
                    self.m.history.push((self.m.id, self.m.start));
                    for i in self.m.hooks.clone() {
                        self.m.sink_log[i].push((self.m.id, self.m.start));
                    }
                }
                if self.m.duration > 0 {
                    let k = self.m.history.len();
                    if k >= 2 && !(self.m.history[k - 1].0 == self.m.history[k - 2].0 + 1 && self.m.history[k - 1].1 > self.m.history[k - 2].1) {
                        ctx.fail("C20", "not_increasing", opname, None, format!("history tail {:?}", &self.m.history[k - 2..]));
                    }
                }
                if self.m.start > now {
                    ctx.fail("C20", "epoch_in_future", opname, None, format!("epoch {} starts at {} > now {now}", self.m.id, self.m.start));
                }
                ctx.probe("creation_accepted");
                if !self.m.hooks.is_empty() {
                    ctx.probe("creation_with_hooks");
                }
                true
            }
            bad => {
                if fingerprint(&self.app) != fp0 {
                    ctx.fail("C20", "rejected_changed_state", opname, None, format!("rejected creation changed the chain state: {}", bad.err_text()));
                    return false;
                }
                if matches!(bad, Outcome::Panic(_)) {
                    ctx.probe("creation_aborted_by_panic");
                }
                if accept && !r.fault_fired {
                    ctx.fail(
                        "C20",
                        "create_rejected",
                        "due_creation_rejected",
                        None,
                        format!(
                            "{n} creation(s) rejected at now={now} although due: current (id {}, start {}), duration {}: {}",
                            self.m.id,
                            self.m.start,
                            self.m.duration,
                            bad.err_text()
                        ),
                    );
                }
                if !accept && why == "failing_hook" {
                    ctx.probe("failing_hook_reverted_creation");
                }
                if !accept && (why == "early" || why == "before_start") {
                    ctx.probe("early_attempt_rejected");
                }
                false
            }
        }
    }
}

fn geometric(rng: &mut Rng, min: usize, cap: usize, den: u64) -> usize {
    let mut n = min;
    while n < cap && !rng.chance(1, den) {
        n += 1;
    }
    n
}

impl Scenario for Epoch {
    const NAME: &'static str = "EPOCH";
    type Cfg = Cfg;
    type Step = Step;

    fn gen_cfg(rng: &mut Rng, _prop: &str, tier: Tier, _idx: u64) -> Cfg {
        let n_sinks = rng.range(0, 3) as usize;
        let duration = match rng.below(8) {
            0 => DAY,
            1 => DAY + 1,
            2 => 7 * DAY,
            3 => DAY + rng.range(0, DAY),
            4 => 30 * DAY,
            5 => 36 * 3_600_000_000_000,
            _ => DAY,
        };
        let genesis_offset_ns = match rng.below(6) {
            0 => 0,
            1 => 1,
            2 => BLOCK_NS,
            3 => 3 * DAY,
            4 => rng.range(1, DAY),
            _ => 0,
        };
        let start_id = match rng.below(8) {
            0 => 1,
            1 => 7,
            2 => u64::MAX - 2,
            3 => rng.range(0, 1000),
            _ => 0,
        };
        let mut weights = [50, 8, 6, 4, 6, 6];
        for w in weights.iter_mut().skip(1) {
            if rng.chance(1, 4) {
                *w = 0;
            }
        }
        if n_sinks == 0 {
            weights[2] = 0;
            weights[3] = 0;
            weights[5] = 0;
        }
        let cap = if tier == Tier::Thorough { 200 } else { 60 };
        Cfg {
            n_sinks,
            pre_registered: rng.range(0, n_sinks as u64) as usize,
            duration,
            genesis_offset_ns,
            start_id,
            max_steps: geometric(rng, 6, cap, 22),
            faults: rng.chance(1, 3),
            weights,
        }
    }

    fn max_steps(cfg: &Cfg) -> usize {
        cfg.max_steps
    }

    fn build(cfg: &Cfg, ctx: &mut Ctx) -> Self {
        let mut app = new_app(&[]);
        let mgr_code = app.store_code(code::epoch_manager());
        let sink_code = app.store_code(sink::code());
        let genesis = GENESIS_TIME_NS + cfg.genesis_offset_ns;
        let init = em::InstantiateMsg {
            start_epoch: EpochV2 {
                id: cfg.start_id,
                start_time: Timestamp::from_nanos(genesis),
            },
            epoch_config: EpochConfig {
                duration: Uint64::new(cfg.duration),
                genesis_epoch: Uint64::new(genesis),
            },
        };
        // the first epoch must start at genesis: a manager whose start epoch differs from the
        // configured genesis, or lies in the past, must not come into existence
        let bad_inits = [
            em::InstantiateMsg {
                start_epoch: EpochV2 {
                    id: cfg.start_id,
                    start_time: Timestamp::from_nanos(genesis + 1),
                },
                ..init.clone()
            },
            em::InstantiateMsg {
                start_epoch: EpochV2 {
                    id: cfg.start_id,
                    start_time: Timestamp::from_nanos(GENESIS_TIME_NS - 1),
                },
                epoch_config: EpochConfig {
                    duration: Uint64::new(cfg.duration),
                    genesis_epoch: Uint64::new(GENESIS_TIME_NS - 1),
                },
            },
        ];
        for (i, b) in bad_inits.iter().enumerate() {
            let r = tx(
                &mut app,
                PEOPLE[0],
                vec![CosmosMsg::Wasm(WasmMsg::Instantiate {
                    admin: None,
                    code_id: mgr_code,
                    msg: to_json_binary(b).unwrap(),
                    funds: vec![],
                    label: "bad".into(),
                })],
                Fault::None,
            );
            ctx.eval("C20");
            if r.outcome.is_ok() {
                ctx.fail(
                    "C20",
                    "bad_genesis_accepted",
                    if i == 0 { "start_differs_from_genesis" } else { "start_in_the_past" },
                    None,
                    "the manager accepted an initial epoch that does not start at a future genesis".into(),
                );
            }
        }
        let manager = must_instantiate(&mut app, mgr_code, PEOPLE[0], &init, "epoch_manager", None);
        let mut sinks = vec![];
        for i in 0..cfg.n_sinks {
            sinks.push(must_instantiate(&mut app, sink_code, PEOPLE[0], &sink::InstantiateMsg {}, &format!("sink{i}"), None));
        }
        let mut m = Model {
            id: cfg.start_id,
            start: genesis,
            duration: cfg.duration,
            genesis_cfg: genesis,
            owner: PEOPLE[0].to_string(),
            hooks: vec![],
            sink_fail: [false; 3],
            sink_log: [vec![], vec![], vec![]],
            history: vec![(cfg.start_id, genesis)],
            duration_changed: false,
        };
        for i in 0..cfg.pre_registered.min(cfg.n_sinks) {
            must_exec(&mut app, PEOPLE[0], &manager, &em::ExecuteMsg::AddHook { contract_addr: sinks[i].clone() }, vec![]);
            m.hooks.push(i);
        }
        let s = Epoch {
            cfg: cfg.clone(),
            app,
            manager,
            sinks,
            genesis,
            m,
            elapsed_ns: 0,
            blocks: 0,
        };
        if !ctx.stopped() {
            s.check_state(ctx, "after_setup");
        }
        s
    }

    fn gen_step(&mut self, rng: &mut Rng, ctx: &mut Ctx) -> Option<Step> {
        let now = now_ns(&self.app);
        let m = &self.m;
        let dur = m.duration.max(1);
        let boundary = (m.start as u128 + m.duration as u128).min(u64::MAX as u128 / 2) as u64;
        // ---- clock ----------------------------------------------------------------------
        let mut adv_ns: u64 = match rng.below(20) {
            0..=5 => 0,
            6 => 1,
            7 => BLOCK_NS,
            8 | 9 => boundary.saturating_sub(now).saturating_sub(1), // boundary - 1 ns (0 if passed)
            10 | 11 => boundary.saturating_sub(now),                 // exactly
            12 => boundary.saturating_sub(now).saturating_add(1),
            13 | 14 => {
                // k durations late (relative to the boundary), with or without jitter
                let k = rng.range(1, 6);
                let base = boundary.saturating_sub(now).saturating_add(k.saturating_mul(dur).min(400 * DAY));
                match rng.below(4) {
                    0 => base.saturating_sub(1),
                    1 => base.saturating_add(1),
                    2 => base.saturating_add(rng.below(dur.min(DAY))),
                    _ => base,
                }
            }
            15 => rng.range(1, dur.min(40 * DAY)),
            16 => rng.range(1, 3) * BLOCK_NS,
            _ => 0,
        };
        if now < self.genesis && rng.chance(1, 2) {
            // around genesis
            let d = self.genesis - now;
            adv_ns = match rng.below(4) {
                0 => d - 1,
                1 => d,
                2 => d + 1,
                _ => 0,
            };
        }
        let adv_blocks = if adv_ns == 0 {
            0
        } else if rng.chance(1, 6) {
            0 // time moves, height does not
        } else {
            (adv_ns / BLOCK_NS).clamp(1, 1_000_000) as u32
        };
        let now2 = now.saturating_add(adv_ns);
        // ---- op -------------------------------------------------------------------------
        let n_sinks = self.sinks.len();
        let owner_idx = PEOPLE.iter().position(|p| *p == m.owner).unwrap_or(0);
        let privileged_actor = |rng: &mut Rng| if rng.chance(4, 5) { owner_idx } else { rng.idx(PEOPLE.len()) };
        // a registered hook that keeps failing blocks every creation: let it recover soon
        let failing: Vec<usize> = m.hooks.iter().copied().filter(|i| m.sink_fail[*i]).collect();
        if !failing.is_empty() && rng.chance(1, 4) {
            let sink = *rng.pick(&failing);
            return Some(Step {
                actor: rng.idx(PEOPLE.len()),
                op: Op::SinkFail { sink, fail: false },
                adv_ns,
                adv_blocks,
                fault: Fault::None,
            });
        }
        let kind = rng.weighted(&self.cfg.weights);
        let late: u64 = if now2 as u128 >= m.start as u128 + m.duration as u128 && m.duration > 0 {
            ((now2 - m.start) / m.duration).min(40)
        } else {
            0
        };
        let (actor, op) = match kind {
            0 => {
                let times = match rng.below(10) {
                    0..=4 => 1,
                    5 | 6 => (late + 1) as u32, // catch up completely and try once more
                    7 => late.max(1) as u32,
                    8 => 2,
                    _ => rng.range(1, 4) as u32,
                };
                (rng.idx(PEOPLE.len()), Op::Create { times })
            }
            1 => {
                let times = match rng.below(4) {
                    0 => late.max(1) as u32,
                    1 => (late + 1) as u32,
                    _ => rng.range(2, 3) as u32,
                };
                (rng.idx(PEOPLE.len()), Op::CreateMulti { times: times.min(12) })
            }
            2 => (privileged_actor(rng), Op::AddHook { sink: rng.idx(n_sinks.max(1)) }),
            3 => {
                let sink = if !m.hooks.is_empty() && rng.chance(3, 4) { *rng.pick(&m.hooks) } else { rng.idx(n_sinks.max(1)) };
                (privileged_actor(rng), Op::RemoveHook { sink })
            }
            4 => {
                let duration = match rng.below(10) {
                    0 => None,
                    1 => Some(DAY),
                    2 => Some(DAY - 1),
                    3 => Some(DAY / 2),
                    4 => Some(1),
                    5 => Some(m.duration.saturating_add(1)),
                    6 => Some(m.duration.saturating_mul(2).min(400 * DAY)),
                    7 => Some((m.duration / 2).max(DAY)),
                    8 => Some(DAY + rng.range(0, 3 * DAY)),
                    _ => Some(7 * DAY),
                };
                let owner = if rng.chance(1, 4) { Some(rng.idx(PEOPLE.len())) } else { None };
                let genesis = if duration.is_some() && rng.chance(1, 3) { Some(rng.range(0, now2)) } else { duration.map(|_| m.genesis_cfg) };
                (privileged_actor(rng), Op::UpdateConfig { owner, duration, genesis })
            }
            _ => {
                let sink = rng.idx(n_sinks.max(1));
                let fail = if m.sink_fail[sink % 3] { rng.chance(1, 5) } else { true };
                (rng.idx(PEOPLE.len()), Op::SinkFail { sink, fail })
            }
        };
        let mut fault = Fault::None;
        if self.cfg.faults && matches!(op, Op::Create { .. } | Op::CreateMulti { .. }) && rng.chance(1, 8) {
            fault = Fault::SubCall(rng.range(1, m.hooks.len() as u64 + 2) as u32);
        }
        let _ = ctx;
        Some(Step { actor, op, adv_ns, adv_blocks, fault })
    }

    fn apply(&mut self, step: &Step, ctx: &mut Ctx) {
        if step.adv_ns > 0 || step.adv_blocks > 0 {
            let t = now_ns(&self.app).saturating_add(step.adv_ns);
            let h = height(&self.app) + step.adv_blocks as u64;
            set_clock(&mut self.app, t, h);
            self.elapsed_ns = self.elapsed_ns.saturating_add(step.adv_ns);
            self.blocks += step.adv_blocks as u64;
        } else {
            ctx.probe("same_block_step");
        }
        let who = self.who(step.actor);
        let n_sinks = self.sinks.len();
        match &step.op {
            Op::Create { times } => {
                let mut ok_count = 0u32;
                let mut failed_after_ok = false;
                for i in 0..*times {
                    // the fault belongs to the first attempt only
                    let f = if i == 0 { step.fault } else { Fault::None };
                    let ok = self.do_create(ctx, step.actor, 1, f, "create_epoch");
                    if ctx.stopped() {
                        return;
                    }
                    if ok {
                        ok_count += 1;
                    } else if ok_count > 0 {
                        failed_after_ok = true;
                    }
                }
                if ok_count >= 2 {
                    ctx.probe("consecutive_catch_up_creations");
                }
                if failed_after_ok {
                    ctx.probe("repeat_after_catch_up_rejected");
                }
                if *times >= 2 {
                    ctx.probe("repeated_attempts_in_one_block");
                }
            }
            Op::CreateMulti { times } => {
                let ok = self.do_create(ctx, step.actor, (*times).max(1), step.fault, "create_epoch_multi");
                if ok {
                    ctx.probe("multi_message_creation_accepted");
                }
            }
            Op::AddHook { sink } | Op::RemoveHook { sink } => {
                if n_sinks == 0 {
                    ctx.trace("nohook");
                } else {
                    let i = sink % n_sinks;
                    let add = matches!(step.op, Op::AddHook { .. });
                    let addr = self.sinks[i].clone();
                    let msg = if add {
                        em::ExecuteMsg::AddHook { contract_addr: addr }
                    } else {
                        em::ExecuteMsg::RemoveHook { contract_addr: addr }
                    };
                    let fp0 = fingerprint(&self.app);
                    let r = tx(&mut self.app, who, vec![wasm_exec(&self.manager, &msg, vec![])], Fault::None);
                    let name = if add { "add_hook" } else { "remove_hook" };
                    ctx.op(name, r.outcome.kind());
                    ctx.trace(&format!("{name}:{i}:{}", r.outcome.kind()));
                    let is_owner = who == self.m.owner;
                    let registered = self.m.hooks.contains(&i);
                    if r.outcome.is_ok() {
                        if !is_owner {
                            ctx.fail("C16", "unauthorised_accepted", name, None, format!("{who} is not the owner ({})", self.m.owner));
                        }
                        if add {
                            if !registered {
                                self.m.hooks.push(i);
                            }
                        } else {
                            self.m.hooks.retain(|x| *x != i);
                        }
                    } else {
                        if fingerprint(&self.app) != fp0 {
                            ctx.fail("C20", "rejected_changed_state", name, None, r.outcome.err_text());
                            return;
                        }
                        if is_owner && add != registered {
                            ctx.probe("owner_hook_change_refused");
                        }
                    }
                }
            }
            Op::UpdateConfig { owner, duration, genesis } => {
                let new_cfg = duration.map(|d| EpochConfig {
                    duration: Uint64::new(d),
                    genesis_epoch: Uint64::new(genesis.unwrap_or(self.m.genesis_cfg)),
                });
                let msg = em::ExecuteMsg::UpdateConfig {
                    owner: owner.map(|o| PEOPLE[o % PEOPLE.len()].to_string()),
                    epoch_config: new_cfg,
                };
                let fp0 = fingerprint(&self.app);
                let r = tx(&mut self.app, who, vec![wasm_exec(&self.manager, &msg, vec![])], Fault::None);
                ctx.op("update_config", r.outcome.kind());
                ctx.trace(&format!("update_config:{}", r.outcome.kind()));
                let is_owner = who == self.m.owner;
                if r.outcome.is_ok() {
                    if !is_owner {
                        ctx.fail("C16", "unauthorised_accepted", "update_config", None, format!("{who} is not the owner ({})", self.m.owner));
                    }
                    if let Some(o) = owner {
                        self.m.owner = PEOPLE[o % PEOPLE.len()].to_string();
                        ctx.probe("owner_changed");
                    }
                    if let Some(d) = duration {
                        if *d < DAY {
                            ctx.fail("C18", "duration_below_one_day", "update_config", None, format!("duration {d} accepted"));
                            ctx.probe("duration_below_one_day_accepted");
                        }
                        if *d != self.m.duration {
                            self.m.duration_changed = true;
                            ctx.probe("duration_changed_mid_history");
                        }
                        self.m.duration = *d;
                        self.m.genesis_cfg = genesis.unwrap_or(self.m.genesis_cfg);
                    }
                } else {
                    if fingerprint(&self.app) != fp0 {
                        ctx.fail("C20", "rejected_changed_state", "update_config", None, r.outcome.err_text());
                        return;
                    }
                    if is_owner && duration.map(|d| d >= DAY).unwrap_or(true) {
                        ctx.fail("C16", "owner_refused", "update_config", None, r.outcome.err_text());
                    }
                }
            }
            Op::SinkFail { sink, fail } => {
                if n_sinks == 0 {
                    ctx.trace("nosink");
                } else {
                    let i = sink % n_sinks;
                    let r = tx(
                        &mut self.app,
                        who,
                        vec![wasm_exec(&self.sinks[i], &sink::ExecuteMsg::SetFail { fail: *fail }, vec![])],
                        Fault::None,
                    );
                    ctx.op("sink_set_fail", r.outcome.kind());
                    ctx.trace(&format!("sink_fail:{i}:{fail}:{}", r.outcome.kind()));
                    if r.outcome.is_ok() {
                        self.m.sink_fail[i] = *fail;
                        if *fail {
                            ctx.probe("hook_set_to_fail");
                        } else {
                            ctx.probe("hook_recovered");
                        }
                    }
                }
            }
        }
        if ctx.stopped() {
            return;
        }
        self.check_state(ctx, "after_step");
        if !ctx.stopped() {
            ctx.state_of(&format!("{}:{}:{}:{:?}:{:?}:{}", self.m.id, self.m.start, self.m.duration, self.m.hooks, self.m.sink_fail, self.m.owner));
        }
    }

    /// End of run: however late we are, exactly `k` consecutive creations succeed and the
    /// (k+1)-th is refused (hooks made healthy first, faults off).
    fn finish(&mut self, ctx: &mut Ctx) {
        for i in 0..self.sinks.len() {
            if self.m.sink_fail[i] {
                must_exec(&mut self.app, PEOPLE[0], &self.sinks[i].clone(), &sink::ExecuteMsg::SetFail { fail: false }, vec![]);
                self.m.sink_fail[i] = false;
            }
        }
        if self.m.duration == 0 || self.m.id > u64::MAX - 50 {
            return;
        }
        // jump a few durations ahead
        let jump = self.m.duration.saturating_mul(3).min(1200 * DAY);
        let t = now_ns(&self.app).saturating_add(jump);
        if t > u64::MAX / 2 {
            return;
        }
        let h = height(&self.app) + 1;
        set_clock(&mut self.app, t, h);
        self.elapsed_ns = self.elapsed_ns.saturating_add(jump);
        self.blocks += 1;
        let now = t;
        if now < self.m.start {
            return;
        }
        let k = (now - self.m.start) / self.m.duration;
        if k > 5000 {
            // a duration shortened to (almost) nothing: bounded catch-up is not meaningful
            return;
        }
        let mut done = 0u64;
        for _ in 0..k {
            if !self.do_create(ctx, 1, 1, Fault::None, "create_epoch") {
                if !ctx.stopped() {
                    ctx.fail("C20", "catch_up", "stalled", None, format!("{k} periods late but only {done} consecutive creations succeeded"));
                }
                return;
            }
            if ctx.stopped() {
                return;
            }
            done += 1;
        }
        if self.do_create(ctx, 2, 1, Fault::None, "create_epoch") && !ctx.stopped() {
            ctx.fail("C20", "catch_up", "one_too_many", None, format!("{k} periods late but creation {} also succeeded", k + 1));
        }
        if ctx.stopped() {
            return;
        }
        ctx.probe("final_catch_up_done");
        self.check_state(ctx, "after_finish");
    }

    fn simplify(step: &Step) -> Vec<Step> {
        let mut out = vec![];
        if step.fault != Fault::None {
            out.push(Step { fault: Fault::None, ..step.clone() });
        }
        if step.adv_blocks != 0 {
            out.push(Step { adv_blocks: 0, ..step.clone() });
        }
        if step.adv_ns != 0 {
            out.push(Step { adv_ns: 0, adv_blocks: 0, ..step.clone() });
        }
        if step.actor != 1 {
            out.push(Step { actor: 1, ..step.clone() });
        }
        match &step.op {
            Op::Create { times } if *times > 1 => {
                out.push(Step { op: Op::Create { times: 1 }, ..step.clone() });
                out.push(Step { op: Op::Create { times: times - 1 }, ..step.clone() });
            }
            Op::CreateMulti { times } => {
                out.push(Step { op: Op::Create { times: *times }, ..step.clone() });
                if *times > 1 {
                    out.push(Step { op: Op::CreateMulti { times: times - 1 }, ..step.clone() });
                }
            }
            Op::UpdateConfig { owner, duration, genesis } => {
                if owner.is_some() {
                    out.push(Step { op: Op::UpdateConfig { owner: None, duration: *duration, genesis: *genesis }, ..step.clone() });
                }
                if genesis.is_some() && duration.is_some() {
                    out.push(Step { op: Op::UpdateConfig { owner: *owner, duration: *duration, genesis: None }, ..step.clone() });
                }
            }
            _ => {}
        }
        out
    }

    fn sim_clock(&self) -> (u64, u64) {
        (self.elapsed_ns, self.blocks)
    }
}
