//! HUB: the whole fee pipeline on the real contracts — fee collector, fee distributor, whale lair,
//! pool factory + 2..3 pairs, swap router with routes (wasm admin), vault factory + 2 vaults, a
//! harness borrower contract, DAO addresses for the take rate.
//! Serves C09 (epoch ledgers), C10 (fee pipeline) and the distributor half of C20 (epoch clock).
//! Generation is in `hub_gen.rs`, execution + oracles in `hub_oracle.rs`.

use cosmwasm_std::{
    coin, to_json_binary, BankMsg, Binary, Coin, CosmosMsg, Decimal, Deps, DepsMut, Env, MessageInfo,
    Response, StdError, StdResult, Uint128, Uint64, WasmMsg,
};
use cw_multi_test::ContractWrapper;
use serde::{Deserialize, Serialize};
use std::str::FromStr;

use white_whale_std::epoch_manager::epoch_manager::EpochConfig;
use white_whale_std::fee::{Fee, VaultFee};
use white_whale_std::fee_distributor::Epoch;
use white_whale_std::pool_network::asset::{Asset, AssetInfo, PairInfo, PairType};
use white_whale_std::pool_network::pair::{self, FeatureToggle};
use white_whale_std::pool_network::router::{self, SwapOperation, SwapRoute};
use white_whale_std::pool_network::factory;
use white_whale_std::vault_network::{vault, vault_factory};
use white_whale_std::{fee_collector, fee_distributor, whale_lair};

use crate::core::{Ctx, PlanPart, Scenario, Tier};
use crate::rng::Rng;
use crate::scen::pool2::pool_fee;
use crate::world::*;

pub const OWNER: &str = "owner";
pub const DAOS: [&str; 2] = ["daoone", "daotwo"];
pub const USERS: [&str; 5] = ["alice", "bobby", "carol", "david", "erin0"];
pub const WHALE: &str = "uwhale";
pub const USDC: &str = "uusdc";
pub const BOND_DENOMS: [&str; 2] = ["ampwhale", "bwhale"];
pub const DAY_NS: u64 = 86_400_000_000_000;
pub const USER_FUNDS: u128 = 1_000_000_000_000_000_000;
pub const N_OPS: usize = 15;

/// op kinds, index into `Cfg::weights`
pub const W_SWAP: usize = 0;
pub const W_LOAN: usize = 1;
pub const W_INFLOW: usize = 2;
pub const W_BOND: usize = 3;
pub const W_UNBOND: usize = 4;
pub const W_WITHDRAW: usize = 5;
pub const W_NEW_EPOCH: usize = 6;
pub const W_CATCH_UP: usize = 7;
pub const W_CLAIM: usize = 8;
pub const W_CLAIM_MANY: usize = 9;
pub const W_SET_GRACE: usize = 10;
pub const W_SET_TAKE: usize = 11;
pub const W_FORWARD: usize = 12;
pub const W_COLLECT: usize = 13;
pub const W_ENV: usize = 14;

#[derive(Serialize, Deserialize, Clone, Debug)]
pub struct TakeCfg {
    pub rate: String,
    pub dao: usize,
    pub active: bool,
}

#[derive(Serialize, Deserialize, Clone, Debug)]
pub struct Cfg {
    pub n_users: usize,
    pub max_steps: usize,
    pub faults: bool,
    /// liquidity per side of every pair
    pub liquidity: u128,
    /// protocol, swap, burn per pair
    pub pair_fees: [[String; 3]; 3],
    /// None: two pairs; Some(0): third pair (uusdc, TKA) constant product; Some(amp): stableswap
    pub third_pair: Option<u64>,
    pub vault_native_is_whale: bool,
    /// protocol, flash-loan fee per vault
    pub vault_fees: [[String; 2]; 2],
    pub grace: u64,
    pub duration_ns: u64,
    /// genesis epoch = clock start + offset
    pub genesis_offset_ns: u64,
    pub unbonding_ns: u64,
    pub growth: String,
    /// [uusdc, TKA]: None = no route, Some(0) = direct pair, Some(1) = TKA via uusdc (needs the third pair)
    pub routes_at_start: [Option<u8>; 2],
    pub take_start: Option<TakeCfg>,
    /// whale-sized donations to the collector (more than a pool reserve) are generated
    pub whale_inflows: bool,
    pub weights: [u32; N_OPS],
    /// weight of `Op::SetDuration` (kept outside `weights` so that older replay files still load)
    #[serde(default)]
    pub w_set_duration: u32,
    /// biased run: a few epochs -> the owner raises the duration -> the last user, who never bonded,
    /// bonds in the middle of an epoch -> that user claims again and again, also after later epochs
    #[serde(default)]
    pub late_bonder_script: bool,
    /// number of epochs the script waits for before the owner raises the duration
    #[serde(default)]
    pub script_epochs: u32,
    /// idle pools over other denoms registered in the pool factory before the pools under test
    /// (their registry keys sort first, so the pools under test are not on the factory's first
    /// listing page): 0, 11 (beyond the default page of 10) or 31 (beyond the maximum page of 30)
    #[serde(default)]
    pub filler_pairs: u32,
    /// weight of `Op::SetDistAsset` (the owner switches the distributor's distribution asset mid-history)
    #[serde(default)]
    pub w_set_dist: u32,
    /// the same for the vault factory
    #[serde(default)]
    pub filler_vaults: u32,
}

#[derive(Serialize, Deserialize, Clone, Debug, PartialEq)]
#[serde(rename_all = "snake_case")]
pub enum Op {
    Swap { pair: usize, side: usize, amount: u128 },
    Loan { vault: usize, amount: u128 },
    /// direct transfer of asset (0 uwhale, 1 uusdc, 2 TKA) to the collector or the distributor
    Inflow { asset: usize, amount: u128, to_distributor: bool },
    Bond { denom: usize, amount: u128 },
    Unbond { denom: usize, amount: u128 },
    Withdraw { denom: usize },
    NewEpoch,
    /// `calls` NewEpoch transactions in this block by rotating callers
    CatchUp { calls: u32 },
    Claim,
    /// several claims in this block, one tx each, in this order (duplicates allowed)
    ClaimMany { order: Vec<usize> },
    SetGrace { value: u64, by_owner: bool },
    /// fee distributor UpdateConfig { epoch_config: { duration, genesis_epoch as configured } }
    SetDuration { duration_ns: u64, by_owner: bool },
    /// UpdateConfig { distribution_asset } on the distributor: asset 0 uwhale, 1 uusdc, 2 TKA
    SetDistAsset { asset: usize, by_owner: bool },
    SetTake { rate: Option<String>, dao: Option<usize>, active: Option<bool>, by_owner: bool },
    /// ForwardFees sent to the collector by the actor (not the distributor)
    ForwardDirect { as_owner: bool },
    /// permissionless CollectFees / AggregateFees on the collector
    CollectDirect { aggregate: bool, vaults: bool },
    Pause { pair: usize, swaps_enabled: bool },
    RemovePair { pair: usize },
    /// add (Some(kind)) or remove (None) the route of asset 1 (uusdc) or 2 (TKA) to uwhale
    Route { asset: usize, add: Option<u8> },
}

#[derive(Serialize, Deserialize, Clone, Debug, PartialEq)]
pub struct Step {
    pub actor: usize,
    pub op: Op,
    pub adv_ns: u64,
    pub adv_blocks: u64,
    pub fault: Fault,
}

#[derive(Default, Clone, Debug)]
pub struct Model {
    /// mirror of the distributor's epochs; index i holds id i+1
    pub epochs: Vec<Epoch>,
    pub expired: Vec<bool>,
    pub rolled: Vec<bool>,
    pub grace: u64,
    pub genesis: u64,
    pub duration: u64,
    /// (user, epoch id) pairs that received a positive payout
    pub paid: std::collections::BTreeSet<(usize, u64)>,
    pub bonded: Vec<[u128; 2]>,
    /// block time at which the user's current bonding began (bonded went from 0 to > 0)
    pub began: Vec<Option<u64>>,
    pub take_rate18: u128,
    pub take_active: bool,
    pub dao: Option<usize>,
    pub pair_registered: Vec<bool>,
    pub pair_paused: Vec<bool>,
    pub routes: [Option<u8>; 2],
    pub late_streak: u64,
    /// raw fingerprint of the state after the last transaction, when known
    pub fp_cache: Option<[u8; 32]>,
    /// consecutive due NewEpoch attempts that were blocked (N1)
    pub blocked_streak: u64,
    /// (user, denom, matures at) of unbondings the model knows
    pub unbonds: Vec<(usize, usize, u64)>,
    /// block time of the transaction that created epoch i+1
    pub created_at: Vec<u64>,
    /// the user has a claim cursor (a Claim of his succeeded at some point)
    pub has_cursor: Vec<bool>,
    /// transaction counter, and its value at the user's current bonding / at each epoch's creation
    pub seq: u64,
    pub began_seq: Vec<u64>,
    pub created_seq: Vec<u64>,
    /// an owner's SetDuration changed the configured duration while epochs already existed
    pub dur_changed_mid: bool,
    /// index of the distributor's configured distribution asset (0 = uwhale at the start)
    pub dist_asset: usize,
    /// the owner switched the distribution asset at least once
    pub dist_switched: bool,
    /// ... and the last such change was an increase
    pub dur_raised_mid: bool,
    /// the user has bonded at some point
    pub ever_bonded: Vec<bool>,
    /// the user's first bonding ever happened after a mid-history duration change
    pub late_first: Vec<bool>,
}

pub struct Hub {
    pub cfg: Cfg,
    pub app: SimApp,
    /// 0 uwhale, 1 uusdc, 2 TKA (cw20)
    pub assets: [AssetInfo; 3],
    pub tka: String,
    pub collector: String,
    pub distributor: String,
    pub lair: String,
    pub factory: String,
    pub router: String,
    pub vfactory: String,
    pub borrower: String,
    pub pairs: Vec<String>,
    pub vaults: [String; 2],
    pub vault_asset: [usize; 2],
    pub start_ns: u64,
    pub start_height: u64,
    pub model: Model,
}

/// denoms of the idle filler pools / vaults: they sort before "uusdc" / "uwhale"
pub const FILLER_QUOTE: &str = "aab";
pub fn filler_denom(i: u32) -> String {
    // letters only: the vault's LP ticker is derived from the denom and must match [a-zA-Z-]{3,12}
    format!("aaa{}{}", (b'a' + (i / 26) as u8) as char, (b'a' + (i % 26) as u8) as char)
}

pub fn pair_assets(i: usize) -> [usize; 2] {
    match i {
        0 => [0, 1],
        1 => [0, 2],
        _ => [1, 2],
    }
}

/// pairs (indices) a route of `asset` (1 or 2) of the given kind goes through, in order
pub fn route_pairs(asset: usize, kind: u8) -> Vec<usize> {
    match (asset, kind) {
        (1, _) => vec![0],
        (2, 0) => vec![1],
        _ => vec![2, 0],
    }
}

// ---------------------------------------------------------------------------------------------
// harness contract: a flash-loan borrower that repays the quoted amount from its own funds
// ---------------------------------------------------------------------------------------------

#[derive(Serialize, Deserialize, Clone, Debug, PartialEq, schemars::JsonSchema)]
#[serde(rename_all = "snake_case")]
pub enum BorrowerMsg {
    Borrow { vault: String, amount: Uint128, asset: AssetInfo, payback: Uint128 },
    Repay { vault: String, asset: AssetInfo, payback: Uint128 },
}

fn borrower_execute(_deps: DepsMut, _env: Env, _info: MessageInfo, msg: BorrowerMsg) -> Result<Response, StdError> {
    match msg {
        BorrowerMsg::Borrow { vault, amount, asset, payback } => Ok(Response::new().add_message(WasmMsg::Execute {
            contract_addr: vault.clone(),
            msg: to_json_binary(&vault::ExecuteMsg::FlashLoan {
                amount,
                msg: to_json_binary(&BorrowerMsg::Repay { vault, asset, payback })?,
            })?,
            funds: vec![],
        })),
        BorrowerMsg::Repay { vault, asset, payback } => {
            let m: CosmosMsg = match asset {
                AssetInfo::NativeToken { denom } => BankMsg::Send {
                    to_address: vault,
                    amount: vec![Coin { denom, amount: payback }],
                }
                .into(),
                AssetInfo::Token { contract_addr } => WasmMsg::Execute {
                    contract_addr,
                    msg: to_json_binary(&cw20::Cw20ExecuteMsg::Transfer { recipient: vault, amount: payback })?,
                    funds: vec![],
                }
                .into(),
            };
            Ok(Response::new().add_message(m))
        }
    }
}

fn borrower_instantiate(_deps: DepsMut, _env: Env, _info: MessageInfo, _msg: cosmwasm_std::Empty) -> Result<Response, StdError> {
    Ok(Response::new())
}

fn borrower_query(_deps: Deps, _env: Env, _msg: cosmwasm_std::Empty) -> StdResult<Binary> {
    to_json_binary(&0u8)
}

fn borrower_code() -> Box<dyn cw_multi_test::Contract<cosmwasm_std::Empty>> {
    faulty(Box::new(ContractWrapper::new(borrower_execute, borrower_instantiate, borrower_query)))
}

// ---------------------------------------------------------------------------------------------

pub fn dec(s: &str) -> Decimal {
    Decimal::from_str(s).unwrap()
}

impl Hub {
    pub fn user(&self, i: usize) -> &'static str {
        USERS[i % self.cfg.n_users]
    }
    pub fn asset(&self, i: usize, amount: u128) -> Asset {
        Asset { info: self.assets[i].clone(), amount: Uint128::new(amount) }
    }
    pub fn bal(&self, who: &str, i: usize) -> u128 {
        balance(&self.app, who, &self.assets[i])
    }
    pub fn now(&self) -> u64 {
        now_ns(&self.app)
    }
    /// the instant from which the next NewEpoch is due according to the model
    pub fn boundary(&self) -> u64 {
        match self.model.epochs.last() {
            None => self.model.genesis,
            Some(e) => e.start_time.nanos().saturating_add(self.model.duration),
        }
    }
    pub fn advance(&mut self, ns: u64, blocks: u64) {
        if ns > 0 || blocks > 0 {
            let t = self.now().saturating_add(ns);
            let h = height(&self.app) + blocks;
            set_clock(&mut self.app, t, h);
        }
    }
    pub fn swap_msg(&self, pair_idx: usize, side: usize, amount: u128) -> CosmosMsg {
        let a = pair_assets(pair_idx)[side];
        let pair = &self.pairs[pair_idx];
        match &self.assets[a] {
            AssetInfo::NativeToken { denom } => wasm_exec(
                pair,
                &pair::ExecuteMsg::Swap {
                    offer_asset: self.asset(a, amount),
                    belief_price: None,
                    max_spread: Some(Decimal::percent(50)),
                    to: None,
                },
                if amount > 0 { vec![coin(amount, denom)] } else { vec![] },
            ),
            AssetInfo::Token { contract_addr } => wasm_exec(
                contract_addr,
                &cw20::Cw20ExecuteMsg::Send {
                    contract: pair.to_string(),
                    amount: Uint128::new(amount),
                    msg: to_json_binary(&pair::Cw20HookMsg::Swap { belief_price: None, max_spread: Some(Decimal::percent(50)), to: None }).unwrap(),
                },
                vec![],
            ),
        }
    }
    pub fn transfer_msg(&self, asset: usize, to: &str, amount: u128) -> CosmosMsg {
        match &self.assets[asset] {
            AssetInfo::NativeToken { denom } => bank_send(to, amount, denom),
            AssetInfo::Token { contract_addr } => wasm_exec(
                contract_addr,
                &cw20::Cw20ExecuteMsg::Transfer { recipient: to.to_string(), amount: Uint128::new(amount) },
                vec![],
            ),
        }
    }
    pub fn route_msg(&self, asset: usize, kind: u8) -> SwapRoute {
        let ps = route_pairs(asset, kind);
        let mut cur = asset;
        let mut ops = vec![];
        for p in ps {
            let pa = pair_assets(p);
            let nxt = if pa[0] == cur { pa[1] } else { pa[0] };
            ops.push(SwapOperation::TerraSwap {
                offer_asset_info: self.assets[cur].clone(),
                ask_asset_info: self.assets[nxt].clone(),
            });
            cur = nxt;
        }
        SwapRoute {
            offer_asset_info: self.assets[asset].clone(),
            ask_asset_info: self.assets[0].clone(),
            swap_operations: ops,
        }
    }
    pub fn epoch_q(&self, id: u64) -> Result<Epoch, String> {
        query::<fee_distributor::EpochResponse, _>(&self.app, &self.distributor, &fee_distributor::QueryMsg::Epoch { id: Uint64::new(id) })
            .map(|r| r.epoch)
    }
    pub fn claimable_q(&self, who: &str) -> Result<Vec<Epoch>, String> {
        query::<fee_distributor::ClaimableEpochsResponse, _>(
            &self.app,
            &self.distributor,
            &fee_distributor::QueryMsg::Claimable { address: who.to_string() },
        )
        .map(|r| r.epochs)
    }
    pub fn pair_pending(&self, i: usize, all_time: bool) -> [u128; 2] {
        let r: Result<pair::ProtocolFeesResponse, String> = query(
            &self.app,
            &self.pairs[i],
            &pair::QueryMsg::ProtocolFees { asset_id: None, all_time: Some(all_time) },
        );
        let pa = pair_assets(i);
        let mut out = [0u128; 2];
        if let Ok(r) = r {
            for (k, a) in pa.iter().enumerate() {
                out[k] = r.fees.iter().find(|f| f.info == self.assets[*a]).map(|f| f.amount.u128()).unwrap_or(0);
            }
        }
        out
    }
    pub fn vault_pending(&self, i: usize) -> u128 {
        let r: Result<vault::ProtocolFeesResponse, String> =
            query(&self.app, &self.vaults[i], &vault::QueryMsg::ProtocolFees { all_time: false });
        r.map(|r| r.fees.amount.u128()).unwrap_or(0)
    }
    pub fn bonded_total(&self, u: usize) -> u128 {
        self.model.bonded[u][0].saturating_add(self.model.bonded[u][1])
    }
}

fn vault_fee(f: &[String; 2]) -> VaultFee {
    VaultFee {
        protocol_fee: Fee { share: dec(&f[0]) },
        flash_loan_fee: Fee { share: dec(&f[1]) },
        burn_fee: Fee { share: Decimal::zero() },
    }
}

fn gen_pair_fees(rng: &mut Rng) -> [String; 3] {
    let protocol = *rng.pick(&["0", "0.000000000000000001", "0.0001", "0.001", "0.001", "0.01", "0.05", "0.003"]);
    let swap = *rng.pick(&["0", "0.002", "0.003", "0.01", "0.07"]);
    let burn = *rng.pick(&["0", "0", "0", "0.001", "0.0005"]);
    [protocol.to_string(), swap.to_string(), burn.to_string()]
}

impl Scenario for Hub {
    const NAME: &'static str = "HUB";
    type Cfg = Cfg;
    type Step = Step;

    fn gen_cfg(rng: &mut Rng, prop: &str, tier: Tier, _idx: u64) -> Cfg {
        let n_users = rng.range(4, 5) as usize;
        let third_pair = match rng.below(4) {
            0 | 1 => None,
            2 => Some(0),
            _ => Some(*rng.pick(&[10u64, 85, 100, 1000])),
        };
        let routes_at_start = [
            if rng.chance(5, 6) { Some(0) } else { None },
            match rng.below(6) {
                0 => None,
                1 | 2 if third_pair.is_some() => Some(1),
                _ => Some(0),
            },
        ];
        let grace = match rng.below(8) {
            0 => 1,
            1 | 2 => 2,
            3 => 3,
            4 => 4,
            5 => 5,
            _ => rng.range(1, 3),
        };
        let duration_ns = match rng.below(8) {
            0 => DAY_NS + 1,
            1 => 2 * DAY_NS,
            2 => DAY_NS + 3_600_000_000_000,
            _ => DAY_NS,
        };
        let genesis_offset_ns = match rng.below(7) {
            // genesis at the unix epoch (a valid configuration the repo's own tests use): the clock is
            // thousands of epochs late from the start
            6 => u64::MAX,
            0 => 0,
            1 => 1,
            2 => 3_600_000_000_000,
            3 => DAY_NS / 2,
            4 => 3 * DAY_NS + 17,
            _ => 60_000_000_000,
        };
        let take_start = if rng.chance(3, 5) {
            Some(TakeCfg {
                rate: rng.pick(&["0.1", "0.1", "0.000000000000000001", "0.999999999999999999", "0", "0.25", "0.013"]).to_string(),
                dao: rng.idx(2),
                active: rng.chance(5, 6),
            })
        } else {
            None
        };
        let mut weights: [u32; N_OPS] = [22, 8, 6, 10, 5, 3, 16, 3, 10, 5, 3, 4, 2, 2, 4];
        for i in [W_LOAN, W_INFLOW, W_UNBOND, W_WITHDRAW, W_CLAIM_MANY, W_SET_GRACE, W_SET_TAKE, W_FORWARD, W_COLLECT, W_ENV] {
            if rng.chance(1, 4) {
                weights[i] = 0;
            }
        }
        match prop {
            "C09" => {
                weights[W_CLAIM] = 14;
                weights[W_CLAIM_MANY] = 8;
                weights[W_SET_GRACE] = weights[W_SET_GRACE].max(3);
                weights[W_BOND] = 12;
            }
            "C10" => {
                weights[W_LOAN] = 8;
                weights[W_INFLOW] = 7;
                weights[W_SET_TAKE] = 5;
                weights[W_FORWARD] = 3;
                weights[W_ENV] = weights[W_ENV].max(3);
                weights[W_NEW_EPOCH] = 20;
            }
            "C20" => {
                weights[W_NEW_EPOCH] = 30;
                weights[W_CATCH_UP] = 8;
            }
            _ => {}
        }
        let max_steps = {
            let cap = if tier == Tier::Thorough { 200 } else { 60 };
            let mut n = 8;
            while n < cap && !rng.chance(1, 22) {
                n += 1;
            }
            n
        };
        let faults = rng.chance(1, 3);
        // the last entry: pools of 18-decimals tokens (fees and collector balances beyond 2^68)
        let liquidity = *rng.pick(&[1_000_000_000u128, 1_000_000_000_000, 1_000_000_000_000, 50_000_000, 1_000_000_000_000, 1_000_000_000, 2_000_000_000_000_000_000_000_000]);
        let pair_fees = [gen_pair_fees(rng), gen_pair_fees(rng), gen_pair_fees(rng)];
        let vault_native_is_whale = rng.chance(1, 3);
        let vault_fees = [
            [rng.pick(&["0.001", "0.01", "0", "0.0001"]).to_string(), rng.pick(&["0.001", "0.003", "0"]).to_string()],
            [rng.pick(&["0.001", "0.02", "0", "0.000001"]).to_string(), rng.pick(&["0.001", "0.003", "0"]).to_string()],
        ];
        let unbonding_ns = *rng.pick(&[1_000_000_000u64, 3_600_000_000_000, DAY_NS, 3 * DAY_NS]);
        let growth = rng.pick(&["0", "1", "0.000001", "0.5"]).to_string();
        let whale_inflows = rng.chance(1, 10);
        // epoch duration changes mid-history
        let mut w_set_duration = match prop {
            "C20" => 4,
            "C09" => 3,
            _ => 2,
        };
        if rng.chance(1, 3) {
            w_set_duration = 0;
        }
        let late_bonder_script = match prop {
            "C09" => rng.chance(1, 5),
            _ => rng.chance(1, 12),
        };
        let script_epochs = rng.range(2, 4) as u32;
        let mut max_steps = max_steps;
        let mut genesis_offset_ns = genesis_offset_ns;
        if late_bonder_script {
            // the script needs room, and a genesis near the clock (with a genesis at the unix epoch the
            // lair's arithmetic epoch id is thousands ahead whatever the duration is)
            max_steps = max_steps.max(32);
            if genesis_offset_ns == u64::MAX {
                genesis_offset_ns = 60_000_000_000;
            }
        }
        // many registered pools / vaults (drawn last so that older run seeds keep their meaning)
        let filler_pairs = match rng.below(if prop == "C10" { 24 } else { 60 }) {
            0 | 1 => 11,
            2 => 31,
            _ => 0,
        };
        let filler_vaults = match rng.below(if prop == "C10" { 24 } else { 60 }) {
            0 | 1 => 11,
            2 => 31,
            _ => 0,
        };
        let w_set_dist = if (prop == "C09" || prop == "C10") && rng.chance(1, 4) { 1 } else { 0 };
        Cfg {
            n_users,
            max_steps,
            faults,
            liquidity,
            pair_fees,
            third_pair,
            vault_native_is_whale,
            vault_fees,
            grace,
            duration_ns,
            genesis_offset_ns,
            unbonding_ns,
            growth,
            routes_at_start,
            take_start,
            whale_inflows,
            weights,
            w_set_duration,
            late_bonder_script,
            script_epochs,
            filler_pairs,
            filler_vaults,
            w_set_dist,
        }
    }

    fn max_steps(cfg: &Cfg) -> usize {
        cfg.max_steps
    }

    fn build(cfg: &Cfg, _ctx: &mut Ctx) -> Self {
        let n = cfg.n_users;
        // pool assets: a thousand times the pool liquidity at least
        let asset_funds = USER_FUNDS.max(cfg.liquidity.saturating_mul(1_000_000));
        let rich = |extra: u128| -> Vec<Coin> {
            let mut v = vec![
                coin(USER_FUNDS + extra, BOND_DENOMS[0]),
                coin(USER_FUNDS + extra, BOND_DENOMS[1]),
                coin(asset_funds + extra, USDC),
                coin(asset_funds + extra, WHALE),
            ];
            v.sort_by(|a, b| a.denom.cmp(&b.denom));
            v
        };
        let mut bals: Vec<(&str, Vec<Coin>)> = USERS.iter().take(n).map(|u| (*u, rich(0))).collect();
        let n_fill = cfg.filler_pairs.max(cfg.filler_vaults);
        let mut owner_coins = rich(0);
        if n_fill > 0 {
            for i in 0..n_fill {
                owner_coins.push(coin(1_000_000, filler_denom(i)));
            }
            owner_coins.push(coin(1_000_000, FILLER_QUOTE));
            owner_coins.sort_by(|a, b| a.denom.cmp(&b.denom));
        }
        bals.push((OWNER, owner_coins));
        let mut app = new_app(&bals);
        let start_ns = now_ns(&app);
        let start_height = height(&app);

        let token_code = app.store_code(code::token());
        let pair_code = app.store_code(code::pair());
        let trio_code = app.store_code(code::trio());
        let factory_code = app.store_code(code::pool_factory());
        let router_code = app.store_code(code::pool_router());
        let vault_code = app.store_code(code::vault());
        let vfactory_code = app.store_code(code::vault_factory());
        let collector_code = app.store_code(code::fee_collector());
        let distributor_code = app.store_code(code::fee_distributor());
        let lair_code = app.store_code(code::whale_lair());
        let borrower_code_id = app.store_code(borrower_code());

        let collector = must_instantiate(&mut app, collector_code, OWNER, &fee_collector::InstantiateMsg {}, "fee_collector", None);
        let factory = must_instantiate(
            &mut app,
            factory_code,
            OWNER,
            &factory::InstantiateMsg {
                pair_code_id: pair_code,
                trio_code_id: trio_code,
                token_code_id: token_code,
                fee_collector_addr: collector.clone(),
            },
            "pool_factory",
            None,
        );
        let router = must_instantiate(
            &mut app,
            router_code,
            OWNER,
            &router::InstantiateMsg { terraswap_factory: factory.clone() },
            "pool_router",
            Some(OWNER),
        );
        let vfactory = must_instantiate(
            &mut app,
            vfactory_code,
            OWNER,
            &vault_factory::InstantiateMsg {
                owner: OWNER.to_string(),
                vault_id: vault_code,
                token_id: token_code,
                fee_collector_addr: collector.clone(),
            },
            "vault_factory",
            None,
        );
        let lair = must_instantiate(
            &mut app,
            lair_code,
            OWNER,
            &whale_lair::InstantiateMsg {
                unbonding_period: Uint64::new(cfg.unbonding_ns),
                growth_rate: dec(&cfg.growth),
                bonding_assets: vec![native(BOND_DENOMS[0]), native(BOND_DENOMS[1])],
            },
            "whale_lair",
            None,
        );
        let genesis = if cfg.genesis_offset_ns == u64::MAX { 0 } else { start_ns + cfg.genesis_offset_ns };
        let distributor = must_instantiate(
            &mut app,
            distributor_code,
            OWNER,
            &fee_distributor::InstantiateMsg {
                bonding_contract_addr: lair.clone(),
                fee_collector_addr: collector.clone(),
                grace_period: Uint64::new(cfg.grace),
                epoch_config: EpochConfig { duration: Uint64::new(cfg.duration_ns), genesis_epoch: Uint64::new(genesis) },
                distribution_asset: native(WHALE),
            },
            "fee_distributor",
            None,
        );
        must_exec(
            &mut app,
            OWNER,
            &lair,
            &whale_lair::ExecuteMsg::UpdateConfig {
                owner: None,
                unbonding_period: None,
                growth_rate: None,
                fee_distributor_addr: Some(distributor.clone()),
            },
            vec![],
        );
        must_exec(
            &mut app,
            OWNER,
            &collector,
            &fee_collector::ExecuteMsg::UpdateConfig {
                owner: None,
                pool_router: Some(router.clone()),
                fee_distributor: Some(distributor.clone()),
                pool_factory: Some(factory.clone()),
                vault_factory: Some(vfactory.clone()),
                take_rate: cfg.take_start.as_ref().map(|t| dec(&t.rate)),
                take_rate_dao_address: cfg.take_start.as_ref().map(|t| DAOS[t.dao % 2].to_string()),
                is_take_rate_active: cfg.take_start.as_ref().map(|t| t.active),
            },
            vec![],
        );
        for d in [WHALE, USDC] {
            must_exec(
                &mut app,
                OWNER,
                &factory,
                &factory::ExecuteMsg::AddNativeTokenDecimals { denom: d.to_string(), decimals: 6 },
                vec![coin(1, d)],
            );
        }
        let borrower = must_instantiate(&mut app, borrower_code_id, OWNER, &cosmwasm_std::Empty {}, "borrower", None);
        let mut tb: Vec<(&str, u128)> = USERS.iter().take(n).map(|u| (*u, asset_funds)).collect();
        tb.push((OWNER, asset_funds));
        tb.push((&borrower, asset_funds));
        let tka = new_cw20(&mut app, token_code, "TKA", 6, OWNER, &tb);
        let assets = [native(WHALE), native(USDC), token(&tka)];
        // the borrower pays the loan fees from its own pocket
        let r = tx(
            &mut app,
            OWNER,
            vec![bank_send(&borrower, asset_funds / 2, WHALE), bank_send(&borrower, asset_funds / 2, USDC)],
            Fault::None,
        );
        assert!(r.outcome.is_ok(), "harness: fund borrower: {}", r.outcome.err_text());

        // idle filler pools / vaults over denoms that sort before every asset under test
        if cfg.filler_pairs > 0 {
            let mut ds: Vec<String> = (0..cfg.filler_pairs).map(filler_denom).collect();
            ds.push(FILLER_QUOTE.to_string());
            for d in &ds {
                must_exec(&mut app, OWNER, &factory, &factory::ExecuteMsg::AddNativeTokenDecimals { denom: d.clone(), decimals: 6 }, vec![coin(1, d.as_str())]);
            }
            for i in 0..cfg.filler_pairs {
                must_exec(
                    &mut app,
                    OWNER,
                    &factory,
                    &factory::ExecuteMsg::CreatePair {
                        asset_infos: [native(&filler_denom(i)), native(FILLER_QUOTE)],
                        pool_fees: pool_fee(&cfg.pair_fees[0]),
                        pair_type: PairType::ConstantProduct,
                        token_factory_lp: false,
                    },
                    vec![],
                );
            }
        }
        for i in 0..cfg.filler_vaults {
            must_exec(
                &mut app,
                OWNER,
                &vfactory,
                &vault_factory::ExecuteMsg::CreateVault { asset_info: native(&filler_denom(i)), fees: vault_fee(&cfg.vault_fees[0]), token_factory_lp: false },
                vec![],
            );
        }
        let n_pairs = if cfg.third_pair.is_some() { 3 } else { 2 };
        let mut pairs = vec![];
        for i in 0..n_pairs {
            let pa = pair_assets(i);
            let infos = [assets[pa[0]].clone(), assets[pa[1]].clone()];
            let pair_type = match (i, cfg.third_pair) {
                (2, Some(amp)) if amp > 0 => PairType::StableSwap { amp },
                _ => PairType::ConstantProduct,
            };
            must_exec(
                &mut app,
                OWNER,
                &factory,
                &factory::ExecuteMsg::CreatePair {
                    asset_infos: infos.clone(),
                    pool_fees: pool_fee(&cfg.pair_fees[i]),
                    pair_type,
                    token_factory_lp: false,
                },
                vec![],
            );
            let info: PairInfo = query(&app, &factory, &factory::QueryMsg::Pair { asset_infos: infos }).expect("harness: pair info");
            pairs.push(info.contract_addr);
        }
        let vault_asset = [if cfg.vault_native_is_whale { 0 } else { 1 }, 2];
        let mut vaults: Vec<String> = vec![];
        for i in 0..2 {
            must_exec(
                &mut app,
                OWNER,
                &vfactory,
                &vault_factory::ExecuteMsg::CreateVault {
                    asset_info: assets[vault_asset[i]].clone(),
                    fees: vault_fee(&cfg.vault_fees[i]),
                    token_factory_lp: false,
                },
                vec![],
            );
            let v: Option<String> =
                query(&app, &vfactory, &vault_factory::QueryMsg::Vault { asset_info: assets[vault_asset[i]].clone() }).expect("harness: vault addr");
            vaults.push(v.expect("harness: vault exists"));
        }

        let mut s = Hub {
            cfg: cfg.clone(),
            app,
            assets,
            tka,
            collector,
            distributor,
            lair,
            factory,
            router,
            vfactory,
            borrower,
            pairs,
            vaults: [vaults[0].clone(), vaults[1].clone()],
            vault_asset,
            start_ns,
            start_height,
            model: Model {
                grace: cfg.grace,
                genesis,
                duration: cfg.duration_ns,
                bonded: vec![[0, 0]; n],
                began: vec![None; n],
                has_cursor: vec![false; n],
                began_seq: vec![0; n],
                ever_bonded: vec![false; n],
                late_first: vec![false; n],
                pair_registered: vec![true; n_pairs],
                pair_paused: vec![false; n_pairs],
                routes: [None, None],
                ..Default::default()
            },
        };
        if let Some(t) = &cfg.take_start {
            s.model.take_rate18 = crate::big::dec_atomics(&t.rate);
            s.model.dao = Some(t.dao % 2);
            s.model.take_active = t.active;
        }
        // liquidity
        for i in 0..n_pairs {
            let pa = pair_assets(i);
            let mut msgs = vec![];
            let mut funds = vec![];
            for a in pa {
                match &s.assets[a] {
                    AssetInfo::NativeToken { denom } => funds.push(coin(cfg.liquidity, denom)),
                    AssetInfo::Token { contract_addr } => msgs.push(wasm_exec(
                        contract_addr,
                        &cw20::Cw20ExecuteMsg::IncreaseAllowance {
                            spender: s.pairs[i].clone(),
                            amount: Uint128::new(cfg.liquidity),
                            expires: None,
                        },
                        vec![],
                    )),
                }
            }
            funds.sort_by(|a, b| a.denom.cmp(&b.denom));
            msgs.push(wasm_exec(
                &s.pairs[i],
                &pair::ExecuteMsg::ProvideLiquidity {
                    assets: [s.asset(pa[0], cfg.liquidity), s.asset(pa[1], cfg.liquidity)],
                    slippage_tolerance: None,
                    receiver: None,
                },
                funds,
            ));
            let r = tx(&mut s.app, OWNER, msgs, Fault::None);
            assert!(r.outcome.is_ok(), "harness: liquidity pair {i}: {}", r.outcome.err_text());
        }
        // vault deposits
        for i in 0..2 {
            let amount = cfg.liquidity;
            let msgs = match &s.assets[s.vault_asset[i]] {
                AssetInfo::NativeToken { denom } => vec![wasm_exec(
                    &s.vaults[i],
                    &vault::ExecuteMsg::Deposit { amount: Uint128::new(amount) },
                    vec![coin(amount, denom)],
                )],
                AssetInfo::Token { contract_addr } => vec![
                    wasm_exec(
                        contract_addr,
                        &cw20::Cw20ExecuteMsg::IncreaseAllowance { spender: s.vaults[i].clone(), amount: Uint128::new(amount), expires: None },
                        vec![],
                    ),
                    wasm_exec(&s.vaults[i], &vault::ExecuteMsg::Deposit { amount: Uint128::new(amount) }, vec![]),
                ],
            };
            let r = tx(&mut s.app, OWNER, msgs, Fault::None);
            assert!(r.outcome.is_ok(), "harness: vault deposit {i}: {}", r.outcome.err_text());
        }
        // routes
        for (k, kind) in cfg.routes_at_start.iter().enumerate() {
            if let Some(kind) = kind {
                let kind = if cfg.third_pair.is_none() { 0 } else { *kind };
                let route = s.route_msg(k + 1, kind);
                must_exec(&mut s.app, OWNER, &s.router.clone(), &router::ExecuteMsg::AddSwapRoutes { swap_routes: vec![route] }, vec![]);
                s.model.routes[k] = Some(kind);
            }
        }
        s
    }

    fn gen_step(&mut self, rng: &mut Rng, ctx: &mut Ctx) -> Option<Step> {
        Some(crate::scen::hub_gen::gen_step(self, rng, ctx))
    }

    fn apply(&mut self, step: &Step, ctx: &mut Ctx) {
        crate::scen::hub_oracle::apply(self, step, ctx)
    }

    fn finish(&mut self, ctx: &mut Ctx) {
        crate::scen::hub_oracle::finish(self, ctx)
    }

    fn simplify(step: &Step) -> Vec<Step> {
        crate::scen::hub_gen::simplify(step)
    }

    fn sim_clock(&self) -> (u64, u64) {
        (self.now().saturating_sub(self.start_ns), height(&self.app).saturating_sub(self.start_height))
    }
}

/// The distributor half of C20; the coordinator combines it with the EPOCH scenario part.
pub fn hub_part_c20() -> PlanPart {
    PlanPart { scen: crate::core::scen::<Hub>(), quick_runs: 5000, thorough_runs: 150_000 }
}

pub fn toggle(swaps_enabled: bool) -> FeatureToggle {
    FeatureToggle { withdrawals_enabled: true, deposits_enabled: true, swaps_enabled }
}
