//! State-aware step generation for HUB. What is recorded is the concrete step.

use crate::core::Ctx;
use crate::rng::Rng;
use crate::scen::hub::*;
use crate::world::Fault;

const BLOCK_NS: u64 = 6_000_000_000;
const HOUR_NS: u64 = 3_600_000_000_000;

fn blocks_for(rng: &mut Rng, ns: u64) -> u64 {
    if ns == 0 {
        0
    } else if ns < BLOCK_NS {
        rng.below(2)
    } else {
        (ns / BLOCK_NS).max(1)
    }
}

/// clock move of a step that is not an epoch creation
fn idle_clock(rng: &mut Rng, now: u64, b: u64, dur: u64) -> u64 {
    match rng.below(22) {
        0..=9 => 0,
        10..=12 => BLOCK_NS,
        13 => 1,
        14..=16 => rng.range(1, 6) * HOUR_NS + rng.below(1000),
        17 if now < b => b - now - 1,
        18 if now < b => b - now,
        19 if now < b => b - now + 1,
        20 => rng.range(1, dur),
        _ => 0,
    }
}

/// clock move of an epoch creation attempt: the boundary alphabet
fn epoch_clock(rng: &mut Rng, now: u64, b: u64, dur: u64) -> u64 {
    if now < b {
        let d = b - now;
        match rng.below(20) {
            0..=1 => 0,
            2 => 1.min(d - 1),
            3..=5 => d - 1,
            6..=11 => d,
            12..=13 => d + 1,
            14 => d + rng.range(2, dur - 1),
            15..=16 => d + rng.range(1, 4) * dur + *rng.pick(&[0u64, 1, 17, dur - 1]),
            17 => d / 2,
            18 => d + dur - 1,
            _ => d + BLOCK_NS,
        }
    } else {
        match rng.below(12) {
            0..=6 => 0,
            7 => 1,
            8 => BLOCK_NS,
            9 => rng.range(1, 3) * dur,
            10 => b.saturating_add(dur).saturating_sub(now).saturating_sub(1).min(dur),
            _ => rng.range(1, dur),
        }
    }
}

/// value of a SetDuration: the alphabet around the lower bound (1 day) and around the current value
fn duration_class(rng: &mut Rng, dur: u64) -> u64 {
    match rng.below(16) {
        0..=3 => raised_duration(rng, dur),
        4..=5 => DAY_NS,
        6 => dur,
        7 => dur + 1,
        8 => DAY_NS + HOUR_NS,
        9 => (dur / 2).max(DAY_NS),
        10 => DAY_NS + 1,
        // invalid: below one day
        11 => DAY_NS - 1,
        12 => 0,
        13 => 1,
        14 => DAY_NS / 2,
        _ => rng.range(1, DAY_NS - 1),
    }
}

/// a longer duration, at most 6 days
fn raised_duration(rng: &mut Rng, dur: u64) -> u64 {
    let v = match rng.below(4) {
        0 => dur.saturating_add(DAY_NS),
        1 => dur.saturating_mul(3),
        _ => dur.saturating_mul(2),
    };
    if v > 6 * DAY_NS {
        dur.saturating_add(DAY_NS).min(7 * DAY_NS)
    } else {
        v
    }
}

fn amount_class(rng: &mut Rng, liq: u128) -> u128 {
    match rng.below(10) {
        0 => rng.range128(1, 2_000),
        1 => *rng.pick(&[1u128, 999, 1_000, 1_001, 1_000_000, 1_000_999, 1_001_000]),
        2..=3 => rng.log_amount((liq / 100).max(10)),
        4..=6 => rng.range128(100_000.min(liq / 200), (liq / 50).max(2)),
        _ => rng.range128((liq / 100).max(1), (liq / 12).max(2)),
    }
}

pub fn gen_step(s: &mut Hub, rng: &mut Rng, ctx: &mut Ctx) -> Step {
    let n = s.cfg.n_users;
    let mut actor = rng.idx(n);
    let now = s.now();
    let b = s.boundary();
    let dur = s.model.duration.max(4); // (a changed contract may accept a duration of 0: keep the generator arithmetic defined)
    let due = now >= b;
    let liq = s.cfg.liquidity;
    let mut w = s.cfg.weights;
    let bonders = (0..n).filter(|u| s.bonded_total(*u) > 0).count();
    if bonders < 3 {
        w[W_BOND] *= 4;
    }
    if due {
        // keep epochs flowing: a due epoch is usually created soon
        w[W_NEW_EPOCH] = w[W_NEW_EPOCH] * 3 + 20;
        w[W_CATCH_UP] *= 2;
    }
    // ---- the late-first-bonder script (see `Cfg::late_bonder_script`): the last user stays out until the
    // owner has raised the duration mid-history, then bonds in the middle of an epoch and keeps claiming
    let script = s.cfg.late_bonder_script && n >= 2;
    let late_user = n - 1;
    if script {
        if !s.model.dur_raised_mid {
            if s.model.epochs.len() >= s.cfg.script_epochs as usize && !due && rng.chance(1, 2) {
                let adv_ns = if rng.chance(1, 2) { 0 } else { rng.below(2) * BLOCK_NS + rng.below(3) };
                let adv_ns = if now.saturating_add(adv_ns) >= b { 0 } else { adv_ns };
                ctx.probe("script_duration_raise_generated");
                let adv_blocks = blocks_for(rng, adv_ns);
                return Step { actor, op: Op::SetDuration { duration_ns: raised_duration(rng, dur), by_owner: true }, adv_ns, adv_blocks, fault: Fault::None };
            }
            w[W_NEW_EPOCH] += 16;
        } else if !s.model.ever_bonded[late_user] {
            if let Some(e) = s.model.epochs.last() {
                let off = now.saturating_sub(e.start_time.nanos());
                // the lair accepts bondings during the first day of the current epoch only
                if off + 7 * HOUR_NS < DAY_NS && rng.chance(2, 3) {
                    let adv_ns = match rng.below(8) {
                        0 if off >= 1_000_000_000 => 0,
                        1 => 1_000_000_000 + rng.below(1000),
                        _ => rng.range(1, 6) * HOUR_NS + rng.below(1000),
                    };
                    let denom = rng.idx(2);
                    let amount = match rng.below(4) {
                        0 => rng.range128(1, 1_000),
                        1 => *rng.pick(&[1_000_000u128, 250_000, 50_000_000]),
                        _ => rng.log_amount(1_000_000_000_000),
                    };
                    ctx.probe("script_late_first_bond_generated");
                    let adv_blocks = blocks_for(rng, adv_ns);
                    return Step { actor: late_user, op: Op::Bond { denom, amount }, adv_ns, adv_blocks, fault: Fault::None };
                }
            }
        } else if rng.chance(1, 3) {
            let mut adv_ns = idle_clock(rng, now, b, dur);
            if now.saturating_add(adv_ns) > b.saturating_add(dur) {
                adv_ns = 0;
            }
            ctx.probe("script_late_bonder_claim_generated");
            let adv_blocks = blocks_for(rng, adv_ns);
            return Step { actor: late_user, op: Op::Claim, adv_ns, adv_blocks, fault: Fault::None };
        }
    }
    // ---- the returning bonder: an address that claimed, unbonded everything and comes back right after an epoch
    // was created on schedule (same whole second as the epoch's start), WITHOUT claiming first. The lair has to
    // refuse that bonding while the new epoch is claimable for the stale cursor; if it does not, the claim that
    // follows pays the returner for an epoch whose snapshot does not contain it.
    if let Some(e) = s.model.epochs.last() {
        let i = s.model.epochs.len() - 1;
        let start = e.start_time.nanos();
        if s.model.created_at[i] == now && now >= start && now - start < 1_000_000_000 {
            let back: Vec<usize> = (0..n).filter(|u| s.model.has_cursor[*u] && s.model.ever_bonded[*u] && s.bonded_total(*u) == 0).collect();
            if !back.is_empty() && rng.chance(1, 2) {
                let u = *rng.pick(&back);
                ctx.probe("returning_bonder_right_after_epoch_creation_generated");
                let adv_ns = *rng.pick(&[0u64, 1, 2, 1000]);
                let adv_ns = if now + adv_ns - start >= 1_000_000_000 { 0 } else { adv_ns };
                return Step { actor: u, op: Op::Bond { denom: rng.idx(2), amount: *rng.pick(&[1u128, 500_000, 1_000_000]) }, adv_ns, adv_blocks: 0, fault: Fault::None };
            }
        }
        // (somebody has to leave first: an address with a cursor unbonds everything now and then)
        if rng.chance(1, 14) {
            let leavers: Vec<(usize, usize)> = (0..n)
                .filter(|u| s.model.has_cursor[*u])
                .flat_map(|u| (0..2usize).map(move |d| (u, d)))
                .filter(|(u, d)| s.model.bonded[*u][*d] > 0 && s.model.bonded[*u][1 - *d] == 0)
                .collect();
            if !leavers.is_empty() {
                let (u, d) = *rng.pick(&leavers);
                ctx.probe("full_unbond_of_an_address_with_cursor_generated");
                return Step { actor: u, op: Op::Unbond { denom: d, amount: s.model.bonded[u][d] }, adv_ns: 0, adv_blocks: 0, fault: Fault::None };
            }
        }
        // ... and the claim that follows such a return (or any fresh bonding of an address with a cursor)
        let fresh: Vec<usize> = (0..n).filter(|u| s.model.has_cursor[*u] && s.bonded_total(*u) > 0 && s.model.began[*u].map(|t| t >= start && now.saturating_sub(t) < 1_000_000_000).unwrap_or(false)).collect();
        if !fresh.is_empty() && rng.chance(1, 2) {
            let u = *rng.pick(&fresh);
            ctx.probe("claim_right_after_fresh_bonding_generated");
            return Step { actor: u, op: Op::Claim, adv_ns: *rng.pick(&[0u64, 1, 1_000_000_000]), adv_blocks: 0, fault: Fault::None };
        }
    }
    // one more op kind than `Cfg::weights` has slots for
    const W_SET_DURATION: usize = N_OPS;
    const W_SET_DIST: usize = N_OPS + 1;
    let mut w16 = [0u32; N_OPS + 2];
    w16[..N_OPS].copy_from_slice(&w);
    w16[N_OPS] = s.cfg.w_set_duration;
    // only once some epochs exist, so that an epoch created before the switch is still in its grace window
    w16[N_OPS + 1] = if s.model.epochs.len() >= 2 { s.cfg.w_set_dist } else { 0 };
    let mut kind = rng.weighted(&w16);
    if kind == W_WITHDRAW && s.model.unbonds.is_empty() && rng.chance(4, 5) {
        kind = W_SWAP;
    }
    let mut fault = Fault::None;
    let mut adv_ns = idle_clock(rng, now, b, dur);
    // an operator reacts when epoch creation is blocked by a failing aggregation swap (N1)
    let mut repair: Option<Op> = None;
    if s.model.blocked_streak > 0 && rng.chance(3, 5) {
        let mut cands: Vec<Op> = vec![];
        for a in 1..=2usize {
            if let Some(k) = s.model.routes[a - 1] {
                cands.push(Op::Route { asset: a, add: None });
                for p in route_pairs(a, k) {
                    if p < s.pairs.len() && s.model.pair_paused[p] {
                        cands.push(Op::Pause { pair: p, swaps_enabled: true });
                    }
                }
            }
        }
        if !cands.is_empty() {
            repair = Some(cands[rng.idx(cands.len())].clone());
            kind = W_ENV;
        }
    }

    let op = match kind {
        W_SWAP => {
            let pair = rng.idx(s.pairs.len());
            Op::Swap { pair, side: rng.idx(2), amount: amount_class(rng, liq) }
        }
        W_LOAN => {
            let vault = rng.idx(2);
            let amount = match rng.below(6) {
                0 => rng.range128(1, 999),
                1 => *rng.pick(&[1_000u128, 100_000, 1_000_001]),
                2..=3 => rng.log_amount((liq / 10).max(10)),
                _ => rng.range128((liq / 4).max(1), (liq / 2).max(2)),
            };
            Op::Loan { vault, amount }
        }
        W_INFLOW => {
            let to_distributor = rng.chance(1, 6);
            let asset = if to_distributor { 0 } else { rng.idx(3) };
            let amount = if s.cfg.whale_inflows && asset != 0 && rng.chance(1, 3) {
                ctx.probe("whale_inflow_generated");
                liq * rng.range(3, 6) as u128
            } else {
                match rng.below(6) {
                    0 => rng.range128(1, 1_000),
                    1 => *rng.pick(&[1_000u128, 1_001, 1_002]),
                    _ => rng.log_amount((liq / 100).max(2_000)),
                }
            };
            Op::Inflow { asset, amount, to_distributor }
        }
        W_BOND | W_UNBOND | W_WITHDRAW => {
            if kind == W_BOND && bonders < 3 {
                // prefer a user who is not bonded yet
                if let Some(u) = (0..n).find(|u| s.bonded_total(*u) == 0) {
                    if rng.chance(3, 4) {
                        actor = u;
                    }
                }
            }
            if kind == W_UNBOND {
                let cands: Vec<usize> = (0..n).filter(|u| s.bonded_total(*u) > 0).collect();
                if !cands.is_empty() {
                    actor = *rng.pick(&cands);
                }
            }
            let pending_claim = s.claimable_q(s.user(actor)).map(|e| !e.is_empty()).unwrap_or(false);
            if kind != W_WITHDRAW && pending_claim && rng.chance(3, 4) {
                // the lair refuses to (un)bond while rewards are unclaimed
                Op::Claim
            } else if kind == W_BOND {
                let denom = rng.idx(2);
                let amount = match rng.below(5) {
                    0 => rng.range128(1, 1_000),
                    1 => *rng.pick(&[1u128, 1_000_000, 250_000, 750_000]),
                    _ => rng.log_amount(1_000_000_000_000),
                };
                Op::Bond { denom, amount }
            } else if kind == W_UNBOND {
                let denom = if s.model.bonded[actor][0] > 0 && (s.model.bonded[actor][1] == 0 || rng.chance(1, 2)) { 0 } else { 1 };
                let have = s.model.bonded[actor][denom];
                let amount = match rng.below(5) {
                    0 => have,
                    1 => have.saturating_add(1),
                    2 => (have / 2).max(1),
                    _ => rng.range128(1, have.max(1)),
                };
                Op::Unbond { denom, amount }
            } else {
                // someone with an unbonding the model knows, around its maturity
                let mut denom = rng.idx(2);
                if !s.model.unbonds.is_empty() && rng.chance(5, 6) {
                    let (u, d, t) = s.model.unbonds[rng.idx(s.model.unbonds.len())];
                    actor = u;
                    denom = d;
                    if t > now {
                        let wait = t - now;
                        adv_ns = match rng.below(6) {
                            0 => wait - 1,
                            1 | 2 => wait,
                            3 => wait + 1,
                            4 => adv_ns,
                            _ => wait + rng.below(dur),
                        };
                    }
                }
                Op::Withdraw { denom }
            }
        }
        W_NEW_EPOCH => {
            adv_ns = epoch_clock(rng, now, b, dur);
            if s.cfg.faults && rng.chance(1, 3) {
                // k over 1..60; most of the mass where this world's NewEpoch has sub-calls
                let wide = rng.chance(1, 4);
                fault = match rng.below(3) {
                    0 => Fault::SubCall(rng.range(1, if wide { 60 } else { 24 }) as u32),
                    1 => Fault::Bank(rng.range(1, if wide { 60 } else { 10 }) as u32),
                    _ => Fault::Query(rng.range(1, if wide { 60 } else { 34 }) as u32),
                };
            }
            Op::NewEpoch
        }
        W_CATCH_UP => {
            let k = rng.range(1, 4);
            let x = *rng.pick(&[0u64, 0, 1, dur - 1, dur / 3]);
            adv_ns = if now < b { b - now + (k - 1) * dur + x } else { k * dur };
            Op::CatchUp { calls: (k + rng.range(1, 2)) as u32 }
        }
        W_CLAIM => {
            if rng.chance(3, 4) {
                // prefer someone with something to claim
                let cands: Vec<usize> =
                    (0..n).filter(|u| s.claimable_q(s.user(*u)).map(|e| !e.is_empty()).unwrap_or(false)).collect();
                if !cands.is_empty() {
                    actor = *rng.pick(&cands);
                }
            }
            if s.cfg.faults && rng.chance(1, 10) {
                fault = match rng.below(3) {
                    0 => Fault::SubCall(rng.range(1, 2) as u32),
                    1 => Fault::Bank(1),
                    _ => Fault::Query(rng.range(1, 6) as u32),
                };
            }
            Op::Claim
        }
        W_CLAIM_MANY => {
            let mut order: Vec<usize> = (0..n).collect();
            rng.shuffle(&mut order);
            let dups = rng.range(1, 3) as usize;
            for _ in 0..dups {
                let d = order[rng.idx(order.len())];
                let pos = rng.idx(order.len() + 1);
                order.insert(pos, d);
            }
            adv_ns = if rng.chance(2, 3) { 0 } else { adv_ns };
            Op::ClaimMany { order }
        }
        W_SET_GRACE => {
            let g = s.model.grace;
            let by_owner = rng.chance(5, 6);
            let value = match rng.below(8) {
                0 => 0,
                1 => 31,
                2 => g.saturating_sub(1),
                3 => g,
                4..=6 => (g + 1).min(5).max(1),
                _ => rng.range(1, 5),
            };
            Op::SetGrace { value, by_owner }
        }
        W_SET_DURATION => {
            let by_owner = rng.chance(5, 6);
            Op::SetDuration { duration_ns: duration_class(rng, dur), by_owner }
        }
        W_SET_DIST => {
            let by_owner = rng.chance(5, 6);
            Op::SetDistAsset { asset: *rng.pick(&[1usize, 1, 2, 0]), by_owner }
        }
        W_SET_TAKE => {
            let by_owner = rng.chance(5, 6);
            let rate = match rng.below(9) {
                0 => None,
                1 => Some("0"),
                2 => Some("0.000000000000000001"),
                3 | 4 => Some("0.1"),
                5 => Some("0.999999999999999999"),
                6 => Some("1"),
                7 => Some("0.5"),
                _ => Some("1.5"),
            }
            .map(|x| x.to_string());
            let dao = if rng.chance(1, 2) { Some(rng.idx(2)) } else { None };
            let active = match rng.below(4) {
                0 => None,
                1 => Some(false),
                _ => Some(true),
            };
            Op::SetTake { rate, dao, active, by_owner }
        }
        W_FORWARD => Op::ForwardDirect { as_owner: rng.chance(1, 4) },
        W_COLLECT => Op::CollectDirect { aggregate: rng.chance(1, 2), vaults: rng.chance(1, 2) },
        _ if repair.is_some() => {
            ctx.probe("operator_repair_generated");
            repair.clone().unwrap()
        }
        _ => {
            // environment changes (F8)
            match rng.below(10) {
                0..=3 => {
                    let pair = rng.idx(s.pairs.len());
                    Op::Pause { pair, swaps_enabled: s.model.pair_paused[pair] && rng.chance(3, 4) }
                }
                4 => Op::RemovePair { pair: rng.idx(s.pairs.len()) },
                _ => {
                    let asset = 1 + rng.idx(2);
                    let add = if s.model.routes[asset - 1].is_some() && rng.chance(2, 3) {
                        None
                    } else {
                        Some(if asset == 2 && s.pairs.len() == 3 && rng.chance(1, 2) { 1 } else { 0 })
                    };
                    Op::Route { asset, add }
                }
            }
        }
    };
    // never let the clock pass the boundary far without an attempt to create the epoch when the
    // run is meant to collect many epochs: idle moves stop at most one duration after the boundary
    if !matches!(op, Op::NewEpoch | Op::CatchUp { .. } | Op::Withdraw { .. }) && now.saturating_add(adv_ns) > b.saturating_add(dur) {
        adv_ns = 0;
    }
    if script && !s.model.dur_raised_mid && actor == late_user && matches!(op, Op::Bond { .. }) {
        // the script's late bonder stays out until the duration has been raised
        actor = rng.idx(n - 1);
    }
    let adv_blocks = blocks_for(rng, adv_ns);
    Step { actor, op, adv_ns, adv_blocks, fault }
}

pub fn simplify(step: &Step) -> Vec<Step> {
    let mut out = vec![];
    if step.fault != Fault::None {
        out.push(Step { fault: Fault::None, ..step.clone() });
    }
    if step.adv_ns != 0 && !matches!(step.op, Op::NewEpoch | Op::CatchUp { .. }) {
        out.push(Step { adv_ns: 0, adv_blocks: 0, ..step.clone() });
    }
    let with = |op: Op| Step { op, ..step.clone() };
    match &step.op {
        Op::Swap { pair, side, amount } if *amount > 1 => {
            out.push(with(Op::Swap { pair: *pair, side: *side, amount: amount / 2 }));
            out.push(with(Op::Swap { pair: *pair, side: *side, amount: pow10_below(*amount) }));
        }
        Op::Loan { vault, amount } if *amount > 1 => {
            out.push(with(Op::Loan { vault: *vault, amount: amount / 2 }));
            out.push(with(Op::Loan { vault: *vault, amount: pow10_below(*amount) }));
        }
        Op::Inflow { asset, amount, to_distributor } if *amount > 1 => {
            out.push(with(Op::Inflow { asset: *asset, amount: amount / 2, to_distributor: *to_distributor }));
            out.push(with(Op::Inflow { asset: *asset, amount: pow10_below(*amount), to_distributor: *to_distributor }));
        }
        Op::Bond { denom, amount } if *amount > 1 => {
            out.push(with(Op::Bond { denom: *denom, amount: pow10_below(*amount) }));
        }
        Op::CatchUp { calls } => {
            out.push(with(Op::NewEpoch));
            if *calls > 1 {
                out.push(with(Op::CatchUp { calls: calls - 1 }));
            }
        }
        Op::ClaimMany { order } => {
            out.push(with(Op::Claim));
            if order.len() > 1 {
                out.push(with(Op::ClaimMany { order: order[..order.len() - 1].to_vec() }));
                out.push(with(Op::ClaimMany { order: order[1..].to_vec() }));
            }
        }
        _ => {}
    }
    out
}

fn pow10_below(x: u128) -> u128 {
    let mut p = 1u128;
    while p.saturating_mul(10) <= x {
        p *= 10;
    }
    if p == x {
        (p / 10).max(1)
    } else {
        p
    }
}
