//! Execution + oracles for HUB: C09 (epoch ledgers), C10 (fee pipeline), C20 (distributor clock).
//!
//! The oracles state what the property texts state:
//! * C09 — mirror of `Epoch{id}` for every id after every step; ledger identities; roll-over of the
//!   epoch leaving the grace window; claims pay what the ledgers lose, once per (address, epoch),
//!   never for an epoch that started before the claimant's current bonding began.
//! * C10 — per successful NewEpoch from balance deltas and ledgers of pools, vaults, collector, DAO,
//!   distributor; ForwardFees authorisation; failed step => full-state fingerprint unchanged.
//! * C20 — exact accept/reject model of NewEpoch, id' = id+1, start' = start+duration, where duration
//!   is the one configured at the time of the attempt (the model follows the owner's SetDuration).

use std::collections::BTreeMap;

use cosmwasm_std::{coin, Coin, CosmosMsg, Uint128, Uint64};
use white_whale_std::epoch_manager::epoch_manager::EpochConfig;
use white_whale_std::fee_collector::{self, FactoryType, FeesFor};
use white_whale_std::fee_distributor::{self, Epoch};
use white_whale_std::pool_network::asset::{Asset, AssetInfo};
use white_whale_std::pool_network::pair::{self, SimulationResponse};
use white_whale_std::pool_network::{factory, router};
use white_whale_std::vault_network::vault;
use white_whale_std::whale_lair;

use crate::big::*;
use crate::core::Ctx;
use crate::scen::hub::*;
use crate::world::*;

const PROPS: [&str; 3] = ["C09", "C10", "C20"];
const MIN_COLLECTABLE: u128 = 1_000;

// ---------------------------------------------------------------------------------------------
// observation
// ---------------------------------------------------------------------------------------------

/// asset index: 0 uwhale, 1 uusdc, 2 TKA, 3 ampwhale, 4 bwhale
fn asset5(s: &Hub, i: usize) -> AssetInfo {
    match i {
        0..=2 => s.assets[i].clone(),
        _ => native(BOND_DENOMS[i - 3]),
    }
}

#[derive(Clone, Debug)]
struct Obs {
    /// name -> balances of the five assets
    bal: BTreeMap<String, [u128; 5]>,
    pair_pending: Vec<[u128; 2]>,
    pair_all_time: Vec<[u128; 2]>,
    vault_pending: [u128; 2],
    supply: [u128; 3],
}

fn accounts(s: &Hub) -> Vec<String> {
    let mut v: Vec<String> = s.pairs.clone();
    v.extend(s.vaults.iter().cloned());
    for a in [&s.collector, &s.distributor, &s.router, &s.lair, &s.borrower, &s.factory, &s.vfactory] {
        v.push(a.clone());
    }
    v.push(OWNER.to_string());
    for d in DAOS {
        v.push(d.to_string());
    }
    for u in USERS.iter().take(s.cfg.n_users) {
        v.push(u.to_string());
    }
    v
}

/// Every bank account with its coins, read in one pass over the bank's storage (keys are
/// len-prefixed "bank", len-prefixed "balances", address). Unknown addresses are included, so a
/// transfer to an address outside `accounts()` cannot hide.
fn bank_scan(s: &Hub) -> BTreeMap<String, Vec<Coin>> {
    s.app.read_module(|_r, _a, storage| {
        let mut out = BTreeMap::new();
        let start = b"\x00\x04bank".to_vec();
        let end = b"\x00\x04banl".to_vec();
        for (k, v) in storage.range(Some(&start), Some(&end), cosmwasm_std::Order::Ascending) {
            const P: usize = 2 + 4 + 2 + 8;
            if k.len() > P && &k[8..P] == b"balances" {
                if let Ok(cs) = serde_json::from_slice::<Vec<Coin>>(&v) {
                    out.insert(String::from_utf8_lossy(&k[P..]).to_string(), cs);
                }
            }
        }
        out
    })
}

fn observe(s: &Hub) -> Obs {
    let bank = bank_scan(s);
    let denoms = [WHALE, USDC, "", BOND_DENOMS[0], BOND_DENOMS[1]];
    let mut bal: BTreeMap<String, [u128; 5]> = BTreeMap::new();
    let mut supply = [0u128; 3];
    let mut names: Vec<String> = accounts(s);
    for a in bank.keys() {
        if !names.contains(a) {
            names.push(a.clone());
        }
    }
    for a in names {
        let mut b = [0u128; 5];
        if let Some(cs) = bank.get(&a) {
            for c in cs {
                if let Some(i) = denoms.iter().position(|d| *d == c.denom) {
                    b[i] = b[i].saturating_add(c.amount.u128());
                    if i < 2 {
                        supply[i] = supply[i].saturating_add(c.amount.u128());
                    }
                }
            }
        }
        b[2] = balance(&s.app, &a, &s.assets[2]);
        bal.insert(a, b);
    }
    supply[2] = cw20_supply(&s.app, &s.tka);
    Obs {
        bal,
        pair_pending: (0..s.pairs.len()).map(|i| s.pair_pending(i, false)).collect(),
        pair_all_time: (0..s.pairs.len()).map(|i| s.pair_pending(i, true)).collect(),
        vault_pending: [s.vault_pending(0), s.vault_pending(1)],
        supply,
    }
}

/// SHA-256 over the raw chain storage (bank + every contract). Stricter than the canonicalised
/// `world::fingerprint` and sufficient here: no HUB contract stores a HashMap.
fn raw_fp(s: &Hub) -> [u8; 32] {
    use sha2::{Digest, Sha256};
    s.app.read_module(|_r, _a, storage| {
        let mut h = Sha256::new();
        for (k, v) in storage.range(None, None, cosmwasm_std::Order::Ascending) {
            h.update((k.len() as u32).to_be_bytes());
            h.update(&k);
            h.update((v.len() as u32).to_be_bytes());
            h.update(&v);
        }
        h.finalize().into()
    })
}

fn amount_of(v: &[Asset], info: &AssetInfo) -> u128 {
    v.iter().filter(|a| &a.info == info).fold(0u128, |acc, a| acc.saturating_add(a.amount.u128()))
}

/// every asset that appears in a ledger vector
fn infos_of(vs: &[&Vec<Asset>]) -> Vec<AssetInfo> {
    let mut out: Vec<AssetInfo> = vec![];
    for v in vs {
        for a in v.iter() {
            if !out.contains(&a.info) {
                out.push(a.info.clone());
            }
        }
    }
    out
}

/// all epochs the distributor knows, ids 1..; stops at the first id that does not exist
fn read_epochs(s: &Hub, at_least: usize) -> Result<Vec<Epoch>, String> {
    let mut out = vec![];
    let mut id = 1u64;
    loop {
        let e = s.epoch_q(id)?;
        if e.id.u64() == 0 {
            if (id as usize) <= at_least {
                return Err(format!("Epoch{{id:{id}}} is missing"));
            }
            break;
        }
        if e.id.u64() != id {
            return Err(format!("Epoch{{id:{id}}} returned an epoch with id {}", e.id));
        }
        out.push(e);
        id += 1;
        if id > 100_000 {
            return Err("epoch ids do not end".into());
        }
    }
    Ok(out)
}

/// (from, to, asset index 0..2) -> amount, from the bank `transfer` events and the cw20 events
fn flows(s: &Hub, out: &Outcome) -> BTreeMap<(String, String, usize), u128> {
    let mut m: BTreeMap<(String, String, usize), u128> = BTreeMap::new();
    let Outcome::Ok(r) = out else { return m };
    for e in &r.events {
        let get = |k: &str| e.attributes.iter().find(|a| a.key == k).map(|a| a.value.clone());
        if e.ty == "transfer" {
            let (Some(to), Some(from), Some(amount)) = (get("recipient"), get("sender"), get("amount")) else { continue };
            for part in amount.split(',') {
                let digits: String = part.chars().take_while(|c| c.is_ascii_digit()).collect();
                let denom = &part[digits.len()..];
                let idx = if denom == WHALE {
                    0
                } else if denom == USDC {
                    1
                } else {
                    continue;
                };
                let v: u128 = digits.parse().unwrap_or(u128::MAX);
                let slot = m.entry((from.clone(), to.clone(), idx)).or_insert(0);
                *slot = slot.saturating_add(v);
            }
        } else if e.ty == "wasm" && get("_contract_addr").as_deref() == Some(s.tka.as_str()) {
            let action = get("action").unwrap_or_default();
            if matches!(action.as_str(), "transfer" | "send" | "transfer_from" | "send_from") {
                let (Some(to), Some(from), Some(amount)) = (get("to"), get("from"), get("amount")) else { continue };
                let v: u128 = amount.parse().unwrap_or(u128::MAX);
                let slot = m.entry((from, to, 2)).or_insert(0);
                *slot = slot.saturating_add(v);
            }
        }
    }
    m
}

fn flow(m: &BTreeMap<(String, String, usize), u128>, from: &str, to: &str, asset: usize) -> u128 {
    m.get(&(from.to_string(), to.to_string(), asset)).copied().unwrap_or(0)
}

fn is_injected(e: &str) -> bool {
    e.contains("injected fault:")
}

fn fail_all(ctx: &mut Ctx, check: &str, sig: &str, detail: String) {
    for p in PROPS {
        ctx.fail(p, check, sig, None, detail.clone());
    }
}

// ---------------------------------------------------------------------------------------------
// generic transaction wrapper
// ---------------------------------------------------------------------------------------------

struct Done {
    r: TxResult,
}

/// Executes one tx; on failure the full-state fingerprint must be unchanged; a fired fault must
/// make the tx fail unless `fallback_ok` (documented fallbacks of the collector's aggregation).
fn run(s: &mut Hub, ctx: &mut Ctx, opname: &str, sender: &str, msgs: Vec<CosmosMsg>, fault: Fault, fallback_ok: bool) -> Done {
    // the state does not change between transactions, so the fingerprint after the previous tx
    // is the one before this tx
    let fp0 = match s.model.fp_cache {
        Some(f) => f,
        None => raw_fp(s),
    };
    s.model.seq += 1;
    let r = tx(&mut s.app, sender, msgs, fault);
    ctx.op(opname, r.outcome.kind());
    if r.fault_fired {
        ctx.fault(match fault {
            Fault::SubCall(_) => "F1_subcall",
            Fault::Bank(_) => "F2_bank",
            _ => "F3_query",
        });
    }
    if r.outcome.is_ok() {
        s.model.fp_cache = None;
        if r.fault_fired {
            // the only documented fallbacks are the collector's two queries to the swap router (route
            // lookup and route simulation: "if there is no swap route, skip swap and keep the asset"),
            // including whatever the router itself queries underneath; a failing query anywhere else
            // (bonding contract, distributor, pools, vaults, factories, tokens) must abort
            let at_router = r.query_fault_at.first().map(|a| *a == s.router).unwrap_or(false);
            if fallback_ok && matches!(fault, Fault::Query(_)) && at_router {
                ctx.probe("query_fault_absorbed_by_fallback");
            } else {
                ctx.eval("C10");
                ctx.fail("C10", "fault_swallowed", opname, None, format!("{opname} succeeded although {fault:?} fired inside it (failed query at {:?})", r.query_fault_at));
            }
        }
    } else {
        ctx.eval("C10");
        let fp1 = raw_fp(s);
        s.model.fp_cache = Some(fp1);
        // the canonical fingerprint of DESIGN 2.5 is a function of the raw one
        if fp0 != fp1 {
            let d = format!("{opname} failed ({}) but the full-state fingerprint changed", short(&r.outcome.err_text()));
            ctx.fail("C10", "failed_unchanged", opname, None, d.clone());
            if opname.starts_with("new_epoch") {
                ctx.fail("C20", "rejected_unchanged", opname, None, d.clone());
            }
            ctx.fail("C09", "failed_unchanged", opname, None, d);
        }
        if r.fault_fired && !is_injected(&r.outcome.err_text()) && r.outcome.kind() == 1 {
            ctx.probe("fault_masked_by_other_error");
        }
    }
    Done { r }
}

/// root cause of an error chain: its last line(s), the outer frames echo message JSON
fn short(e: &str) -> String {
    let chars: Vec<char> = e.chars().collect();
    if chars.len() <= 320 {
        return e.replace('\n', " ");
    }
    let head: String = chars[..80].iter().collect();
    let tail: String = chars[chars.len() - 220..].iter().collect();
    format!("{head} … {tail}").replace('\n', " ")
}

// ---------------------------------------------------------------------------------------------
// C09: end-of-step invariants over the mirror
// ---------------------------------------------------------------------------------------------

/// After every step: the chain's epochs equal the mirror (handlers of Claim / NewEpoch have already
/// validated and adopted their changes), the ledger identity holds while an epoch is not expired,
/// and the distributor's balance backs the sum of all `available`.
fn end_of_step(s: &mut Hub, ctx: &mut Ctx, what: &str) {
    let cur = match read_epochs(s, s.model.epochs.len()) {
        Ok(c) => c,
        Err(e) => {
            fail_all(ctx, "epoch_query", "query_failed", format!("after {what}: {e}"));
            return;
        }
    };
    ctx.eval("C09");
    if cur.len() != s.model.epochs.len() {
        let d = format!("after {what}: {} epochs on chain, {} expected", cur.len(), s.model.epochs.len());
        ctx.fail("C09", "untouched", "epoch_count", None, d.clone());
        ctx.fail("C20", "id_step", "epoch_count", None, d);
        return;
    }
    for (i, e) in cur.iter().enumerate() {
        if *e != s.model.epochs[i] {
            ctx.fail(
                "C09",
                "untouched",
                "epoch_changed",
                None,
                format!("after {what}: epoch {} changed without a claim or an epoch creation: {} -> {}", i + 1, s.model.epochs[i], e),
            );
            return;
        }
    }
    let mut sum_avail: BTreeMap<String, u128> = BTreeMap::new();
    for (i, e) in cur.iter().enumerate() {
        if !s.model.expired[i] {
            for info in infos_of(&[&e.total, &e.available, &e.claimed]) {
                let (t, a, c) = (amount_of(&e.total, &info), amount_of(&e.available, &info), amount_of(&e.claimed, &info));
                if c.checked_add(a) != Some(t) {
                    ctx.fail(
                        "C09",
                        "identity",
                        "claimed_plus_available_ne_total",
                        None,
                        format!("after {what}: epoch {} asset {}: claimed {c} + available {a} != total {t}", i + 1, asset_id(&info)),
                    );
                    return;
                }
            }
        }
        for a in &e.available {
            let slot = sum_avail.entry(asset_id(&a.info)).or_insert(0);
            *slot = slot.saturating_add(a.amount.u128());
        }
    }
    for (id, sum) in &sum_avail {
        let info = if *id == s.tka { token(id) } else { native(id) };
        let have = balance(&s.app, &s.distributor, &info);
        if *sum > have {
            ctx.fail(
                "C09",
                "available_backed",
                "sum_available_gt_balance",
                None,
                format!("after {what}: sum of available {sum} {id} exceeds the distributor's balance {have}"),
            );
            return;
        }
    }
}

// ---------------------------------------------------------------------------------------------
// Claim
// ---------------------------------------------------------------------------------------------

fn do_claim(s: &mut Hub, ctx: &mut Ctx, actor: usize, fault: Fault) {
    let who = s.user(actor);
    let pre_user: Vec<u128> = (0..5).map(|i| balance(&s.app, who, &asset5(s, i))).collect();
    let pre_dist: Vec<u128> = (0..3).map(|i| s.bal(&s.distributor, i)).collect();
    let now = s.now();
    // reach of the situation "first-time bonder after a mid-history duration change"
    let late = s.model.late_first[actor];
    let mut offered_early = false;
    if late {
        ctx.probe("claim_by_late_first_bonder");
        if let (Some(t), Ok(list)) = (s.model.began[actor], s.claimable_q(who)) {
            offered_early = list.iter().any(|e| e.start_time.nanos() < t);
            if offered_early {
                ctx.probe("late_first_bonder_offered_epoch_started_before_bonding");
            }
        }
    }
    let msg = wasm_exec(&s.distributor, &fee_distributor::ExecuteMsg::Claim {}, vec![]);
    let d = run(s, ctx, "claim", who, vec![msg], fault, false);
    ctx.trace(&format!("claim:{actor}:{}", d.r.outcome.kind()));
    if late {
        if d.r.outcome.is_ok() {
            ctx.probe(if offered_early { "late_first_bonder_claim_ok_while_offered_early_epoch" } else { "late_first_bonder_claim_ok" });
        } else if d.r.outcome.err_text().contains("Error calculating time_factor") {
            ctx.probe("late_first_bonder_claim_failed_time_factor");
        }
    }
    if !d.r.outcome.is_ok() {
        if d.r.outcome.kind() == 2 {
            // an abort (wasm trap on chain); the state is unchanged, which `run` has checked
            let why: String = d.r.outcome.err_text().chars().take(70).collect();
            ctx.probe(&format!("claim_aborted[{why}]"));
        }
        return;
    }
    let cur = match read_epochs(s, s.model.epochs.len()) {
        Ok(c) => c,
        Err(e) => {
            fail_all(ctx, "epoch_query", "query_failed", format!("after claim: {e}"));
            return;
        }
    };
    ctx.eval("C09");
    if cur.len() != s.model.epochs.len() {
        ctx.fail("C09", "claim_ledger", "epoch_count", None, format!("claim changed the number of epochs {} -> {}", s.model.epochs.len(), cur.len()));
        adopt(s, cur, now);
        return;
    }
    judge_claim(s, ctx, actor, &cur, &pre_user, &pre_dist, now);
    s.model.has_cursor[actor] = true;
    adopt(s, cur, now);
}

/// the mirror follows the chain whatever the verdict was, so that later steps are judged on their own
fn adopt(s: &mut Hub, cur: Vec<Epoch>, now: u64) {
    let n = cur.len();
    s.model.epochs = cur;
    s.model.expired.resize(n, false);
    s.model.rolled.resize(n, false);
    s.model.created_at.resize(n, now);
    let seq = s.model.seq;
    s.model.created_seq.resize(n, seq);
}

fn judge_claim(s: &mut Hub, ctx: &mut Ctx, actor: usize, cur: &[Epoch], pre_user: &[u128], pre_dist: &[u128], now: u64) {
    let who = s.user(actor);
    let post_user: Vec<u128> = (0..5).map(|i| balance(&s.app, who, &asset5(s, i))).collect();
    let post_dist: Vec<u128> = (0..3).map(|i| s.bal(&s.distributor, i)).collect();
    // per asset: payout, ledger decrease, ledger increase
    let mut dec_sum = [0u128; 3];
    let mut inc_sum = [0u128; 3];
    let mut paid_epochs: Vec<(u64, u128)> = vec![];
    for (i, (old, new)) in s.model.epochs.iter().zip(cur.iter()).enumerate() {
        let id = (i + 1) as u64;
        if old.id != new.id || old.start_time != new.start_time || old.total != new.total || old.global_index != new.global_index {
            ctx.fail("C09", "claim_ledger", "claim_rewrote_epoch", None, format!("claim by {who} changed id/start/total/index of epoch {id}: {old} -> {new}"));
            return;
        }
        let mut dec_e = 0u128;
        for info in infos_of(&[&old.available, &new.available, &old.claimed, &new.claimed]) {
            let k = s.assets.iter().position(|a| *a == info);
            let (a0, a1) = (amount_of(&old.available, &info), amount_of(&new.available, &info));
            let (c0, c1) = (amount_of(&old.claimed, &info), amount_of(&new.claimed, &info));
            if a1 > a0 || c1 < c0 {
                ctx.fail("C09", "claim_ledger", "wrong_direction", None, format!("claim by {who}: epoch {id} {}: available {a0}->{a1}, claimed {c0}->{c1}", asset_id(&info)));
                return;
            }
            if a0 - a1 != c1 - c0 {
                ctx.fail("C09", "claim_ledger", "decrease_ne_increase", None, format!("claim by {who}: epoch {id} {}: available fell by {} but claimed rose by {}", asset_id(&info), a0 - a1, c1 - c0));
                return;
            }
            let Some(k) = k else {
                if a0 != a1 {
                    ctx.fail("C09", "claim_ledger", "unknown_asset", None, format!("claim by {who}: epoch {id} pays unknown asset {}", asset_id(&info)));
                    return;
                }
                continue;
            };
            dec_sum[k] = dec_sum[k].saturating_add(a0 - a1);
            inc_sum[k] = inc_sum[k].saturating_add(c1 - c0);
            dec_e = dec_e.saturating_add(a0 - a1);
        }
        if old.available.is_empty() != new.available.is_empty() && !old.available.is_empty() {
            ctx.fail("C09", "claim_ledger", "available_emptied", None, format!("claim by {who} emptied the available list of epoch {id}"));
            return;
        }
        if dec_e > 0 {
            paid_epochs.push((id, dec_e));
        }
    }
    for k in 0..3 {
        let payout = post_user[k] as i128 - pre_user[k] as i128;
        let dist_d = pre_dist[k] as i128 - post_dist[k] as i128;
        if payout != dec_sum[k] as i128 || dist_d != dec_sum[k] as i128 {
            ctx.fail(
                "C09",
                "claim_payout",
                "payout_ne_ledger_decrease",
                None,
                format!("claim by {who}: asset {k}: claimant balance {payout:+}, distributor balance {:+}, ledgers' available fell by {}", -dist_d, dec_sum[k]),
            );
            return;
        }
    }
    for k in 3..5 {
        if post_user[k] != pre_user[k] {
            ctx.fail("C09", "claim_payout", "other_asset_moved", None, format!("claim by {who} changed its {} balance", BOND_DENOMS[k - 3]));
            return;
        }
    }
    for (id, amt) in &paid_epochs {
        let i = (*id - 1) as usize;
        if s.model.expired[i] {
            ctx.fail("C09", "claim_ledger", "paid_from_expired_epoch", None, format!("claim by {who} was paid {amt} from epoch {id}, which already left the grace window"));
            return;
        }
        if !s.model.paid.insert((actor, *id)) {
            ctx.fail("C09", "paid_once", "paid_twice_for_epoch", None, format!("{who} was paid {amt} for epoch {id} although it had already been paid for that epoch"));
            return;
        }
        let start = s.model.epochs[i].start_time.nanos();
        match s.model.began[actor] {
            Some(t) if start >= t && s.bonded_total(actor) > 0 => {}
            began => {
                // N2 (bug-compatible predicate): the lair lets an address (re-)bond during the sub-second
                // after an epoch's nominal start while that epoch is not created yet (its "new epoch not
                // created yet" guard compares whole seconds); an address that already has a claim cursor is
                // then paid for that epoch, whereas a first-time bonder is filtered by first_bonded_epoch_id.
                let n2 = match began {
                    Some(t) => {
                        s.bonded_total(actor) > 0
                            && s.model.has_cursor[actor]
                            && t > start
                            && t - start < 1_000_000_000
                            && s.model.created_at[i] >= t
                            && s.model.created_seq[i] > s.model.began_seq[actor]
                    }
                    None => false,
                };
                // N9 (bug-compatible predicate): after the owner changed the epoch duration mid-history the
                // lair's arithmetic first_bonded_epoch_id ((t - genesis) / duration + 1 under the *current*
                // configuration) can be lower than the id of the epoch the address bonded in, so that epoch is
                // listed for an address without claim cursor; the weight query at the epoch's start then only
                // fails when the bonding is at least one whole second younger ("Error calculating
                // time_factor" compares seconds). An address that bonded after, but in the same whole second
                // as, the epoch's start is paid.
                let n9 = match began {
                    Some(t) => {
                        let arith_id = if t < s.model.genesis { 0 } else { (t - s.model.genesis) / s.model.duration.max(1) + 1 };
                        s.bonded_total(actor) > 0
                            && !s.model.has_cursor[actor]
                            && s.model.dur_changed_mid
                            && t > start
                            && t / 1_000_000_000 == start / 1_000_000_000
                            && arith_id < *id
                    }
                    None => false,
                };
                if n9 {
                    ctx.probe("n9_same_second_first_bonder_paid_after_duration_change");
                }
                ctx.fail(
                    "C09",
                    "paid_before_bonding",
                    "epoch_started_before_bonding",
                    if n2 { Some("N2") } else if n9 { Some("N9") } else { None },
                    format!(
                        "{who} was paid {amt} for epoch {id} (start {start}, created at {}); its current bonding began at {began:?}, bonded now {}",
                        s.model.created_at[i],
                        s.bonded_total(actor)
                    ),
                );
                if !(n2 || n9) || ctx.stopped() {
                    return;
                }
            }
        }
    }
    if paid_epochs.is_empty() {
        ctx.probe("claim_ok_paid_nothing");
    } else {
        ctx.probe("claim_paid");
        if paid_epochs.len() > 1 {
            ctx.probe("claim_paid_several_epochs");
        }
        ctx.state_of(&format!("claim:{actor}:{:?}:{now}", paid_epochs));
    }
}

// ---------------------------------------------------------------------------------------------
// NewEpoch
// ---------------------------------------------------------------------------------------------

/// Bug-compatible predicate of N1: an aggregation swap that the collector's *simulation* accepts
/// fails at *execution* (swaps paused on a pool of a registered route, or spread above the 50 % cap),
/// which reverts the whole epoch creation. Evaluated on the state before the failing tx.
fn n1_explains(s: &Hub, pre: &Obs, err: &str) -> Option<String> {
    let paused_err = err.contains("Operation disabled, swap");
    let spread_err = err.contains("Spread limit exceeded");
    if !paused_err && !spread_err {
        return None;
    }
    for asset in 1..=2usize {
        let Some(kind) = s.model.routes[asset - 1] else { continue };
        let hops = route_pairs(asset, kind);
        if hops.iter().any(|p| *p >= s.pairs.len() || !s.model.pair_registered[*p]) {
            continue; // simulation fails, asset skipped
        }
        // is the asset on the collector's aggregation list at all?
        let listed = (0..2).any(|v| s.vault_asset[v] == asset)
            || (0..s.pairs.len()).any(|p| s.model.pair_registered[p] && pair_assets(p).contains(&asset));
        if !listed {
            continue;
        }
        // what the collector will hold after collection
        let mut amount = pre.bal[&s.collector][asset];
        for p in 0..s.pairs.len() {
            if !s.model.pair_registered[p] {
                continue;
            }
            for (k, a) in pair_assets(p).iter().enumerate() {
                if *a == asset && pre.pair_pending[p][k] > MIN_COLLECTABLE {
                    amount = amount.saturating_add(pre.pair_pending[p][k]);
                }
            }
        }
        for v in 0..2 {
            if s.vault_asset[v] == asset {
                amount = amount.saturating_add(pre.vault_pending[v]);
            }
        }
        if amount <= 1_000 {
            continue;
        }
        if paused_err && hops.iter().any(|p| s.model.pair_paused[*p]) {
            return Some(format!("asset {asset}: {amount} to swap through pairs {hops:?}, of which one has swaps disabled"));
        }
        if spread_err {
            let mut cur = asset;
            let mut x = amount;
            for p in &hops {
                let q: Result<SimulationResponse, String> = query(
                    &s.app,
                    &s.pairs[*p],
                    &pair::QueryMsg::Simulation { offer_asset: s.asset(cur, x) },
                );
                let Ok(q) = q else { break };
                let gross = u256(q.return_amount.u128()) + u256(q.swap_fee_amount.u128()) + u256(q.protocol_fee_amount.u128()) + u256(q.burn_fee_amount.u128());
                let sp = u256(q.spread_amount.u128());
                // spread / (gross + spread) > 0.45 (execution refuses above 0.5; earlier swaps of the same tx move the pool a little)
                if sp * u256(100) > (gross + sp) * u256(45) {
                    return Some(format!("asset {asset}: swapping {x} into pair {p} has spread {} on a gross return of {gross}", q.spread_amount));
                }
                let pa = pair_assets(*p);
                cur = if pa[0] == cur { pa[1] } else { pa[0] };
                x = q.return_amount.u128();
            }
        }
    }
    None
}

fn do_new_epoch(s: &mut Hub, ctx: &mut Ctx, caller: &str, fault: Fault, opname: &str) {
    let now = s.now();
    let n = s.model.epochs.len();
    let boundary = s.boundary();
    let due = now >= boundary;
    let pre = observe(s);
    let msg = wasm_exec(&s.distributor, &fee_distributor::ExecuteMsg::NewEpoch {}, vec![]);
    let d = run(s, ctx, opname, caller, vec![msg], fault, true);
    let r = &d.r;
    ctx.trace(&format!("{opname}:{}:{now}:{due}:{}", r.outcome.kind(), r.calls));
    // probes of the clock alphabet
    if now + 1 == boundary {
        ctx.probe("attempt_1ns_before_boundary");
    } else if now == boundary {
        ctx.probe(if n == 0 { "attempt_exactly_at_genesis" } else { "attempt_exactly_at_boundary" });
    } else if now == boundary.saturating_add(1) {
        ctx.probe("attempt_1ns_after_boundary");
    } else if n == 0 && now < boundary {
        ctx.probe("attempt_before_genesis");
    } else if now >= boundary.saturating_add(s.model.duration) {
        ctx.probe("attempt_at_least_one_duration_late");
    }

    // ---- C20: exact accept / reject model
    ctx.eval("C20");
    if !r.outcome.is_ok() {
        let err = r.outcome.err_text();
        if due && !r.fault_fired {
            if let Some(why) = n1_explains(s, &pre, &err) {
                s.model.blocked_streak += 1;
                ctx.probe(if err.contains("Spread limit exceeded") { "new_epoch_blocked_spread_above_cap" } else { "new_epoch_blocked_paused_pool_on_route" });
                ctx.fail(
                    "C20",
                    "due_rejected",
                    "aggregation_swap_failed",
                    Some("N1"),
                    format!("NewEpoch at {now} (due since {boundary}) reverted: {} [{why}]", short(&err)),
                );
            } else {
                ctx.fail(
                    "C20",
                    "due_rejected",
                    if err.contains("has not expired yet") || err.contains("genesis epoch is set to start in the future") { "clock_error" } else { "other_error" },
                    None,
                    format!("NewEpoch at {now} by {caller} was refused although epoch {} is due since {boundary}: {}", n + 1, short(&err)),
                );
            }
        } else if !due {
            ctx.probe("early_attempt_rejected");
        }
        return;
    }
    if !due {
        ctx.fail(
            "C20",
            "early_accepted",
            if n == 0 { "before_genesis" } else { "before_duration_elapsed" },
            None,
            format!("NewEpoch at {now} by {caller} was accepted although epoch {} is not due before {boundary}", n + 1),
        );
        // the mirror has to follow the chain to judge later steps
    }
    s.model.blocked_streak = 0;
    let post = observe(s);
    let cur = match read_epochs(s, n) {
        Ok(c) => c,
        Err(e) => {
            fail_all(ctx, "epoch_query", "query_failed", format!("after {opname}: {e}"));
            return;
        }
    };
    if cur.len() != n + 1 {
        let dsc = format!("successful NewEpoch changed the number of epochs from {n} to {}", cur.len());
        ctx.fail("C20", "id_step", "not_exactly_one_new_epoch", None, dsc.clone());
        ctx.fail("C09", "new_total", "not_exactly_one_new_epoch", None, dsc);
        adopt(s, cur, now);
        return;
    }
    let new = cur[n].clone();
    let want_start = if n == 0 { s.model.genesis } else { s.model.epochs[n - 1].start_time.nanos().saturating_add(s.model.duration) };
    if new.id.u64() != n as u64 + 1 {
        ctx.fail("C20", "id_step", "id_not_plus_one", None, format!("new epoch id {} after {n} epochs", new.id));
    }
    if new.start_time.nanos() != want_start {
        ctx.fail(
            "C20",
            "start_step",
            if n == 0 { "first_start_not_genesis" } else { "start_not_prev_plus_duration" },
            None,
            format!("epoch {} created at {now}: start {} expected {want_start}", n + 1, new.start_time.nanos()),
        );
    }
    if n > 0 && new.start_time.nanos() <= s.model.epochs[n - 1].start_time.nanos() {
        ctx.fail("C20", "start_step", "start_not_increasing", None, format!("epoch {} start {} is not after the previous start", n + 1, new.start_time.nanos()));
    }
    if due && now >= boundary.saturating_add(s.model.duration) {
        s.model.late_streak += 1;
        if s.model.late_streak >= 2 {
            ctx.probe("late_catch_up_consecutive_creations");
        }
    } else {
        s.model.late_streak = 0;
    }

    // ---- C09: roll-over of the epoch that leaves the grace window
    ctx.eval("C09");
    let dist_delta = post.bal[&s.distributor][0] as i128 - pre.bal[&s.distributor][0] as i128;
    let dist_deltas: Vec<i128> = (0..3).map(|k| post.bal[&s.distributor][k] as i128 - pre.bal[&s.distributor][k] as i128).collect();
    let g = s.model.grace as usize;
    let expiring: Option<usize> = if n + 1 > g && g >= 1 { Some(n - g) } else { None }; // index of id n+1-g
    let whale = s.assets[0].clone();
    let rolled: Vec<Asset> = expiring.map(|x| s.model.epochs[x].available.clone()).unwrap_or_default();
    for info in infos_of(&[&new.total, &rolled]) {
        let t = amount_of(&new.total, &info);
        let rl = amount_of(&rolled, &info);
        // whatever reached the distributor in this asset during the creation (the distribution asset
        // may have been switched by the owner, older epochs then still hold the previous one)
        let transfer = match s.assets.iter().position(|x| *x == info) {
            Some(k) if s.model.dist_switched => dist_deltas[k],
            _ => if info == whale { dist_delta } else { 0 },
        };
        if t as i128 != transfer.saturating_add(rl as i128) {
            let dsc = format!(
                "epoch {}: total {t} {} != collector->distributor transfer {transfer} + remainder {rl} of expiring epoch {:?}",
                n + 1,
                asset_id(&info),
                expiring.map(|x| x + 1)
            );
            ctx.fail("C09", "new_total", "total_ne_transfer_plus_rollover", None, dsc.clone());
            ctx.fail("C10", "dist_transfer", "transfer_ne_total_minus_rollover", None, dsc);
        }
    }
    if infos_of(&[&new.total]).is_empty() && dist_delta != 0 {
        let dsc = format!("epoch {}: empty total but the distributor's balance changed by {dist_delta}", n + 1);
        ctx.fail("C09", "new_total", "total_ne_transfer_plus_rollover", None, dsc.clone());
        ctx.fail("C10", "dist_transfer", "transfer_ne_total_minus_rollover", None, dsc);
    }
    let same_amounts = |a: &Vec<Asset>, b: &Vec<Asset>| infos_of(&[a, b]).iter().all(|i| amount_of(a, i) == amount_of(b, i));
    if !same_amounts(&new.available, &new.total) || infos_of(&[&new.claimed]).iter().any(|i| amount_of(&new.claimed, i) != 0) {
        ctx.fail("C09", "new_total", "new_epoch_not_fresh", None, format!("new epoch is not total=available, claimed=0: {new}"));
    }
    for (i, old) in s.model.epochs.iter().enumerate() {
        if Some(i) == expiring {
            let e = &cur[i];
            if !e.available.is_empty() {
                ctx.fail("C09", "expiring_cleared", "available_not_empty", None, format!("epoch {} left the grace window at the creation of epoch {} but keeps available {:?}", i + 1, n + 1, e.available));
            }
            let mut cmp = e.clone();
            cmp.available = old.available.clone();
            if cmp != *old {
                ctx.fail("C09", "others_untouched", "expiring_epoch_rewritten", None, format!("expiring epoch {} changed beyond its available: {old} -> {e}", i + 1));
            }
            let had = old.available.iter().any(|a| !a.amount.is_zero());
            if had && s.model.rolled[i] {
                ctx.fail("C09", "rollover_once", "rolled_over_twice", None, format!("epoch {}'s remainder {:?} was rolled over a second time", i + 1, old.available));
            }
            if had {
                ctx.probe("rollover_of_nonzero_remainder");
            } else if s.model.expired[i] {
                ctx.probe("expired_epoch_selected_again_after_grace_increase");
            }
        } else if cur[i] != *old {
            ctx.fail("C09", "others_untouched", "other_epoch_changed", None, format!("creation of epoch {} changed epoch {}: {old} -> {}", n + 1, i + 1, cur[i]));
        }
    }
    if ctx.stopped() {
        return;
    }
    // ---- C10: the pipeline, from balances, ledgers and transfer events
    if s.model.dist_switched {
        // the pipeline oracle is written for uwhale as the distribution asset; after a switch only the
        // asset-generic ledger checks above (and the claim checks) apply
        ctx.probe("pipeline_checks_skipped_after_distribution_asset_switch");
    } else {
        ctx.eval("C10");
        check_pipeline(s, ctx, &pre, &post, &r.outcome, &new, n as u64 + 1, amount_of(&rolled, &whale), r.fault_fired);
    }

    // adopt
    if let Some(x) = expiring {
        if s.model.epochs[x].available.iter().any(|a| !a.amount.is_zero()) {
            s.model.rolled[x] = true;
        }
        s.model.expired[x] = true;
    }
    adopt(s, cur, now);
    ctx.state_of(&format!("epoch:{}:{}:{:?}:{:?}", n + 1, s.model.grace, new.total, expiring));
    if (n + 1) as u64 >= s.model.grace + 2 {
        ctx.probe("run_reached_grace_plus_2_epochs");
    }
}

#[allow(clippy::too_many_arguments)]
fn check_pipeline(s: &Hub, ctx: &mut Ctx, pre: &Obs, post: &Obs, out: &Outcome, new: &Epoch, new_id: u64, rolled_whale: u128, fault_fired: bool) {
    let fl = flows(s, out);
    let col = &s.collector;
    let zero = [0u128; 5];
    let delta = |who: &str, k: usize| post.bal.get(who).unwrap_or(&zero)[k] as i128 - pre.bal.get(who).unwrap_or(&zero)[k] as i128;
    let mut everyone: Vec<String> = pre.bal.keys().cloned().collect();
    for k in post.bal.keys() {
        if !everyone.contains(k) {
            everyone.push(k.clone());
        }
    }
    let mut collected = [0u128; 3];

    // 1. registered vaults: ledger emptied, all of it sent to the collector
    for v in 0..2 {
        let a = s.vault_asset[v];
        let pend = pre.vault_pending[v];
        let sent = flow(&fl, &s.vaults[v], col, a);
        if post.vault_pending[v] != 0 || sent != pend {
            // N10 (bug-compatible predicate): NewEpoch asks each factory for ONE page of at most 30
            // children; a vault that is not on that page is never asked for its fees
            let n10 = !vault_on_first_page(s, v) && post.vault_pending[v] == pend && sent == 0;
            if n10 {
                ctx.probe("n10_vault_beyond_first_page_not_collected");
            }
            ctx.fail(
                "C10",
                "collected",
                if n10 { "child_beyond_the_first_30_not_collected" } else { "vault_fees_not_collected" },
                if n10 { Some("N10") } else { None },
                format!("vault {v}: pending {pend} before, {} after, {sent} transferred to the collector", post.vault_pending[v]),
            );
        }
        collected[a] = collected[a].saturating_add(sent);
        ctx.probe(if pend == 0 { "vault_pending_zero" } else { "vault_pending_collected" });
    }
    // 2. pairs
    for p in 0..s.pairs.len() {
        for (k, a) in pair_assets(p).iter().enumerate() {
            let pend = pre.pair_pending[p][k];
            let reg = s.model.pair_registered[p];
            let exp_sent = if reg && pend > MIN_COLLECTABLE { pend } else { 0 };
            let charged = post.pair_all_time[p][k].saturating_sub(pre.pair_all_time[p][k]);
            let want_after = (pend - exp_sent).saturating_add(charged);
            let sent = flow(&fl, &s.pairs[p], col, *a);
            let sent_ok = if *a == 0 { sent >= exp_sent } else { sent == exp_sent };
            if post.pair_pending[p][k] != want_after || !sent_ok {
                // N10 (bug-compatible predicate), as for vaults: the pair is registered but not on the
                // factory's first page of 30, and nothing at all was collected from it (whatever it sent
                // to the collector in the distribution asset are proceeds of aggregation swaps)
                let n10 = reg && exp_sent > 0 && !pair_on_first_page(s, p) && post.pair_pending[p][k] == pend.saturating_add(charged) && (sent == 0 || *a == 0);
                if n10 {
                    ctx.probe("n10_pair_beyond_first_page_not_collected");
                }
                ctx.fail(
                    "C10",
                    "collected",
                    if n10 { "child_beyond_the_first_30_not_collected" } else if reg { "pair_fees_not_collected" } else { "unregistered_pair_touched" },
                    if n10 { Some("N10") } else { None },
                    format!(
                        "pair {p} (registered {reg}) asset {a}: pending {pend} before (collectable {exp_sent}), charged {charged} during aggregation, pending {} after (expected {want_after}); {sent} transferred to the collector",
                        post.pair_pending[p][k]
                    ),
                );
            }
            if *a != 0 {
                collected[*a] = collected[*a].saturating_add(sent);
            }
            if reg {
                ctx.probe(if pend == 0 {
                    "pair_pending_zero"
                } else if pend <= MIN_COLLECTABLE {
                    "pair_pending_below_threshold_stays_owed"
                } else {
                    "pair_pending_collected"
                });
            } else if pend > 0 {
                ctx.probe("unregistered_pair_pending_left");
            }
        }
    }
    // 3. non-distribution assets: fully swapped through a registered route, or untouched
    for a in 1..=2usize {
        let untouched = pre.bal[col][a].saturating_add(collected[a]);
        let after = post.bal[col][a];
        if after == untouched {
            if untouched > 0 {
                ctx.probe(if s.model.routes[a - 1].is_none() {
                    "asset_left_no_route"
                } else if untouched <= 1_000 {
                    "asset_left_below_minimum"
                } else {
                    "asset_left_route_unusable"
                });
                // an asset may stay behind only for a reason of its own (no route, a route that cannot be
                // simulated, an amount at or below the minimum): with a registered route whose pairs are all
                // registered, no injected fault in this transaction and a router that prices the route for
                // exactly this amount, it has to be swapped
                if let Some(kind) = s.model.routes[a - 1] {
                    if untouched > 1_000 && !fault_fired && route_pairs(a, kind).iter().all(|p| s.model.pair_registered[*p]) {
                        let sim: Result<router::SimulateSwapOperationsResponse, String> = query(
                            &s.app,
                            &s.router,
                            &router::QueryMsg::SimulateSwapOperations { offer_amount: Uint128::new(untouched), operations: s.route_msg(a, kind).swap_operations },
                        );
                        if let Ok(sim) = sim {
                            // N10 (bug-compatible predicate): the aggregation's working list is built from ONE
                            // page of at most 30 children per factory; an asset that no registered first-page
                            // pool or vault lists is never looked at
                            let listed = (0..s.pairs.len()).any(|p| s.model.pair_registered[p] && pair_assets(p).contains(&a) && pair_on_first_page(s, p))
                                || (0..2).any(|v| s.vault_asset[v] == a && vault_on_first_page(s, v));
                            if !listed {
                                ctx.probe("n10_asset_of_no_first_page_child_not_aggregated");
                            }
                            ctx.fail(
                                "C10",
                                "asset_either",
                                if listed { "routable_asset_left_in_collector" } else { "asset_of_no_first_page_child_not_aggregated" },
                                if listed { None } else { Some("N10") },
                                format!(
                                    "collector keeps {untouched} of asset {a} although its route (kind {kind}) is registered, every pair on it is registered and the router prices it at {}",
                                    sim.amount
                                ),
                            );
                        } else {
                            ctx.probe("asset_left_route_really_unpriceable");
                        }
                    }
                }
            }
        } else if after == 0 {
            ctx.probe("asset_swapped_through_route");
            match s.model.routes[a - 1] {
                None => ctx.fail("C10", "asset_either", "swapped_without_registered_route", None, format!("collector's {untouched} of asset {a} were swapped although no route is registered")),
                Some(kind) => {
                    if route_pairs(a, kind).len() > 1 {
                        ctx.probe("asset_swapped_two_hops");
                    }
                }
            }
        } else {
            ctx.fail(
                "C10",
                "asset_either",
                "partially_moved",
                None,
                format!("collector's asset {a}: {} before + {} collected, {after} afterwards (neither swapped completely nor untouched)", pre.bal[col][a], collected[a]),
            );
        }
    }
    // 4. take rate
    let dist_d = delta(&s.distributor, 0);
    let dao_d: Vec<i128> = DAOS.iter().map(|d| delta(d, 0)).collect();
    let active = s.model.take_active && s.model.take_rate18 > 0 && s.model.dao.is_some();
    let base_i = dist_d + dao_d[0] + dao_d[1] + post.bal[col][0] as i128;
    let base = if base_i < 0 { 0 } else { base_i as u128 };
    let exp_fee = if active { fee_of(s.model.take_rate18, base) } else { 0 };
    for (k, dd) in dao_d.iter().enumerate() {
        let want = if active && s.model.dao == Some(k) { exp_fee as i128 } else { 0 };
        if *dd != want {
            ctx.fail(
                "C10",
                "take_rate",
                if active { "dao_amount_ne_floor_rate_times_balance" } else { "dao_paid_while_inactive" },
                None,
                format!(
                    "epoch {new_id}: DAO {k} balance {dd:+}, expected {want:+} (take rate {} active {active}, collector held {base} uwhale when forwarding)",
                    atomics_to_dec(s.model.take_rate18)
                ),
            );
        }
    }
    let hist: Result<Coin, String> = query(&s.app, col, &fee_collector::QueryMsg::TakeRateHistory { epoch_id: Uint64::new(new_id) });
    match (&hist, exp_fee) {
        (Ok(c), f) if f > 0 => {
            if c.amount.u128() != f || c.denom != WHALE {
                ctx.fail("C10", "take_history", "history_ne_amount", None, format!("TakeRateHistory[{new_id}] = {c}, DAO received {f}"));
            }
            ctx.probe("take_rate_paid_and_recorded");
        }
        (Err(_), f) if f > 0 => {
            ctx.fail("C10", "take_history", "history_missing", None, format!("TakeRateHistory[{new_id}] is missing although the DAO received {f}"));
        }
        (Ok(c), _) => {
            if !c.amount.is_zero() {
                ctx.fail("C10", "take_history", "history_without_payment", None, format!("TakeRateHistory[{new_id}] = {c} although nothing was due"));
            }
        }
        (Err(_), _) => {
            if active {
                ctx.probe("take_rate_active_but_floor_zero");
            } else {
                ctx.probe("take_rate_inactive");
            }
        }
    }
    // 5. what reached the distributor is the new total minus the roll-over
    let total_whale = amount_of(&new.total, &s.assets[0]);
    if dist_d != total_whale as i128 - rolled_whale as i128 {
        ctx.fail(
            "C10",
            "dist_transfer",
            "transfer_ne_total_minus_rollover",
            None,
            format!("epoch {new_id}: distributor balance {dist_d:+} but total {total_whale} - rolled over {rolled_whale}"),
        );
    }
    if base_i != exp_fee as i128 + dist_d {
        ctx.fail("C10", "dist_transfer", "forwarded_ne_balance_minus_take", None, format!("epoch {new_id}: collector held {base_i}, DAO fee {exp_fee}, distributor got {dist_d}"));
    }
    // 6. collector keeps none of the distribution asset
    if post.bal[col][0] != 0 {
        ctx.fail("C10", "collector_empty", "distribution_asset_left", None, format!("collector still holds {} uwhale after epoch {new_id} was created", post.bal[col][0]));
    }
    if dist_d > 0 {
        ctx.probe("fees_forwarded_to_distributor");
    } else {
        ctx.probe("nothing_forwarded");
    }
    // 7. conservation: nothing leaves the pipeline, every other account is untouched
    for k in 0..3 {
        let mut sum: i128 = 0;
        for who in &everyone {
            sum = sum.saturating_add(delta(who, k));
        }
        let sup = post.supply[k] as i128 - pre.supply[k] as i128;
        if sum != sup || sup > 0 {
            ctx.fail("C10", "conservation", "value_left_the_pipeline", None, format!("asset {k}: all accounts changed by {sum} in total, supply by {sup}"));
        }
    }
    let mut inside: Vec<String> = s.pairs.clone();
    inside.extend(s.vaults.iter().cloned());
    inside.extend([s.collector.clone(), s.distributor.clone(), s.router.clone()]);
    inside.extend(DAOS.iter().map(|d| d.to_string()));
    for who in &everyone {
        if inside.contains(who) {
            continue;
        }
        for k in 0..5 {
            if delta(who, k) != 0 {
                ctx.fail("C10", "bystander", "balance_changed", None, format!("{who}'s balance of asset {k} changed by {} during NewEpoch", delta(who, k)));
            }
        }
    }
    for k in 0..3 {
        if delta(&s.router, k) != 0 {
            ctx.probe("router_balance_changed");
        }
    }
}

// ---------------------------------------------------------------------------------------------
// apply
// ---------------------------------------------------------------------------------------------

pub fn apply(s: &mut Hub, step: &Step, ctx: &mut Ctx) {
    s.advance(step.adv_ns, step.adv_blocks);
    let actor = step.actor % s.cfg.n_users;
    let who = s.user(actor);
    let what: String;
    match &step.op {
        Op::Swap { pair, side, amount } => {
            let p = pair % s.pairs.len();
            let msg = s.swap_msg(p, side % 2, *amount);
            let d = run(s, ctx, "swap", who, vec![msg], step.fault, false);
            ctx.trace(&format!("swap:{p}:{side}:{amount}:{}", d.r.outcome.kind()));
            what = "swap".into();
        }
        Op::Loan { vault, amount } => {
            let v = vault % 2;
            let q: Result<vault::PaybackAmountResponse, String> =
                query(&s.app, &s.vaults[v], &vault::QueryMsg::GetPaybackAmount { amount: Uint128::new(*amount) });
            let payback = q.map(|r| r.payback_amount).unwrap_or(Uint128::new(*amount));
            let msg = wasm_exec(
                &s.borrower,
                &BorrowerMsg::Borrow {
                    vault: s.vaults[v].clone(),
                    amount: Uint128::new(*amount),
                    asset: s.assets[s.vault_asset[v]].clone(),
                    payback,
                },
                vec![],
            );
            let d = run(s, ctx, "loan", who, vec![msg], step.fault, false);
            ctx.trace(&format!("loan:{v}:{amount}:{}", d.r.outcome.kind()));
            what = "loan".into();
        }
        Op::Inflow { asset, amount, to_distributor } => {
            let to = if *to_distributor { s.distributor.clone() } else { s.collector.clone() };
            let msg = s.transfer_msg(asset % 3, &to, *amount);
            let d = run(s, ctx, if *to_distributor { "donate_distributor" } else { "inflow_collector" }, who, vec![msg], step.fault, false);
            ctx.trace(&format!("inflow:{asset}:{amount}:{}", d.r.outcome.kind()));
            what = "inflow".into();
        }
        Op::Bond { denom, amount } => {
            let dn = denom % 2;
            let msg = wasm_exec(
                &s.lair,
                &whale_lair::ExecuteMsg::Bond { asset: Asset { info: native(BOND_DENOMS[dn]), amount: Uint128::new(*amount) } },
                vec![coin(*amount, BOND_DENOMS[dn])],
            );
            let now = s.now();
            let d = run(s, ctx, "bond", who, vec![msg], step.fault, false);
            if d.r.outcome.is_ok() {
                if s.bonded_total(actor) == 0 {
                    s.model.began[actor] = Some(now);
                    s.model.began_seq[actor] = s.model.seq;
                }
                if !s.model.ever_bonded[actor] {
                    s.model.ever_bonded[actor] = true;
                    if s.model.dur_changed_mid {
                        s.model.late_first[actor] = true;
                        ctx.probe("first_time_bond_after_duration_change");
                        let mid = s.model.epochs.last().map(|e| now > e.start_time.nanos().saturating_add(1_000_000_000)).unwrap_or(false);
                        if s.model.dur_raised_mid && mid {
                            ctx.probe("first_time_bond_mid_epoch_after_duration_raise");
                        }
                    }
                }
                s.model.bonded[actor][dn] = s.model.bonded[actor][dn].saturating_add(*amount);
            } else if d.r.outcome.err_text().contains("unclaimed rewards") || d.r.outcome.err_text().contains("Unclaimed") {
                ctx.probe("bond_refused_unclaimed_rewards");
            }
            ctx.trace(&format!("bond:{actor}:{dn}:{amount}:{}", d.r.outcome.kind()));
            what = "bond".into();
        }
        Op::Unbond { denom, amount } => {
            let dn = denom % 2;
            let msg = wasm_exec(
                &s.lair,
                &whale_lair::ExecuteMsg::Unbond { asset: Asset { info: native(BOND_DENOMS[dn]), amount: Uint128::new(*amount) } },
                vec![],
            );
            let matures = s.now().saturating_add(s.cfg.unbonding_ns);
            let d = run(s, ctx, "unbond", who, vec![msg], step.fault, false);
            if d.r.outcome.is_ok() {
                s.model.unbonds.push((actor, dn, matures));
                s.model.bonded[actor][dn] = s.model.bonded[actor][dn].saturating_sub(*amount);
                if s.bonded_total(actor) == 0 {
                    s.model.began[actor] = None;
                    ctx.probe("fully_unbonded");
                }
            }
            ctx.trace(&format!("unbond:{actor}:{dn}:{amount}:{}", d.r.outcome.kind()));
            what = "unbond".into();
        }
        Op::Withdraw { denom } => {
            let msg = wasm_exec(&s.lair, &whale_lair::ExecuteMsg::Withdraw { denom: BOND_DENOMS[denom % 2].to_string() }, vec![]);
            let now = s.now();
            let d = run(s, ctx, "withdraw", who, vec![msg], step.fault, false);
            if d.r.outcome.is_ok() {
                let dn = denom % 2;
                s.model.unbonds.retain(|(u, dd, t)| !(*u == actor && *dd == dn && *t <= now));
                ctx.probe("withdraw_ok");
            }
            ctx.trace(&format!("withdraw:{actor}:{}", d.r.outcome.kind()));
            what = "withdraw".into();
        }
        Op::NewEpoch => {
            do_new_epoch(s, ctx, who, step.fault, "new_epoch");
            what = "new_epoch".into();
        }
        Op::CatchUp { calls } => {
            for i in 0..(*calls).min(12) {
                if ctx.stopped() {
                    return;
                }
                let caller = s.user(actor + i as usize);
                do_new_epoch(s, ctx, caller, Fault::None, "new_epoch_catch_up");
                if !ctx.stopped() {
                    end_of_step(s, ctx, "catch-up");
                }
            }
            what = "catch_up".into();
        }
        Op::Claim => {
            do_claim(s, ctx, actor, step.fault);
            what = "claim".into();
        }
        Op::ClaimMany { order } => {
            for u in order.iter().take(16) {
                if ctx.stopped() {
                    return;
                }
                do_claim(s, ctx, u % s.cfg.n_users, Fault::None);
                if !ctx.stopped() {
                    end_of_step(s, ctx, "claim");
                }
            }
            what = "claim_many".into();
        }
        Op::SetGrace { value, by_owner } => {
            let sender = if *by_owner { OWNER } else { who };
            let msg = wasm_exec(
                &s.distributor,
                &fee_distributor::ExecuteMsg::UpdateConfig {
                    owner: None,
                    bonding_contract_addr: None,
                    fee_collector_addr: None,
                    grace_period: Some(Uint64::new(*value)),
                    distribution_asset: None,
                    epoch_config: None,
                },
                vec![],
            );
            let d = run(s, ctx, "set_grace", sender, vec![msg], step.fault, false);
            let allowed = *by_owner && *value >= s.model.grace && (1..=30).contains(value);
            ctx.eval("C09");
            if d.r.outcome.is_ok() {
                if !allowed {
                    ctx.fail(
                        "C09",
                        "grace_update",
                        if !*by_owner { "accepted_from_stranger" } else if *value < s.model.grace { "decrease_accepted" } else { "out_of_range_accepted" },
                        None,
                        format!("grace period update {} -> {value} by {sender} was accepted", s.model.grace),
                    );
                }
                if *value > s.model.grace && !s.model.epochs.is_empty() {
                    ctx.probe("grace_increased_mid_history");
                }
                s.model.grace = *value;
            } else if !allowed {
                ctx.probe("grace_update_refused");
            }
            ctx.trace(&format!("set_grace:{value}:{by_owner}:{}", d.r.outcome.kind()));
            what = "set_grace".into();
        }
        Op::SetDistAsset { asset, by_owner } => {
            let a = *asset % 3;
            let sender = if *by_owner { OWNER } else { who };
            let msg = wasm_exec(
                &s.distributor,
                &fee_distributor::ExecuteMsg::UpdateConfig {
                    owner: None,
                    bonding_contract_addr: None,
                    fee_collector_addr: None,
                    grace_period: None,
                    distribution_asset: Some(s.assets[a].clone()),
                    epoch_config: None,
                },
                vec![],
            );
            let d = run(s, ctx, "set_distribution_asset", sender, vec![msg], step.fault, false);
            let ok = d.r.outcome.is_ok();
            ctx.eval("C10");
            if ok && !*by_owner {
                ctx.fail("C10", "config_update", "accepted_from_stranger", None, format!("distribution asset update by {sender} was accepted"));
            }
            let conf: Result<fee_distributor::Config, String> = query(&s.app, &s.distributor, &fee_distributor::QueryMsg::Config {});
            match conf {
                Err(e) => fail_all(ctx, "config_query", "query_failed", format!("after set_distribution_asset: {e}")),
                Ok(c) => {
                    let now_idx = s.assets.iter().position(|x| *x == c.distribution_asset);
                    match now_idx {
                        Some(i) => {
                            if i != s.model.dist_asset {
                                s.model.dist_switched = true;
                                ctx.probe("distribution_asset_switched_mid_history");
                                ctx.state_of(&format!("dist_asset:{}:{i}:{}", s.model.dist_asset, s.model.epochs.len()));
                            }
                            if ok && i != a {
                                ctx.fail("C10", "config_update", "config_ne_update", None, format!("accepted update to distribution asset {a}: the configuration reads asset {i}"));
                            }
                            if !ok && i != s.model.dist_asset {
                                ctx.fail("C10", "config_update", "rejected_but_changed", None, format!("rejected distribution asset update by {sender} changed the configuration"));
                            }
                            s.model.dist_asset = i;
                        }
                        None => fail_all(ctx, "config_query", "unknown_distribution_asset", format!("{:?}", c.distribution_asset)),
                    }
                }
            }
            ctx.trace(&format!("set_dist_asset:{a}:{by_owner}:{}", d.r.outcome.kind()));
            what = "set_distribution_asset".into();
        }
        Op::SetDuration { duration_ns, by_owner } => {
            let sender = if *by_owner { OWNER } else { who };
            let msg = wasm_exec(
                &s.distributor,
                &fee_distributor::ExecuteMsg::UpdateConfig {
                    owner: None,
                    bonding_contract_addr: None,
                    fee_collector_addr: None,
                    grace_period: None,
                    distribution_asset: None,
                    epoch_config: Some(EpochConfig { duration: Uint64::new(*duration_ns), genesis_epoch: Uint64::new(s.model.genesis) }),
                },
                vec![],
            );
            let d = run(s, ctx, "set_duration", sender, vec![msg], step.fault, false);
            let allowed = *by_owner && *duration_ns >= DAY_NS;
            let ok = d.r.outcome.is_ok();
            ctx.eval("C20");
            // what the distributor is configured with now
            let conf: Result<fee_distributor::Config, String> = query(&s.app, &s.distributor, &fee_distributor::QueryMsg::Config {});
            match conf {
                Err(e) => fail_all(ctx, "config_query", "query_failed", format!("after set_duration: {e}")),
                Ok(c) => {
                    let (cd, cg) = (c.epoch_config.duration.u64(), c.epoch_config.genesis_epoch.u64());
                    let old = s.model.duration;
                    if ok {
                        if !allowed {
                            ctx.fail(
                                "C20",
                                "duration_update",
                                if !*by_owner { "accepted_from_stranger" } else { "below_one_day_accepted" },
                                None,
                                format!("epoch duration update {old} -> {duration_ns} by {sender} was accepted"),
                            );
                        }
                        if cd != *duration_ns || cg != s.model.genesis {
                            ctx.fail(
                                "C20",
                                "duration_update",
                                "config_ne_update",
                                None,
                                format!("accepted update to duration {duration_ns} genesis {}: the configuration reads duration {cd} genesis {cg}", s.model.genesis),
                            );
                        }
                    } else {
                        if cd != old || cg != s.model.genesis {
                            ctx.fail(
                                "C20",
                                "duration_update",
                                "rejected_but_changed",
                                None,
                                format!("rejected update to duration {duration_ns} by {sender}: the configuration changed from duration {old} genesis {} to duration {cd} genesis {cg}", s.model.genesis),
                            );
                        }
                        if allowed && !d.r.fault_fired {
                            ctx.probe("valid_duration_update_refused");
                        } else {
                            ctx.probe(if !*by_owner { "duration_update_by_stranger_refused" } else { "duration_below_one_day_refused" });
                        }
                    }
                    // the model follows the chain whatever the verdict was
                    if cd != old {
                        ctx.probe("duration_changed");
                        if !s.model.epochs.is_empty() {
                            s.model.dur_changed_mid = true;
                            s.model.dur_raised_mid = cd > old;
                            ctx.probe(if cd > old { "duration_raised_mid_history" } else { "duration_lowered_mid_history" });
                            let (b_old, b_new) = (s.boundary(), s.model.epochs.last().map(|e| e.start_time.nanos().saturating_add(cd)).unwrap_or(0));
                            let now = s.now();
                            if now < b_old && now >= b_new {
                                ctx.probe("duration_cut_makes_epoch_due_at_once");
                            } else if now >= b_old && now < b_new {
                                ctx.probe("duration_raise_defers_due_epoch");
                            }
                        }
                        ctx.state_of(&format!("duration:{old}:{cd}:{}", s.model.epochs.len()));
                    }
                    s.model.duration = cd;
                    s.model.genesis = cg;
                }
            }
            ctx.trace(&format!("set_duration:{duration_ns}:{by_owner}:{}", d.r.outcome.kind()));
            what = "set_duration".into();
        }
        Op::SetTake { rate, dao, active, by_owner } => {
            let sender = if *by_owner { OWNER } else { who };
            let msg = wasm_exec(
                &s.collector,
                &fee_collector::ExecuteMsg::UpdateConfig {
                    owner: None,
                    pool_router: None,
                    fee_distributor: None,
                    pool_factory: None,
                    vault_factory: None,
                    take_rate: rate.as_ref().map(|r| dec(r)),
                    take_rate_dao_address: dao.map(|d| DAOS[d % 2].to_string()),
                    is_take_rate_active: *active,
                },
                vec![],
            );
            let d = run(s, ctx, "set_take", sender, vec![msg], step.fault, false);
            let rate18 = rate.as_ref().map(|r| dec_atomics(r));
            let allowed = *by_owner && rate18.map(|r| r < E18).unwrap_or(true);
            ctx.eval("C10");
            if d.r.outcome.is_ok() {
                if !allowed {
                    ctx.fail(
                        "C10",
                        "take_config",
                        if !*by_owner { "accepted_from_stranger" } else { "rate_ge_one_accepted" },
                        None,
                        format!("collector config update (rate {rate:?}) by {sender} was accepted"),
                    );
                }
                if let Some(r) = rate18 {
                    s.model.take_rate18 = r;
                }
                if let Some(d) = dao {
                    s.model.dao = Some(d % 2);
                }
                if let Some(a) = active {
                    s.model.take_active = *a;
                }
            } else if !allowed {
                ctx.probe("take_config_refused");
            }
            ctx.trace(&format!("set_take:{rate:?}:{dao:?}:{active:?}:{by_owner}:{}", d.r.outcome.kind()));
            what = "set_take".into();
        }
        Op::ForwardDirect { as_owner } => {
            let sender = if *as_owner { OWNER } else { who };
            let n = s.model.epochs.len() as u64;
            let epoch = Epoch {
                id: Uint64::new(n + 1),
                start_time: cosmwasm_std::Timestamp::from_nanos(s.boundary()),
                total: vec![],
                available: vec![],
                claimed: vec![],
                global_index: Default::default(),
            };
            let msg = wasm_exec(
                &s.collector,
                &fee_collector::ExecuteMsg::ForwardFees { epoch, forward_fees_as: s.assets[0].clone() },
                vec![],
            );
            let d = run(s, ctx, "forward_fees_direct", sender, vec![msg], step.fault, false);
            ctx.eval("C10");
            if d.r.outcome.is_ok() {
                ctx.fail("C10", "forward_auth", "forward_fees_by_non_distributor", None, format!("ForwardFees sent by {sender} (not the fee distributor) was accepted"));
            } else {
                ctx.probe("forward_fees_refused");
            }
            ctx.trace(&format!("forward:{}", d.r.outcome.kind()));
            what = "forward_direct".into();
        }
        Op::CollectDirect { aggregate, vaults } => {
            let fees_for = FeesFor::Factory {
                factory_addr: if *vaults { s.vfactory.clone() } else { s.factory.clone() },
                factory_type: if *vaults {
                    FactoryType::Vault { start_after: None, limit: Some(30) }
                } else {
                    FactoryType::Pool { start_after: None, limit: Some(30) }
                },
            };
            let m = if *aggregate {
                fee_collector::ExecuteMsg::AggregateFees { aggregate_fees_for: fees_for }
            } else {
                fee_collector::ExecuteMsg::CollectFees { collect_fees_for: fees_for }
            };
            let msg = wasm_exec(&s.collector, &m, vec![]);
            let d = run(s, ctx, if *aggregate { "aggregate_direct" } else { "collect_direct" }, who, vec![msg], step.fault, *aggregate);
            ctx.trace(&format!("collect_direct:{aggregate}:{vaults}:{}", d.r.outcome.kind()));
            what = "collect_direct".into();
        }
        Op::Pause { pair, swaps_enabled } => {
            let p = pair % s.pairs.len();
            let msg = wasm_exec(
                &s.factory,
                &factory::ExecuteMsg::UpdatePairConfig {
                    pair_addr: s.pairs[p].clone(),
                    owner: None,
                    fee_collector_addr: None,
                    pool_fees: None,
                    feature_toggle: Some(toggle(*swaps_enabled)),
                },
                vec![],
            );
            let d = run(s, ctx, "pause_pair", OWNER, vec![msg], step.fault, false);
            if d.r.outcome.is_ok() {
                s.model.pair_paused[p] = !*swaps_enabled;
                if !*swaps_enabled {
                    ctx.probe("pair_swaps_paused");
                }
            }
            ctx.trace(&format!("pause:{p}:{swaps_enabled}:{}", d.r.outcome.kind()));
            what = "pause".into();
        }
        Op::RemovePair { pair } => {
            let p = pair % s.pairs.len();
            let pa = pair_assets(p);
            let msg = wasm_exec(
                &s.factory,
                &factory::ExecuteMsg::RemovePair { asset_infos: [s.assets[pa[0]].clone(), s.assets[pa[1]].clone()] },
                vec![],
            );
            let d = run(s, ctx, "remove_pair", OWNER, vec![msg], step.fault, false);
            if d.r.outcome.is_ok() {
                s.model.pair_registered[p] = false;
                ctx.probe("pair_removed_from_factory");
            }
            ctx.trace(&format!("remove_pair:{p}:{}", d.r.outcome.kind()));
            what = "remove_pair".into();
        }
        Op::Route { asset, add } => {
            let a = if *asset == 2 { 2 } else { 1 };
            let kind = match add {
                Some(k) if a == 2 && s.pairs.len() == 3 => *k % 2,
                _ => 0,
            };
            let cur_kind = s.model.routes[a - 1].unwrap_or(kind);
            let m = match add {
                Some(_) => router::ExecuteMsg::AddSwapRoutes { swap_routes: vec![s.route_msg(a, kind)] },
                None => router::ExecuteMsg::RemoveSwapRoutes { swap_routes: vec![s.route_msg(a, cur_kind)] },
            };
            let msg = wasm_exec(&s.router, &m, vec![]);
            let d = run(s, ctx, if add.is_some() { "add_route" } else { "remove_route" }, OWNER, vec![msg], step.fault, false);
            if d.r.outcome.is_ok() {
                s.model.routes[a - 1] = add.map(|_| kind);
                if add.is_none() {
                    ctx.probe("route_removed");
                }
            }
            ctx.trace(&format!("route:{a}:{add:?}:{}", d.r.outcome.kind()));
            what = "route".into();
        }
    }
    if ctx.stopped() {
        return;
    }
    end_of_step(s, ctx, &what);
}

/// Epilogue (C10, "recorded per epoch"): the owner re-points the collector to a freshly deployed
/// distributor, whose epoch ids start again at 1; the take recorded for the new epoch 1 must be what the
/// DAO receives in THAT creation, whatever an earlier distributor's epoch 1 recorded.
fn replaced_distributor_epilogue(s: &mut Hub, ctx: &mut Ctx) {
    if !ctx.on("C10") || ctx.stopped() || s.model.dist_switched || !s.model.take_active || s.model.take_rate18 == 0 || s.model.epochs.len() < 2 || s.model.epochs.len() % 2 == 1 {
        return;
    }
    let Some(dao_k) = s.model.dao else { return };
    let col = s.collector.clone();
    let old: Result<Coin, String> = query(&s.app, &col, &fee_collector::QueryMsg::TakeRateHistory { epoch_id: Uint64::new(1) });
    let Ok(old) = old else { return };
    if old.amount.is_zero() {
        return;
    }
    // something to take from
    let r = tx(&mut s.app, OWNER, vec![bank_send(&col, 1_000_000, WHALE)], Fault::None);
    if !r.outcome.is_ok() {
        return;
    }
    let code = s.app.store_code(code::fee_distributor());
    let now = s.now();
    let d2 = must_instantiate(
        &mut s.app,
        code,
        OWNER,
        &fee_distributor::InstantiateMsg {
            bonding_contract_addr: s.lair.clone(),
            fee_collector_addr: col.clone(),
            grace_period: Uint64::new(1),
            epoch_config: EpochConfig { duration: Uint64::new(DAY_NS), genesis_epoch: Uint64::new(now) },
            distribution_asset: s.assets[0].clone(),
        },
        "fee_distributor_2",
        None,
    );
    let m = wasm_exec(
        &col,
        &fee_collector::ExecuteMsg::UpdateConfig { owner: None, pool_router: None, fee_distributor: Some(d2.clone()), pool_factory: None, vault_factory: None, take_rate: None, take_rate_dao_address: None, is_take_rate_active: None },
        vec![],
    );
    let r = tx(&mut s.app, OWNER, vec![m], Fault::None);
    if !r.outcome.is_ok() {
        return;
    }
    let dao = DAOS[dao_k % 2];
    let before = balance(&s.app, dao, &s.assets[0]);
    let r = tx(&mut s.app, OWNER, vec![wasm_exec(&d2, &fee_distributor::ExecuteMsg::NewEpoch {}, vec![])], Fault::None);
    ctx.op("new_epoch_on_replaced_distributor", r.outcome.kind());
    if !r.outcome.is_ok() {
        ctx.probe("replaced_distributor_epoch_refused");
        return;
    }
    let got = balance(&s.app, dao, &s.assets[0]).saturating_sub(before);
    ctx.eval("C10");
    ctx.probe("replaced_distributor_epoch_created");
    let rec: Result<Coin, String> = query(&s.app, &col, &fee_collector::QueryMsg::TakeRateHistory { epoch_id: Uint64::new(1) });
    match rec {
        Ok(c) if got > 0 => {
            if c.amount.u128() != got {
                ctx.fail("C10", "take_history", "history_ne_amount_after_distributor_replaced", None,
                    format!("the collector was re-pointed to a new distributor; its epoch 1 paid the DAO {got} but TakeRateHistory[1] = {c} (the previous distributor's epoch 1 had recorded {old})"));
            }
        }
        _ => {}
    }
}

pub fn finish(s: &mut Hub, ctx: &mut Ctx) {
    replaced_distributor_epilogue(s, ctx);
    // history check: every epoch outside the grace window has an empty `available`
    let n = s.model.epochs.len();
    let g = s.model.grace as usize;
    if n > 0 {
        ctx.eval("C09");
    }
    for i in 0..n {
        // ids n-g+1..n are inside the window
        if i + g < n && !s.model.expired[i] {
            // can only happen when the grace period was raised so that the epoch was never selected
            if !s.model.epochs[i].available.is_empty() {
                ctx.probe("epoch_outside_window_never_selected");
            }
        }
    }
}

/// is pair `p` among the (at most 30) entries of the pool factory's first listing page?
fn pair_on_first_page(s: &Hub, p: usize) -> bool {
    let r: Result<white_whale_std::pool_network::factory::PairsResponse, String> =
        query(&s.app, &s.factory, &white_whale_std::pool_network::factory::QueryMsg::Pairs { start_after: None, limit: Some(30) });
    match r {
        Ok(l) => l.pairs.iter().any(|x| x.contract_addr == s.pairs[p]),
        Err(_) => true,
    }
}

/// is vault `v` among the (at most 30) entries of the vault factory's first listing page?
fn vault_on_first_page(s: &Hub, v: usize) -> bool {
    let r: Result<white_whale_std::vault_network::vault_factory::VaultsResponse, String> =
        query(&s.app, &s.vfactory, &white_whale_std::vault_network::vault_factory::QueryMsg::Vaults { start_after: None, limit: Some(30) });
    match r {
        Ok(l) => l.vaults.iter().any(|x| x.vault == s.vaults[v]),
        Err(_) => true,
    }
}
