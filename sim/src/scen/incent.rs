//! INCENT: incentive factory + one incentive contract (over the cw20 LP token of a real pair, or over a
//! native "LP" denom) + the repo's fee-distributor mock as the epoch clock + real pair + real frontend
//! helper. Serves C11 (LP custody), C12 (flow funding), C13 (weights / claims).
//! Generation is in `incent_gen.rs`, observation + oracles in `incent_oracle.rs`, the raw storage scan,
//! the weight replica and wide signed helpers in `incent_raw.rs`.

use cosmwasm_std::{coin, Coin, CosmosMsg, Uint128};
use serde::{Deserialize, Serialize};

use white_whale_std::fee::Fee;
use white_whale_std::pool_network::asset::{Asset, AssetInfo, PairInfo, PairType};
use white_whale_std::pool_network::pair::PoolFee;
use white_whale_std::pool_network::{factory, frontend_helper, incentive, incentive_factory, pair};

use crate::core::{Ctx, Scenario, Tier};
use crate::rng::Rng;
use crate::world::*;

pub const USERS: [&str; 5] = ["alice", "bobby", "carol", "david", "erin0"];
/// flow creators, factory owner, stranger
pub const SPECIALS: [&str; 4] = ["flora", "gregg", "owner", "mallo"];
pub const OWNER: &str = "owner";
pub const COLLECTOR: &str = "collector";
pub const MINTER: &str = "minter";

pub const A_LP: usize = 0;
pub const A_WHALE: usize = 1;
pub const A_USDC: usize = 2;
pub const A_RWD: usize = 3;
pub const A_FEE: usize = 4;
pub const A_PA: usize = 5;
pub const A_PB: usize = 6;

pub const D_LP: &str = "ulp";
pub const D_WHALE: &str = "uwhale";
pub const D_USDC: &str = "uusdc";
pub const D_PA: &str = "uaaa";

pub const DAY: u64 = 86_400;
pub const W_MIN_DUR: u64 = 86_400;
pub const W_MAX_DUR: u64 = 31_556_926;

/// Which defect-triggering input families the generator may produce in this run (each a minority of runs).
#[derive(Serialize, Deserialize, Clone, Debug, Default, PartialEq)]
pub struct Allow {
    /// same-denom flow with sent != declared
    pub d7: bool,
    /// closing an expanded flow by its creator / the owner
    pub d8: bool,
    /// closing a position whose parts' weights do not add up to the weight of the total
    pub d9: bool,
    /// closing a position in an epoch whose snapshot has not been taken yet
    pub d10: bool,
    /// first position of an address opened after the epoch's snapshot
    pub n1: bool,
    /// flows longer than 180 epochs (the expansion "reset" path)
    pub long_flows: bool,
    /// claim right after a position change in the same epoch / with an ended last flow
    pub d11: bool,
    /// expanding a flow whose asset is a cw20 token
    #[serde(default)]
    pub n3: bool,
}

#[derive(Serialize, Deserialize, Clone, Debug)]
pub struct Cfg {
    pub lp_native: bool,
    pub fee_native: bool,
    pub fee_amount: u128,
    pub n_users: usize,
    pub max_steps: usize,
    pub faults: bool,
    pub min_dur: u64,
    pub max_dur: u64,
    pub max_flows: u64,
    pub max_buffer: u64,
    /// LP per staker
    pub lp_funds: u128,
    /// reward assets per actor
    pub reward_funds: u128,
    /// weight of the epoch-advance op
    pub epoch_rate: u32,
    /// open, expand, close, withdraw, helper, open_flow, expand_flow, close_flow, claim
    pub weights: [u32; 9],
    pub allow: Allow,
}

#[derive(Serialize, Deserialize, Clone, Debug, PartialEq)]
#[serde(rename_all = "snake_case")]
pub enum FlowRef {
    Id(u64),
    Label(String),
}

#[derive(Serialize, Deserialize, Clone, Debug, PartialEq)]
#[serde(rename_all = "snake_case")]
pub enum Op {
    /// `provided`: cw20 LP: allowance given to the incentive; native LP: amount of the LP denom attached
    Open { amount: u128, dur: u64, receiver: Option<usize>, provided: u128, extra: u128 },
    Expand { amount: u128, dur: u64, receiver: Option<usize>, provided: u128, extra: u128 },
    Close { dur: u64 },
    Withdraw,
    /// deposit [native uaaa, cw20 TKB] through the frontend helper; `funds_a` attached, `allow_b` allowance
    Helper {
        amounts: [u128; 2],
        dur: u64,
        funds_a: u128,
        allow_b: u128,
        /// slippage tolerance handed to the helper (which has to pass it on to the pair)
        #[serde(default)]
        slippage: Option<String>,
    },
    /// `sent`: tokens made available for the flow asset (funds attached / allowance; when the fee asset is
    /// the same asset this includes the fee). `fee_sent`: funds / allowance of a different fee asset.
    /// `extra`: (asset, amount) additional native coin attached
    OpenFlow {
        asset: usize,
        declared: u128,
        sent: u128,
        fee_sent: u128,
        extra: Option<(usize, u128)>,
        start: Option<u64>,
        end: Option<u64>,
        label: Option<String>,
    },
    ExpandFlow { flow: FlowRef, asset: usize, declared: u128, sent: u128, end: Option<u64> },
    CloseFlow { flow: FlowRef },
    Claim,
    Snapshot,
    /// the clock op: `n` calls of the distributor mock's NewEpoch, one day each
    NewEpoch { n: u32 },
    /// scripted: `gap` epochs pass (more than one claim covers), every staker with a position claims, then
    /// for `rounds` epochs: new epoch, snapshot, every staker claims again
    ClaimMarathon { gap: u32, rounds: u32 },
    /// scripted: the actor opens and closes a position of duration `dur` `cycles` times in a row (amounts
    /// base, base+1, ...), claiming in between where needed, never withdrawing; then the unbonding time
    /// passes and the actor withdraws everything at once
    RestakeMarathon { cycles: u32, dur: u64, base: u128 },
}

#[derive(Serialize, Deserialize, Clone, Debug, PartialEq)]
pub struct Step {
    pub actor: usize,
    pub op: Op,
    /// seconds added to the block time before the step (0 = same block)
    pub adv_s: u64,
    pub fault: Fault,
}

pub struct Incent {
    pub cfg: Cfg,
    pub app: SimApp,
    pub actors: Vec<&'static str>,
    /// LP, uwhale, uusdc, RWD, FEE (+ pool assets uaaa, TKB in cw20-LP runs)
    pub assets: Vec<AssetInfo>,
    pub factory: String,
    pub incentive: String,
    pub distributor: String,
    pub pair: Option<String>,
    pub helper: Option<String>,
    /// observed accounts: actors, collector, incentive, (helper)
    pub accts: Vec<String>,
    pub elapsed_ns: u64,
    pub blocks: u64,
    pub obs: crate::scen::incent_oracle::Obs,
    pub model: crate::scen::incent_oracle::Model,
    /// scripted micro-history queued by the generator (popped from the back)
    pub script: Vec<Step>,
}

impl Incent {
    pub fn na(&self) -> usize {
        self.actors.len()
    }
    pub fn i_creator(&self, k: usize) -> usize {
        self.cfg.n_users + (k % 2)
    }
    pub fn i_owner(&self) -> usize {
        self.cfg.n_users + 2
    }
    pub fn i_stranger(&self) -> usize {
        self.cfg.n_users + 3
    }
    pub fn i_col(&self) -> usize {
        self.na()
    }
    pub fn i_inc(&self) -> usize {
        self.na() + 1
    }
    pub fn i_help(&self) -> Option<usize> {
        self.helper.as_ref().map(|_| self.na() + 2)
    }
    pub fn fee_asset(&self) -> usize {
        if self.cfg.fee_native {
            A_WHALE
        } else {
            A_FEE
        }
    }
    pub fn is_native(&self, a: usize) -> bool {
        matches!(self.assets[a], AssetInfo::NativeToken { .. })
    }
    pub fn denom(&self, a: usize) -> String {
        asset_id(&self.assets[a])
    }
    pub fn asset_index(&self, info: &AssetInfo) -> Option<usize> {
        self.assets.iter().position(|x| x == info)
    }
    pub fn asset(&self, a: usize, amount: u128) -> Asset {
        Asset { info: self.assets[a].clone(), amount: Uint128::new(amount) }
    }
    pub fn now_s(&self) -> u64 {
        now_ns(&self.app) / 1_000_000_000
    }
    pub fn advance(&mut self, secs: u64) {
        if secs > 0 {
            let ns = secs.saturating_mul(1_000_000_000);
            let blocks = (secs / 6).max(1);
            let t = now_ns(&self.app).saturating_add(ns);
            let h = height(&self.app).saturating_add(blocks);
            set_clock(&mut self.app, t, h);
            self.elapsed_ns = self.elapsed_ns.saturating_add(ns);
            self.blocks = self.blocks.saturating_add(blocks);
        }
    }
    pub fn cw20_allowance(&self, token: &str, owner: &str, spender: &str) -> u128 {
        let r: Result<cw20::AllowanceResponse, _> = query(
            &self.app,
            token,
            &cw20::Cw20QueryMsg::Allowance { owner: owner.to_string(), spender: spender.to_string() },
        );
        r.map(|a| a.allowance.u128()).unwrap_or(0)
    }
    /// messages that bring `owner`'s allowance for `spender` on cw20 asset `a` to exactly `target`
    pub fn set_allowance_msgs(&self, a: usize, owner: &str, spender: &str, target: u128) -> Vec<CosmosMsg> {
        let AssetInfo::Token { contract_addr } = &self.assets[a] else { return vec![] };
        let cur = self.cw20_allowance(contract_addr, owner, spender);
        if cur == target {
            vec![]
        } else if cur < target {
            vec![wasm_exec(
                contract_addr,
                &cw20::Cw20ExecuteMsg::IncreaseAllowance {
                    spender: spender.to_string(),
                    amount: Uint128::new(target - cur),
                    expires: None,
                },
                vec![],
            )]
        } else {
            vec![wasm_exec(
                contract_addr,
                &cw20::Cw20ExecuteMsg::DecreaseAllowance {
                    spender: spender.to_string(),
                    amount: Uint128::new(cur - target),
                    expires: None,
                },
                vec![],
            )]
        }
    }
    pub fn flow_ident(&self, f: &FlowRef) -> incentive::FlowIdentifier {
        match f {
            FlowRef::Id(i) => incentive::FlowIdentifier::Id(*i),
            FlowRef::Label(l) => incentive::FlowIdentifier::Label(l.clone()),
        }
    }
}

fn sorted(mut v: Vec<Coin>) -> Vec<Coin> {
    v.retain(|c| !c.amount.is_zero());
    v.sort_by(|a, b| a.denom.cmp(&b.denom));
    // merge duplicates
    let mut out: Vec<Coin> = vec![];
    for c in v {
        if let Some(l) = out.last_mut() {
            if l.denom == c.denom {
                l.amount = Uint128::new(l.amount.u128().saturating_add(c.amount.u128()));
                continue;
            }
        }
        out.push(c);
    }
    out
}
pub fn funds_of(parts: &[(String, u128)]) -> Vec<Coin> {
    sorted(parts.iter().map(|(d, a)| coin(*a, d.clone())).collect())
}

impl Scenario for Incent {
    const NAME: &'static str = "INCENT";
    type Cfg = Cfg;
    type Step = Step;

    fn gen_cfg(rng: &mut Rng, prop: &str, tier: Tier, _idx: u64) -> Cfg {
        let lp_native = rng.chance(2, 5) && prop != "C15";
        let fee_native = rng.chance(3, 5);
        let fee_amount = match rng.below(8) {
            0 => 0,
            1 => 1,
            2 => 1000,
            3 => 999,
            4 => rng.range128(1, 100_000),
            5 => 1_000_000,
            _ => rng.range128(1, 5000),
        };
        let (min_dur, max_dur) = match rng.below(5) {
            0 => (W_MIN_DUR, W_MAX_DUR),
            1 => (W_MIN_DUR, 15_778_463),
            2 => (100_000, W_MAX_DUR),
            3 => (W_MIN_DUR, W_MIN_DUR + rng.range(0, 1000)),
            _ => (W_MIN_DUR, W_MAX_DUR),
        };
        let lp_funds: u128 = match rng.below(6) {
            0 => rng.range128(10, 10_000),
            1 => rng.range128(1_000_000, 1_000_000_000_000),
            2 => rng.range128(1u128 << 60, 1u128 << 80),
            3 => (1u128 << 100) + rng.range128(0, 1u128 << 90),
            4 => rng.range128(1000, 100_000_000),
            _ => (1u128 << 101) - 1,
        };
        let reward_funds: u128 = match rng.below(4) {
            0 => 10u128.pow(9) + rng.range128(0, 999),
            1 => 10u128.pow(15) + rng.range128(0, 999_999),
            2 => (1u128 << 100) + rng.range128(0, 1u128 << 50),
            _ => 10u128.pow(12),
        };
        let mut weights = [12, 9, 7, 5, 5, 7, 5, 3, 16];
        for (i, w) in weights.iter_mut().enumerate() {
            // swarm: switch some op kinds off; never "open"
            if i != 0 && rng.chance(1, 6) {
                *w = 0;
            }
        }
        match prop {
            "C15" => {
                // deposits through the frontend helper with a slippage tolerance
                weights[4] = 30;
            }
            "C11" => {
                weights[0] += 6;
                weights[1] += 5;
                weights[2] += 4;
                weights[3] += 5;
                weights[4] += 5;
            }
            "C12" => {
                weights[5] += 8;
                weights[6] += 6;
                weights[7] += 5;
            }
            _ => {
                weights[8] += 8;
            }
        }
        let max_steps = {
            let cap = if tier == Tier::Thorough { 200 } else { 60 };
            let mut n = 8;
            while n < cap && !rng.chance(1, 24) {
                n += 1;
            }
            n
        };
        let c13 = prop == "C13";
        let allow = Allow {
            // D7, D8, D9, N6 (long flows) and N7 (cw20 flow expansion) have been repaired in /repo: these
            // input families are ordinary inputs now and are generated in most runs
            d7: rng.chance(6, 10),
            d8: rng.chance(7, 10),
            d9: rng.chance(7, 10),
            d10: rng.chance(if c13 { 3 } else { 1 }, 10),
            n1: rng.chance(if c13 { 2 } else { 1 }, 10),
            long_flows: rng.chance(1, 5),
            d11: rng.chance(if c13 { 3 } else { 2 }, 10),
            n3: rng.chance(7, 10),
        };
        Cfg {
            lp_native,
            fee_native,
            fee_amount,
            n_users: rng.range(3, 5) as usize,
            max_steps,
            faults: rng.chance(1, 3),
            min_dur,
            max_dur,
            max_flows: rng.range(1, 4),
            max_buffer: *rng.pick(&[0u64, 1, 3, 100]),
            lp_funds,
            reward_funds,
            epoch_rate: *rng.pick(&[6u32, 10, 16, 24, 36]),
            weights,
            allow,
        }
    }

    fn max_steps(cfg: &Cfg) -> usize {
        cfg.max_steps
    }

    fn build(cfg: &Cfg, _ctx: &mut Ctx) -> Self {
        let n = cfg.n_users.clamp(1, 5);
        let mut cfg = cfg.clone();
        cfg.n_users = n;
        let mut actors: Vec<&'static str> = USERS.iter().take(n).copied().collect();
        actors.extend_from_slice(&SPECIALS);
        let rf = cfg.reward_funds;
        let lp_for = |i: usize| -> u128 {
            if i < n {
                cfg.lp_funds
            } else if i < n + 2 {
                (cfg.lp_funds / 4).max(2000)
            } else {
                0
            }
        };
        // genesis native balances
        let mut bals: Vec<(&str, Vec<Coin>)> = vec![];
        for (i, a) in actors.iter().enumerate() {
            let mut cs = vec![coin(rf, D_WHALE), coin(rf, D_USDC)];
            if cfg.lp_native && lp_for(i) > 0 {
                cs.push(coin(lp_for(i), D_LP));
            }
            if !cfg.lp_native && i < n {
                cs.push(coin(cfg.lp_funds.max(1_000_000), D_PA));
            }
            bals.push((a, cs));
        }
        let total_lp: u128 = (0..actors.len()).map(lp_for).sum();
        let pool_seed = total_lp.saturating_add(1000);
        bals.push((MINTER, vec![coin(pool_seed.saturating_add(10), D_PA)]));
        let mut app = new_app(&bals);
        let token_code = app.store_code(code::token());
        let mock_code = app.store_code(code::fee_distributor_mock());
        let inc_code = app.store_code(code::incentive());
        let incf_code = app.store_code(code::incentive_factory());

        let cw20_bal: Vec<(&str, u128)> = actors.iter().map(|a| (*a, rf)).collect();
        let rwd = new_cw20(&mut app, token_code, "RWD", 6, MINTER, &cw20_bal);
        let fee_tok = new_cw20(&mut app, token_code, "FEE", 6, MINTER, &cw20_bal);
        let distributor = must_instantiate(&mut app, mock_code, OWNER, &fee_distributor_mock::msg::InstantiateMsg {}, "distributor", None);
        let fee_info = if cfg.fee_native { native(D_WHALE) } else { token(&fee_tok) };
        let inc_factory = must_instantiate(
            &mut app,
            incf_code,
            OWNER,
            &incentive_factory::InstantiateMsg {
                fee_collector_addr: COLLECTOR.to_string(),
                fee_distributor_addr: distributor.clone(),
                create_flow_fee: Asset { info: fee_info, amount: Uint128::new(cfg.fee_amount) },
                max_concurrent_flows: cfg.max_flows.max(1),
                incentive_code_id: inc_code,
                max_flow_epoch_buffer: cfg.max_buffer,
                min_unbonding_duration: cfg.min_dur,
                max_unbonding_duration: cfg.max_dur,
            },
            "incentive factory",
            None,
        );

        let mut assets: Vec<AssetInfo> = vec![];
        let mut pair_addr = None;
        let mut helper = None;
        if cfg.lp_native {
            assets.push(native(D_LP));
        } else {
            let pair_code = app.store_code(code::pair());
            let trio_code = app.store_code(code::trio());
            let pf_code = app.store_code(code::pool_factory());
            let helper_code = app.store_code(code::frontend_helper());
            let mut tkb_bal: Vec<(&str, u128)> = actors.iter().take(n).map(|a| (*a, cfg.lp_funds.max(1_000_000))).collect();
            tkb_bal.push((MINTER, pool_seed.saturating_add(10)));
            let tkb = new_cw20(&mut app, token_code, "TKB", 6, MINTER, &tkb_bal);
            let pool_factory = must_instantiate(
                &mut app,
                pf_code,
                OWNER,
                &factory::InstantiateMsg {
                    pair_code_id: pair_code,
                    trio_code_id: trio_code,
                    token_code_id: token_code,
                    fee_collector_addr: COLLECTOR.to_string(),
                },
                "pool factory",
                None,
            );
            must_exec(
                &mut app,
                OWNER,
                &pool_factory,
                &factory::ExecuteMsg::AddNativeTokenDecimals { denom: D_PA.to_string(), decimals: 6 },
                vec![],
            );
            let pool_assets = [native(D_PA), token(&tkb)];
            let zero = || Fee { share: cosmwasm_std::Decimal::zero() };
            must_exec(
                &mut app,
                OWNER,
                &pool_factory,
                &factory::ExecuteMsg::CreatePair {
                    asset_infos: pool_assets.clone(),
                    pool_fees: PoolFee { protocol_fee: zero(), swap_fee: zero(), burn_fee: zero() },
                    pair_type: PairType::ConstantProduct,
                    token_factory_lp: false,
                },
                vec![],
            );
            let pi: PairInfo = query(&app, &pool_factory, &factory::QueryMsg::Pair { asset_infos: pool_assets.clone() }).expect("harness: pair info");
            let lp = asset_id(&pi.liquidity_token);
            // seed liquidity 1:1 and hand the LP tokens out
            let msgs = vec![
                wasm_exec(
                    &tkb,
                    &cw20::Cw20ExecuteMsg::IncreaseAllowance { spender: pi.contract_addr.clone(), amount: Uint128::new(pool_seed), expires: None },
                    vec![],
                ),
                wasm_exec(
                    &pi.contract_addr,
                    &pair::ExecuteMsg::ProvideLiquidity {
                        assets: [
                            Asset { info: pool_assets[0].clone(), amount: Uint128::new(pool_seed) },
                            Asset { info: pool_assets[1].clone(), amount: Uint128::new(pool_seed) },
                        ],
                        slippage_tolerance: None,
                        receiver: None,
                    },
                    vec![coin(pool_seed, D_PA)],
                ),
            ];
            let r = tx(&mut app, MINTER, msgs, Fault::None);
            if !r.outcome.is_ok() {
                panic!("harness: seed liquidity: {}", r.outcome.err_text());
            }
            for (i, a) in actors.iter().enumerate() {
                if lp_for(i) > 0 {
                    must_exec(&mut app, MINTER, &lp, &cw20::Cw20ExecuteMsg::Transfer { recipient: a.to_string(), amount: Uint128::new(lp_for(i)) }, vec![]);
                }
            }
            assets.push(token(&lp));
            pair_addr = Some(pi.contract_addr.clone());
            let h = must_instantiate(&mut app, helper_code, OWNER, &frontend_helper::InstantiateMsg { incentive_factory: inc_factory.clone() }, "helper", None);
            helper = Some(h);
            assets.extend_from_slice(&[native(D_WHALE), native(D_USDC), token(&rwd), token(&fee_tok), pool_assets[0].clone(), pool_assets[1].clone()]);
        }
        if cfg.lp_native {
            assets.extend_from_slice(&[native(D_WHALE), native(D_USDC), token(&rwd), token(&fee_tok)]);
        }
        must_exec(&mut app, OWNER, &inc_factory, &incentive_factory::ExecuteMsg::CreateIncentive { lp_asset: assets[A_LP].clone() }, vec![]);
        let inc: incentive_factory::IncentiveResponse =
            query(&app, &inc_factory, &incentive_factory::QueryMsg::Incentive { lp_asset: assets[A_LP].clone() }).expect("harness: incentive address");
        let incentive = inc.expect("harness: incentive registered").to_string();

        // native look-alikes of the cw20 assets: coins whose denom is the token contract's address
        for a in &assets {
            if let AssetInfo::Token { contract_addr } = a {
                for who in &actors {
                    let _ = app.sudo(cw_multi_test::SudoMsg::Bank(cw_multi_test::BankSudo::Mint { to_address: who.to_string(), amount: vec![cosmwasm_std::coin(1_000_000_000_000, contract_addr.as_str())] }));
                }
            }
        }
        let mut accts: Vec<String> = actors.iter().map(|a| a.to_string()).collect();
        accts.push(COLLECTOR.to_string());
        accts.push(incentive.clone());
        if let Some(h) = &helper {
            accts.push(h.clone());
        }
        let mut s = Incent {
            cfg,
            app,
            actors,
            assets,
            factory: inc_factory,
            incentive,
            distributor,
            pair: pair_addr,
            helper,
            accts,
            elapsed_ns: 0,
            blocks: 0,
            obs: Default::default(),
            model: Default::default(),
            script: vec![],
        };
        s.obs = crate::scen::incent_oracle::observe(&s).unwrap_or_else(|e| panic!("harness: initial observation failed: {e}"));
        s.model = crate::scen::incent_oracle::Model::init(&s);
        s
    }

    fn gen_step(&mut self, rng: &mut Rng, ctx: &mut Ctx) -> Option<Step> {
        Some(crate::scen::incent_gen::gen_step(self, rng, ctx))
    }

    fn apply(&mut self, step: &Step, ctx: &mut Ctx) {
        crate::scen::incent_oracle::apply(self, step, ctx)
    }

    fn simplify(step: &Step) -> Vec<Step> {
        crate::scen::incent_gen::simplify(step)
    }

    fn sim_clock(&self) -> (u64, u64) {
        (self.elapsed_ns, self.blocks)
    }
}
