//! State-aware generation of concrete INCENT steps (reads the cached observation `s.obs`), and the
//! simplifications tried by the shrinker.

use crate::core::Ctx;
use crate::rng::Rng;
use crate::scen::incent::*;
use crate::scen::incent_raw::weight_replica;
use crate::world::Fault;

fn gen_dur(s: &Incent, rng: &mut Rng) -> u64 {
    let (lo, hi) = (s.cfg.min_dur, s.cfg.max_dur);
    let v = match rng.below(14) {
        0 | 1 => lo,
        2 | 3 => hi,
        4 => lo + 1,
        5 => hi.saturating_sub(1),
        6 => 15_778_463,
        7 => 100_000,
        8 => 15_800_000,
        9 => 2_592_000,
        10 => lo.saturating_sub(1),
        11 => hi + 1,
        _ => rng.range(lo, hi),
    };
    if rng.chance(1, 20) {
        v
    } else {
        v.clamp(lo, hi)
    }
}

fn non_round(rng: &mut Rng, max: u128) -> u128 {
    if max == 0 {
        return 1;
    }
    let a = rng.edge_amount(max).max(1);
    if a > 10 && a % 10 == 0 && rng.chance(3, 4) {
        a - rng.range128(1, 9)
    } else {
        a
    }
}

fn pick_actor(s: &Incent, rng: &mut Rng, staker_pct: u64) -> usize {
    if rng.below(100) < staker_pct {
        rng.idx(s.cfg.n_users)
    } else {
        rng.idx(s.na())
    }
}

fn flow_ref(rng: &mut Rng, id: u64, label: &Option<String>) -> FlowRef {
    match label {
        Some(l) if rng.chance(1, 3) => FlowRef::Label(l.clone()),
        _ => FlowRef::Id(id),
    }
}

pub fn gen_step(s: &mut Incent, rng: &mut Rng, ctx: &mut Ctx) -> Step {
    if let Some(st) = s.script.pop() {
        return st;
    }
    let o = s.obs.clone();
    // scripted micro-history: with a flow that still runs for more than 125 epochs and a staker present,
    // let more epochs pass than one claim covers, then everybody claims in each of the following epochs
    if s.cfg.allow.long_flows && rng.chance(1, 30) {
        let e = o.epoch;
        let staker = (0..s.cfg.n_users).find(|i| !o.open[*i].is_empty());
        let long_flow = o.flows.iter().any(|f| f.end_latest() > e + 125 && f.start <= e + 1);
        if let (Some(actor), true) = (staker, long_flow) {
            ctx.probe("script_claim_gap_beyond_cap_then_series");
            let marathon = Step { actor, op: Op::ClaimMarathon { gap: rng.range(101, 118) as u32, rounds: rng.range(12, 30) as u32 }, adv_s: 0, fault: Fault::None };
            // first a second, properly funded flow in the same reward asset (so that an over-paying claim
            // would have other flows' tokens to take), then the marathon
            let f = o.flows.iter().find(|f| f.end_latest() > e + 125 && f.start <= e + 1).unwrap();
            if let Some(asset) = s.asset_index(&f.asset) {
                let creator = s.i_creator(rng.idx(2));
                let fee = s.cfg.fee_amount;
                let same = asset == s.fee_asset();
                let declared = (o.bal[creator][asset] / 8).max(2000).saturating_add(if same { fee } else { 0 });
                if o.bal[creator][asset] >= declared && (o.flows.len() as u64) < s.cfg.max_flows {
                    s.script = vec![marathon];
                    return Step { actor: creator, op: Op::OpenFlow { asset, declared, sent: declared, fee_sent: fee, extra: None, start: None, end: None, label: None }, adv_s: 0, fault: Fault::None };
                }
            }
            return marathon;
        }
    }
    // scripted micro-history: dozens of closed positions of one account pile up before it withdraws
    if rng.chance(1, 300) {
        let actor = rng.idx(s.cfg.n_users);
        let dur = gen_dur(s, rng).clamp(s.cfg.min_dur, s.cfg.max_dur);
        let cycles = rng.range(28, 45) as u32;
        let bal = o.bal[actor][A_LP];
        if bal >= 200 * cycles as u128 && o.open_of(actor, dur).is_none() {
            ctx.probe("script_restake_marathon");
            let base = (bal / (2 * cycles as u128)).min(1_000_000_007).max(3);
            return Step { actor, op: Op::RestakeMarathon { cycles, dur, base }, adv_s: 0, fault: Fault::None };
        }
    }
    let na = s.na();
    let snap = o.snap.is_some();
    let any_pos = o.open.iter().any(|v| !v.is_empty());
    let snap_w = if snap { 2 } else { 26 };
    let mut w: Vec<u32> = s.cfg.weights.to_vec();
    w.push(snap_w);
    w.push(s.cfg.epoch_rate);
    if s.cfg.lp_native {
        w[4] = 0;
    }
    if o.flows.is_empty() {
        w[6] = w[6].min(1);
        w[7] = w[7].min(1);
        w[5] += 8;
    }
    if o.flows.len() as u64 >= s.cfg.max_flows {
        w[5] = w[5].min(2);
    }
    if !any_pos {
        w[0] += 20;
    }
    for _ in 0..8 {
        let kind = rng.weighted(&w);
        if let Some(st) = gen_kind(s, rng, ctx, &o, kind) {
            return st;
        }
    }
    Step { actor: rng.idx(na), op: Op::NewEpoch { n: 1 }, adv_s: 0, fault: Fault::None }
}

fn gen_kind(s: &mut Incent, rng: &mut Rng, ctx: &mut Ctx, o: &crate::scen::incent_oracle::Obs, kind: usize) -> Option<Step> {
    let e = o.epoch;
    let na = s.na();
    let n = s.cfg.n_users;
    let snap = o.snap.is_some();
    let al = s.cfg.allow.clone();
    let adv_s = match rng.below(12) {
        0 => 1,
        1 => 6,
        2 => 3600,
        3 => rng.range(1, 86_400),
        _ => 0,
    };
    let mut fault = Fault::None;
    if s.cfg.faults && rng.chance(1, 9) {
        fault = match rng.below(4) {
            0 => Fault::Bank(rng.range(1, 3) as u32),
            1 => Fault::Query(rng.range(1, 5) as u32),
            _ => Fault::SubCall(rng.range(1, 11) as u32),
        };
    }
    let mk = |actor: usize, op: Op, adv_s: u64, fault: Fault| Some(Step { actor, op, adv_s, fault });
    match kind {
        // ---- open
        0 => {
            let actor = pick_actor(s, rng, 92);
            let who = s.actors[actor];
            // sometimes a third party opens a dust position for the frontend helper contract itself,
            // with a duration some user already uses (the helper then owns a position of its own that a
            // mis-addressed expansion could land in)
            if s.helper.is_some() && rng.chance(1, 14) {
                let used: Vec<u64> = o.open.iter().take(na).flat_map(|v| v.iter().map(|p| p.1)).collect();
                let dur = if used.is_empty() { gen_dur(s, rng) } else { *rng.pick(&used) };
                let amount = rng.range128(1, 3);
                ctx.probe("gen_position_opened_for_helper_contract");
                return mk(actor, Op::Open { amount, dur, receiver: Some(1000), provided: amount, extra: 0 }, adv_s, Fault::None);
            }
            let receiver = if rng.chance(1, 5) { Some(rng.idx(na)) } else { None };
            let recv = receiver.unwrap_or(actor);
            let recv_s = s.actors[recv];
            if !al.n1 && snap && !o.raw.has_entry_le(recv_s, e) {
                // would be the first weight entry of this address, after the snapshot
                ctx.probe("gen_avoided_first_open_after_snapshot");
                return None;
            }
            let bal = o.bal[actor][A_LP];
            let mut amount = non_round(rng, bal / 2 + 1);
            let mut dur = gen_dur(s, rng);
            // neighbour of an existing position: (a+delta, d) or (a, d+delta)
            let others: Vec<(u128, u64, u128)> = o.open.iter().enumerate().filter(|(i, _)| *i != recv).flat_map(|(_, v)| v.iter().copied()).collect();
            if !others.is_empty() && rng.chance(1, 3) {
                let p = *rng.pick(&others);
                match rng.below(3) {
                    0 => {
                        amount = p.0.saturating_add(rng.range128(0, 3));
                        dur = p.1;
                    }
                    1 => {
                        amount = p.0;
                        dur = p.1.saturating_add(rng.range(0, 2)).min(s.cfg.max_dur);
                    }
                    _ => {
                        amount = p.0.saturating_sub(rng.range128(0, 2)).max(1);
                        dur = p.1.saturating_sub(rng.range(0, 1)).max(s.cfg.min_dur);
                    }
                }
            }
            // prefer a duration the receiver does not use yet
            if o.open_of(recv, dur).is_some() && rng.chance(4, 5) {
                dur = gen_dur(s, rng);
            }
            let _ = who;
            let (provided, extra) = match rng.below(14) {
                0 => (amount.saturating_sub(1), 0),
                1 => (amount.saturating_add(1), 0),
                2 => (0, 0),
                3 => (amount, 7),
                _ => (amount, 0),
            };
            let amount = if rng.chance(1, 40) { 0 } else { amount };
            let f = if s.cfg.lp_native { match fault { Fault::SubCall(k) if k > 1 => Fault::Bank(1), x => x } } else { fault };
            mk(actor, Op::Open { amount, dur, receiver, provided, extra }, adv_s, f)
        }
        // ---- expand
        1 => {
            let holders: Vec<usize> = (0..na).filter(|i| !o.open[*i].is_empty()).collect();
            if holders.is_empty() && rng.chance(9, 10) {
                return None;
            }
            let mut actor = pick_actor(s, rng, 92);
            let mut receiver = if rng.chance(1, 5) { Some(rng.idx(na)) } else { None };
            if !holders.is_empty() && rng.chance(9, 10) {
                let h = *rng.pick(&holders);
                if h < n && rng.chance(3, 4) {
                    actor = h;
                    receiver = None;
                } else {
                    receiver = Some(h);
                }
            }
            let recv = receiver.unwrap_or(actor);
            let bal = o.bal[actor][A_LP];
            let amount = non_round(rng, bal / 3 + 1);
            let dur = match o.open[recv].len() {
                0 => gen_dur(s, rng),
                k => {
                    if rng.chance(1, 12) {
                        gen_dur(s, rng)
                    } else {
                        o.open[recv][rng.idx(k)].1
                    }
                }
            };
            let provided = match rng.below(12) {
                0 => amount.saturating_sub(1),
                1 => amount.saturating_add(1),
                _ => amount,
            };
            mk(actor, Op::Expand { amount, dur, receiver, provided, extra: 0 }, adv_s, fault)
        }
        // ---- close
        2 => {
            let holders: Vec<usize> = (0..na).filter(|i| !o.open[*i].is_empty()).collect();
            if holders.is_empty() {
                if rng.chance(9, 10) {
                    return None;
                }
                return mk(rng.idx(na), Op::Close { dur: gen_dur(s, rng) }, adv_s, Fault::None);
            }
            let actor = *rng.pick(&holders);
            let who = s.actors[actor];
            let p = *rng.pick(&o.open[actor]);
            if !al.d10 && !snap {
                ctx.probe("gen_avoided_close_before_snapshot");
                return None;
            }
            if !al.d9 {
                // closing would expose parts' weights that do not add up to the weight of the total
                if let (Some((pw, _)), Some(rw)) = (s.model.parts.get(&(who.to_string(), p.1)), weight_replica(p.1, p.0)) {
                    let other_risk = s.model.had_expand.contains(who) && o.raw.addr(who) < rw;
                    if *pw != rw || other_risk {
                        ctx.probe("gen_avoided_close_of_rounded_position");
                        return None;
                    }
                }
            }
            let dur = if rng.chance(1, 15) { gen_dur(s, rng) } else { p.1 };
            mk(actor, Op::Close { dur }, adv_s, Fault::None)
        }
        // ---- withdraw
        3 => {
            let holders: Vec<usize> = (0..na).filter(|i| !o.closed[*i].is_empty()).collect();
            if holders.is_empty() && rng.chance(5, 6) {
                return None;
            }
            let actor = if holders.is_empty() || rng.chance(1, 8) { rng.idx(na) } else { *rng.pick(&holders) };
            // clock alphabet around the unbonding timestamp of one of the closed positions
            let mut adv = adv_s;
            if let Some(p) = o.closed[actor].first() {
                let now = s.now_s();
                if p.1 >= now && rng.chance(1, 3) {
                    let to = p.1 - now;
                    adv = match rng.below(3) {
                        0 => to.saturating_sub(1),
                        1 => to,
                        _ => to + 1,
                    };
                }
            }
            let f = if s.cfg.lp_native { match fault { Fault::SubCall(_) => Fault::Bank(1), x => x } } else { match fault { Fault::Bank(_) => Fault::SubCall(2), x => x } };
            mk(actor, Op::Withdraw, adv, f)
        }
        // ---- helper deposit
        4 => {
            let actor = pick_actor(s, rng, 95);
            let who = s.actors[actor];
            if !al.n1 && snap && !o.raw.has_entry_le(who, e) {
                ctx.probe("gen_avoided_first_open_after_snapshot");
                return None;
            }
            let (ba, bb) = (o.bal[actor][A_PA], o.bal[actor][A_PB]);
            let a0 = non_round(rng, ba / 3 + 1);
            let a1 = if rng.chance(2, 3) { a0.min(bb) } else { non_round(rng, bb / 3 + 1) };
            let dur = match o.open[actor].len() {
                0 => gen_dur(s, rng),
                k => {
                    if rng.chance(1, 2) {
                        o.open[actor][rng.idx(k)].1
                    } else {
                        gen_dur(s, rng)
                    }
                }
            };
            let (funds_a, allow_b) = match rng.below(12) {
                0 => (a0.saturating_sub(1), a1),
                1 => (a0, a1.saturating_add(1)),
                2 => (a0, a1.saturating_sub(1)),
                // more native funds attached than declared: must be refused, nothing may stay in the helper
                3 => (a0.saturating_add(1), a1),
                4 => (a0.saturating_add(1000), a1),
                _ => (a0, a1),
            };
            let slippage = match rng.below(10) {
                0..=3 => None,
                4 => Some("0".to_string()),
                5 => Some("0.000000000000000001".to_string()),
                6 => Some("0.01".to_string()),
                7 => Some("0.5".to_string()),
                8 => Some("1".to_string()),
                _ => Some(format!("0.{:03}", rng.range(1, 999))),
            };
            mk(actor, Op::Helper { amounts: [a0, a1.max(1)], dur, funds_a, allow_b, slippage }, adv_s, fault)
        }
        // ---- open flow
        5 => {
            let actor = match rng.below(20) {
                0..=11 => s.i_creator(rng.idx(2)),
                12..=16 => rng.idx(n),
                17 | 18 => s.i_owner(),
                _ => s.i_stranger(),
            };
            let asset = *rng.pick(&[A_WHALE, A_WHALE, A_USDC, A_RWD, A_RWD, A_FEE, A_FEE, A_LP]);
            let fa = s.fee_asset();
            let same = asset == fa;
            let fee = s.cfg.fee_amount;
            let bal = o.bal[actor][asset];
            let mut declared = match rng.below(10) {
                0 => 1000,
                1 => 999,
                2 => fee.saturating_add(1000),
                3 => fee.saturating_add(999),
                _ => non_round(rng, (bal / 4).max(2000)).max(1000),
            };
            if same {
                declared = declared.saturating_add(fee);
            }
            let mode = rng.below(16);
            let mut sent = match mode {
                0 => declared.saturating_sub(rng.range128(1, declared.max(2) - 1)),
                1 => declared.saturating_add(rng.range128(1, 1000)),
                2 if same => fee,
                _ => declared,
            };
            if same && s.is_native(fa) && sent != declared && !al.d7 {
                sent = declared;
            }
            let fee_sent = match rng.below(16) {
                0 => fee.saturating_sub(1),
                1 => fee.saturating_add(rng.range128(1, 50)),
                _ => fee,
            };
            let mut extra = if rng.chance(1, 15) { Some((*rng.pick(&[A_USDC, A_WHALE, A_LP]), rng.range128(1, 50))) } else { None };
            // hostile: the declared amount attached in a DIFFERENT native denom, nothing in the flow's own
            if s.is_native(asset) && !same && rng.chance(1, 12) {
                let other = if asset == A_USDC { A_WHALE } else { A_USDC };
                if s.is_native(other) && o.bal[actor][other] >= declared {
                    extra = Some((other, declared));
                    sent = 0;
                    ctx.probe("gen_flow_amount_in_wrong_denom");
                }
            }
            let buf = s.cfg.max_buffer;
            let start = match rng.below(24) {
                0 => Some(e),
                1 => Some(e.saturating_sub(1)),
                2 => Some(e + 1),
                3 => Some(e + buf),
                4 => Some(e + buf + 1),
                5 => Some(0),
                6 => Some(e.saturating_sub(rng.range(2, 5))),
                _ => None,
            };
            let st = start.unwrap_or(e);
            let mut end = match rng.below(30) {
                0 => Some(e),
                1 => Some(e.saturating_sub(1)),
                2 => Some(st.saturating_sub(1)),
                3 => Some(e + 1),
                4 => Some(e + 2),
                5 => Some(st + 3),
                6 => Some(e + 181 + rng.range(0, 40)),
                7 => Some(st + 180),
                8 | 9 => None,
                _ => Some(e + rng.range(2, 12)),
            };
            if !al.long_flows {
                if let Some(x) = end {
                    if x.saturating_sub(st.min(e)) > 170 {
                        end = Some(e + 9);
                    }
                }
            }
            let label = if rng.chance(1, 3) { Some(format!("lab{}", rng.below(1000))) } else { None };
            let native_in = s.is_native(asset) || (!same && s.is_native(fa));
            let f = match fault {
                Fault::Bank(_) if !native_in => Fault::SubCall(2),
                x => x,
            };
            mk(actor, Op::OpenFlow { asset, declared, sent, fee_sent, extra, start, end, label }, adv_s, f)
        }
        // ---- expand flow
        6 => {
            if o.flows.is_empty() {
                return mk(rng.idx(na), Op::ExpandFlow { flow: FlowRef::Id(rng.range(0, 3)), asset: A_WHALE, declared: 1000, sent: 1000, end: None }, adv_s, Fault::None);
            }
            let f = rng.pick(&o.flows).clone();
            let f_native = matches!(f.asset, white_whale_std::pool_network::asset::AssetInfo::NativeToken { .. });
            if !f_native && (!al.n3 || f.end_latest().saturating_sub(f.start) > 170) {
                ctx.probe("gen_avoided_cw20_flow_expansion");
                return None;
            }
            let mut asset = if rng.chance(1, 15) { rng.idx(5) } else { s.asset_index(&f.asset).unwrap_or(A_WHALE) };
            // hostile: the expansion of a cw20 flow is paid in a NATIVE coin whose denom is the token's address
            let lookalike = !f_native && rng.chance(1, 4);
            let actor = match rng.below(10) {
                0..=5 => s.accts.iter().position(|a| *a == f.creator).filter(|i| *i < na).unwrap_or(0),
                6 | 7 => s.i_creator(rng.idx(2)),
                8 => rng.idx(n),
                _ => s.i_stranger(),
            };
            let bal = o.bal[actor][asset];
            let declared = non_round(rng, (bal / 6).max(10));
            let sent = match rng.below(10) {
                0 => declared.saturating_sub(1),
                1 => declared.saturating_add(1),
                _ => declared,
            };
            let cur_end = f.end_latest();
            let mut end = match rng.below(8) {
                0 => Some(cur_end),
                1 => Some(cur_end + rng.range(1, 10)),
                2 => Some(cur_end.saturating_sub(1)),
                3 => Some(e + 3),
                _ => None,
            };
            if !al.long_flows {
                if let Some(x) = end {
                    if x.saturating_sub(f.start) > 170 {
                        end = None;
                    }
                }
            }
            let (declared, sent) = if lookalike { let x = declared.min(1_000_000_000); (x, x) } else { (declared, sent) };
            if lookalike {
                asset = 100 + s.asset_index(&f.asset).unwrap_or(A_RWD);
                ctx.probe("gen_expansion_paid_in_lookalike_native_coin");
            }
            mk(actor, Op::ExpandFlow { flow: flow_ref(rng, f.id, &f.label), asset, declared, sent, end }, adv_s, if lookalike { Fault::None } else { fault })
        }
        // ---- close flow
        7 => {
            if o.flows.is_empty() {
                return mk(rng.idx(na), Op::CloseFlow { flow: FlowRef::Id(rng.range(0, 3)) }, adv_s, Fault::None);
            }
            let f = rng.pick(&o.flows).clone();
            let creator = s.accts.iter().position(|a| *a == f.creator).filter(|i| *i < na).unwrap_or(0);
            let mut actor = match rng.below(10) {
                0..=4 => creator,
                5 | 6 => s.i_owner(),
                7 => s.i_stranger(),
                _ => rng.idx(na),
            };
            let expanded = s.model.flows.get(&f.id).map(|m| m.expanded).unwrap_or(false);
            if expanded && !al.d8 && (actor == creator || actor == s.i_owner()) {
                ctx.probe("gen_avoided_close_of_expanded_flow");
                actor = s.i_stranger();
            }
            let fl = match fault {
                Fault::Bank(_) if !matches!(f.asset, white_whale_std::pool_network::asset::AssetInfo::NativeToken { .. }) => Fault::SubCall(2),
                Fault::SubCall(k) if k > 2 => Fault::SubCall(2),
                x => x,
            };
            mk(actor, Op::CloseFlow { flow: flow_ref(rng, f.id, &f.label) }, adv_s, fl)
        }
        // ---- claim
        8 => {
            let holders: Vec<usize> = (0..na).filter(|i| o.raw.hist.contains_key(s.actors[*i])).collect();
            let actor = if holders.is_empty() || rng.chance(1, 10) { rng.idx(na) } else { *rng.pick(&holders) };
            let who = s.actors[actor];
            if !snap && rng.chance(3, 4) {
                return mk(actor, Op::Snapshot, adv_s, Fault::None);
            }
            if o.raw.last_claimed.get(who) == Some(&e) && rng.chance(5, 6) {
                return None;
            }
            if (holders.is_empty() || o.flows.is_empty()) && rng.chance(3, 4) {
                return None;
            }
            if !al.d11 {
                // a claim right after a position change of the same epoch, or with an ended / not yet started
                // last flow, rewrites the history with an older weight
                let changed_now = o.raw.entry(who, e + 1).is_some() && o.raw.frozen(who, e) != o.raw.entry(who, e + 1).unwrap_or(0);
                let last_flow_live = o.flows.iter().max_by_key(|f| (f.start, f.id)).map(|f| f.start <= e && f.end_latest() > e).unwrap_or(false);
                let first = o.raw.last_claimed.get(who).map(|l| l + 1);
                let starts_after_history = o.flows.iter().max_by_key(|f| (f.start, f.id)).map(|f| first.is_none() && o.raw.hist.get(who).map(|h| h.keys().filter(|k| **k <= f.start).count() > 1).unwrap_or(false)).unwrap_or(false);
                if changed_now || !last_flow_live || starts_after_history {
                    ctx.probe("gen_avoided_history_rewriting_claim");
                    return None;
                }
            }
            let f = match fault {
                Fault::SubCall(k) if k > 4 => Fault::SubCall(2),
                x => x,
            };
            mk(actor, Op::Claim, adv_s, f)
        }
        // ---- snapshot
        9 => mk(rng.idx(na), Op::Snapshot, adv_s, Fault::None),
        // ---- epoch
        _ => {
            let n = match rng.below(40) {
                0 | 1 => 2,
                2 => 3,
                3 => rng.range(4, 16) as u32,
                // long gaps while several long flows run: (flows x unclaimed epochs) beyond 100
                4..=8 if s.cfg.allow.long_flows && o.flows.len() >= 2 => rng.range(34, 70) as u32,
                // claim gaps beyond the 100-epoch claim cap
                9 | 10 if s.cfg.allow.long_flows && !o.flows.is_empty() => rng.range(95, 135) as u32,
                _ => 1,
            };
            if n >= 34 {
                ctx.probe("long_epoch_gap_with_several_flows");
            }
            mk(rng.idx(na), Op::NewEpoch { n }, 0, Fault::None)
        }
    }
}

fn shr(x: u128) -> Vec<u128> {
    let mut v = vec![];
    if x > 1 {
        v.push(x / 2);
        let mut p = 1u128;
        while p.saturating_mul(10) <= x {
            p *= 10;
        }
        if p != x {
            v.push(p);
        }
        v.push(x - 1);
    }
    v
}

pub fn simplify(step: &Step) -> Vec<Step> {
    let mut out = vec![];
    let mut push = |op: Op, adv_s: u64, fault: Fault| out.push(Step { actor: step.actor, op, adv_s, fault });
    if step.fault != Fault::None {
        push(step.op.clone(), step.adv_s, Fault::None);
    }
    if step.adv_s != 0 {
        push(step.op.clone(), 0, step.fault);
    }
    match &step.op {
        Op::Open { amount, dur, receiver, provided, extra } => {
            if receiver.is_some() {
                push(Op::Open { amount: *amount, dur: *dur, receiver: None, provided: *provided, extra: *extra }, step.adv_s, step.fault);
            }
            if *extra != 0 {
                push(Op::Open { amount: *amount, dur: *dur, receiver: *receiver, provided: *provided, extra: 0 }, step.adv_s, step.fault);
            }
            if provided == amount {
                for a in shr(*amount) {
                    push(Op::Open { amount: a, dur: *dur, receiver: *receiver, provided: a, extra: *extra }, step.adv_s, step.fault);
                }
            }
            for d in [W_MIN_DUR, 100_000] {
                if *dur != d {
                    push(Op::Open { amount: *amount, dur: d, receiver: *receiver, provided: *provided, extra: *extra }, step.adv_s, step.fault);
                }
            }
        }
        Op::Expand { amount, dur, receiver, provided, extra } => {
            if receiver.is_some() {
                push(Op::Expand { amount: *amount, dur: *dur, receiver: None, provided: *provided, extra: *extra }, step.adv_s, step.fault);
            }
            if provided == amount {
                for a in shr(*amount) {
                    push(Op::Expand { amount: a, dur: *dur, receiver: *receiver, provided: a, extra: *extra }, step.adv_s, step.fault);
                }
            }
        }
        Op::Helper { amounts, dur, funds_a, allow_b, slippage } => {
            if *funds_a == amounts[0] && *allow_b == amounts[1] && slippage.is_none() {
                for a in shr(amounts[0].min(amounts[1])) {
                    push(Op::Helper { amounts: [a, a], dur: *dur, funds_a: a, allow_b: a, slippage: None }, step.adv_s, step.fault);
                }
            }
        }
        Op::OpenFlow { asset, declared, sent, fee_sent, extra, start, end, label } => {
            let mk = |declared: u128, sent: u128, extra: Option<(usize, u128)>, start: Option<u64>, end: Option<u64>, label: Option<String>| Op::OpenFlow {
                asset: *asset,
                declared,
                sent,
                fee_sent: *fee_sent,
                extra,
                start,
                end,
                label,
            };
            if extra.is_some() {
                push(mk(*declared, *sent, None, *start, *end, label.clone()), step.adv_s, step.fault);
            }
            if label.is_some() {
                push(mk(*declared, *sent, *extra, *start, *end, None), step.adv_s, step.fault);
            }
            if start.is_some() {
                push(mk(*declared, *sent, *extra, None, *end, label.clone()), step.adv_s, step.fault);
            }
            if end.is_some() {
                push(mk(*declared, *sent, *extra, *start, None, label.clone()), step.adv_s, step.fault);
            }
            if sent == declared {
                for a in shr(*declared) {
                    push(mk(a, a, *extra, *start, *end, label.clone()), step.adv_s, step.fault);
                }
            } else {
                for a in shr(*declared) {
                    push(mk(a, *sent, *extra, *start, *end, label.clone()), step.adv_s, step.fault);
                }
                for a in shr(*sent) {
                    push(mk(*declared, a, *extra, *start, *end, label.clone()), step.adv_s, step.fault);
                }
            }
        }
        Op::ExpandFlow { flow, asset, declared, sent, end } => {
            if end.is_some() {
                push(Op::ExpandFlow { flow: flow.clone(), asset: *asset, declared: *declared, sent: *sent, end: None }, step.adv_s, step.fault);
            }
            if sent == declared {
                for a in shr(*declared) {
                    push(Op::ExpandFlow { flow: flow.clone(), asset: *asset, declared: a, sent: a, end: *end }, step.adv_s, step.fault);
                }
            }
        }
        Op::RestakeMarathon { cycles, dur, base } => {
            if *cycles > 1 {
                push(Op::RestakeMarathon { cycles: cycles / 2, dur: *dur, base: *base }, step.adv_s, step.fault);
                push(Op::RestakeMarathon { cycles: cycles - 1, dur: *dur, base: *base }, step.adv_s, step.fault);
            }
        }
        Op::ClaimMarathon { gap, rounds } => {
            if *rounds > 1 {
                push(Op::ClaimMarathon { gap: *gap, rounds: rounds / 2 }, step.adv_s, step.fault);
                push(Op::ClaimMarathon { gap: *gap, rounds: rounds - 1 }, step.adv_s, step.fault);
            }
        }
        Op::NewEpoch { n } => {
            if *n > 1 {
                push(Op::NewEpoch { n: 1 }, step.adv_s, step.fault);
                push(Op::NewEpoch { n: n - 1 }, step.adv_s, step.fault);
            }
        }
        Op::Close { .. } | Op::Withdraw | Op::CloseFlow { .. } | Op::Claim | Op::Snapshot => {}
    }
    out
}
