//! Observation, reference model and oracles of INCENT (C11, C12, C13).

use std::collections::{BTreeMap, BTreeSet};

use bnum::types::{I256, U256};
use cosmwasm_std::{coin, Uint128};
use white_whale_std::pool_network::asset::AssetInfo;
use white_whale_std::pool_network::incentive::{self, Flow, QueryPosition};
use white_whale_std::pool_network::frontend_helper;

use crate::core::Ctx;
use crate::scen::incent::*;
use crate::scen::incent_raw::*;
use crate::world::*;

// ---------------------------------------------------------------------------------------------
// observation
// ---------------------------------------------------------------------------------------------

#[derive(Clone, Debug, PartialEq)]
pub struct FlowV {
    pub id: u64,
    pub label: Option<String>,
    pub creator: String,
    pub asset: AssetInfo,
    /// `flow_asset.amount`: the original (or, after a reset, re-based) amount
    pub amount0: u128,
    pub claimed: u128,
    pub start: u64,
    pub end: u64,
    pub hist: BTreeMap<u64, (u128, u64)>,
    pub emitted: BTreeMap<u64, u128>,
}

impl FlowV {
    fn from(f: &Flow) -> FlowV {
        FlowV {
            id: f.flow_id,
            label: f.flow_label.clone(),
            creator: f.flow_creator.to_string(),
            asset: f.flow_asset.info.clone(),
            amount0: f.flow_asset.amount.u128(),
            claimed: f.claimed_amount.u128(),
            start: f.start_epoch,
            end: f.end_epoch,
            hist: f.asset_history.iter().map(|(k, (a, e))| (*k, (a.u128(), *e))).collect(),
            emitted: f.emitted_tokens.iter().map(|(k, v)| (*k, v.u128())).collect(),
        }
    }
    /// recorded funding: the last expansion total, else the original amount
    pub fn total(&self) -> u128 {
        self.hist.values().next_back().map(|(a, _)| *a).unwrap_or(self.amount0)
    }
    /// recorded funding not yet claimed
    pub fn rec_out(&self) -> u128 {
        self.total().saturating_sub(self.claimed)
    }
    pub fn end_latest(&self) -> u64 {
        self.hist.values().next_back().map(|(_, e)| *e).unwrap_or(self.end)
    }
    /// Upper bound of the emission of epoch k by the documented linear rule
    /// `(total tokens at k - already emitted) / (end at k - k)`. The `emitted_tokens` record itself is
    /// order dependent (a later multi-epoch claim back-fills earlier epochs), so the bound assumes
    /// nothing was emitted before.
    pub fn emission_cap(&self, k: u64) -> u128 {
        if k < self.start || k >= self.end_latest() {
            return 0;
        }
        let (amt, end) = self.hist.range(..=k).next_back().map(|(_, v)| *v).unwrap_or((self.amount0, self.end));
        if end > k {
            amt / (end - k) as u128
        } else {
            0
        }
    }
}

#[derive(Clone, Debug, Default, PartialEq)]
pub struct Obs {
    pub epoch: u64,
    /// [account][asset]
    pub bal: Vec<Vec<u128>>,
    /// positions of actors (+ helper): (open: (amount, duration, weight), closed: (amount, timestamp))
    pub open: Vec<Vec<(u128, u64, u128)>>,
    pub closed: Vec<Vec<(u128, u64)>>,
    pub raw: Raw,
    pub flows: Vec<FlowV>,
    /// GlobalWeight{current epoch}
    pub snap: Option<u128>,
    /// CurrentEpochRewardsShare per position account: (address_weight, global_weight)
    pub shares: Vec<Result<(u128, u128), String>>,
    pub fp: [u8; 32],
}

impl Obs {
    pub fn pos_sum(&self) -> U256 {
        let mut t = U256::ZERO;
        for v in &self.open {
            for p in v {
                t += U256::from(p.0);
            }
        }
        for v in &self.closed {
            for p in v {
                t += U256::from(p.0);
            }
        }
        t
    }
    pub fn flow(&self, id: u64) -> Option<&FlowV> {
        self.flows.iter().find(|f| f.id == id)
    }
    pub fn flow_by_ref(&self, r: &FlowRef) -> Option<&FlowV> {
        match r {
            FlowRef::Id(i) => self.flows.iter().find(|f| f.id == *i),
            // labels are not unique; the contract takes the first match in its storage order
            // (start epoch, then id)
            FlowRef::Label(l) => self.flows.iter().filter(|f| f.label.as_ref() == Some(l)).min_by_key(|f| (f.start, f.id)),
        }
    }
    pub fn open_of(&self, acct: usize, dur: u64) -> Option<(u128, u64, u128)> {
        self.open.get(acct).and_then(|v| v.iter().find(|p| p.1 == dur).copied())
    }
}

/// accounts whose positions / shares are observed: actors (+ helper)
pub fn pos_accts(s: &Incent) -> Vec<String> {
    let mut v: Vec<String> = s.actors.iter().map(|a| a.to_string()).collect();
    if let Some(h) = &s.helper {
        v.push(h.clone());
    }
    v
}

pub fn current_epoch(s: &Incent) -> Result<u64, String> {
    let r: white_whale_std::fee_distributor::EpochResponse =
        query(&s.app, &s.distributor, &white_whale_std::fee_distributor::QueryMsg::CurrentEpoch {})?;
    Ok(r.epoch.id.u64())
}

fn query_flows(s: &Incent, epoch: u64) -> Result<Vec<FlowV>, String> {
    let top = epoch.saturating_add(1);
    let mut merged: BTreeMap<u64, FlowV> = BTreeMap::new();
    let mut w: u64 = 0;
    loop {
        let start = w.saturating_mul(101);
        let end = start.saturating_add(100);
        let fl: Vec<Flow> = query(&s.app, &s.incentive, &incentive::QueryMsg::Flows { start_epoch: Some(start), end_epoch: Some(end) })?;
        for f in &fl {
            let v = FlowV::from(f);
            match merged.get_mut(&v.id) {
                None => {
                    merged.insert(v.id, v);
                }
                Some(m) => {
                    m.hist.extend(v.hist);
                    m.emitted.extend(v.emitted);
                }
            }
        }
        if end >= top || w > 50 {
            break;
        }
        w += 1;
    }
    Ok(merged.into_values().collect())
}

pub fn observe(s: &Incent) -> Result<Obs, String> {
    let epoch = current_epoch(s).map_err(|e| format!("CurrentEpoch: {e}"))?;
    let bal: Vec<Vec<u128>> = s.accts.iter().map(|a| s.assets.iter().map(|x| balance(&s.app, a, x)).collect()).collect();
    let pa = pos_accts(s);
    let mut open = vec![];
    let mut closed = vec![];
    for a in &pa {
        let r: incentive::PositionsResponse =
            query(&s.app, &s.incentive, &incentive::QueryMsg::Positions { address: a.clone() }).map_err(|e| format!("Positions({a}): {e}"))?;
        let mut o = vec![];
        let mut c = vec![];
        for p in r.positions {
            match p {
                QueryPosition::OpenPosition { amount, unbonding_duration, weight } => o.push((amount.u128(), unbonding_duration, weight.u128())),
                QueryPosition::ClosedPosition { amount, unbonding_timestamp, .. } => c.push((amount.u128(), unbonding_timestamp)),
            }
        }
        open.push(o);
        closed.push(c);
    }
    let raw = scan(&s.app, &s.incentive);
    let flows = query_flows(s, epoch).map_err(|e| format!("Flows: {e}"))?;
    let snap: Option<u128> = query::<incentive::GlobalWeightResponse, _>(&s.app, &s.incentive, &incentive::QueryMsg::GlobalWeight { epoch_id: epoch })
        .ok()
        .map(|g| g.global_weight.u128());
    let shares = pa
        .iter()
        .map(|a| {
            query::<incentive::RewardsShareResponse, _>(&s.app, &s.incentive, &incentive::QueryMsg::CurrentEpochRewardsShare { address: a.clone() })
                .map(|r| (r.address_weight.u128(), r.global_weight.u128()))
        })
        .collect();
    Ok(Obs { epoch, bal, open, closed, raw, flows, snap, shares, fp: fingerprint(&s.app) })
}

// ---------------------------------------------------------------------------------------------
// model
// ---------------------------------------------------------------------------------------------

#[derive(Clone, Debug)]
pub struct MFlow {
    pub id: u64,
    pub label: Option<String>,
    pub creator: String,
    pub asset: usize,
    /// tokens actually received for the flow, net of the creation fee
    pub funded: u128,
    /// tokens actually paid out to claimers
    pub claimed: u128,
    /// recorded outstanding minus real outstanding (bug-compatible part: D7 / N2), with its cause
    pub gap: I256,
    pub gap_cause: Option<&'static str>,
    pub expanded: bool,
}

impl MFlow {
    pub fn out(&self) -> I256 {
        ii(self.funded) - ii(self.claimed)
    }
}

#[derive(Clone, Debug, Default)]
pub struct EpochInfo {
    pub epoch: u64,
    /// weight per address for this epoch as fixed by the history at the start of the epoch
    pub frozen: BTreeMap<String, u128>,
    /// sum(frozen) - sum(raw ADDRESS_WEIGHT) at the start of the epoch (D11 staleness)
    pub stale_total: I256,
    /// sum of raw address weight reductions minus additions in this epoch before its snapshot (D10)
    pub net_red: I256,
    pub snap_taken: bool,
    /// sum(raw ADDRESS_WEIGHT) - raw GLOBAL_WEIGHT when the snapshot was taken (D9)
    pub d9_at_snap: I256,
    pub reported: BTreeSet<&'static str>,
}

#[derive(Clone, Debug, Default)]
pub struct Model {
    pub flows: BTreeMap<u64, MFlow>,
    /// per asset: tokens the contract holds for a reason the model accepts: donations (extra coins,
    /// over-paid fees), known stuck refunds (D8), known negative leftovers of closed unfunded flows (D7/N2)
    pub resid: Vec<I256>,
    /// negative part of `resid` (closed flows that paid out more than they received), with cause
    pub neg_closed: Vec<I256>,
    pub neg_cause_mixed: Vec<bool>,
    pub neg_cause: Vec<Option<&'static str>>,
    pub p2_reported: Vec<I256>,
    /// sum(ADDRESS_WEIGHT) - GLOBAL_WEIGHT explained so far (D9)
    pub expected_deficit: I256,
    pub had_expand: BTreeSet<String>,
    /// sum of weight increments credited per (address, duration) while the position is open
    pub parts: BTreeMap<(String, u64), (u128, u32)>,
    pub ep: EpochInfo,
    pub last_ok_claim: BTreeMap<String, u64>,
    /// paid per (flow, epoch) by single-epoch claims
    pub paid_fe: BTreeMap<(u64, u64), u128>,
    pub replica_ok: bool,
    /// the weight history went out of step with ADDRESS_WEIGHT in some way other than a claim's rewrite
    pub stale_unexplained: bool,
    /// positions third parties opened or expanded for the frontend helper contract: duration -> amount
    pub gifted_to_helper: BTreeMap<u64, u128>,
}

fn epoch_info(o: &Obs) -> EpochInfo {
    let e = o.epoch;
    let mut frozen = BTreeMap::new();
    let mut sum_f = I256::ZERO;
    for a in o.raw.hist.keys() {
        let w = o.raw.frozen(a, e);
        if w > 0 {
            frozen.insert(a.clone(), w);
            sum_f += ii(w);
        }
    }
    let sum_a = I256::from_bits(o.raw.sum_addr());
    EpochInfo {
        epoch: e,
        frozen,
        stale_total: sum_f - sum_a,
        net_red: I256::ZERO,
        snap_taken: o.raw.snaps.contains_key(&e),
        d9_at_snap: sum_a - ii(o.raw.global),
        reported: BTreeSet::new(),
    }
}

impl Model {
    pub fn init(s: &Incent) -> Model {
        let n = s.assets.len();
        Model {
            resid: vec![I256::ZERO; n],
            neg_closed: vec![I256::ZERO; n],
            neg_cause_mixed: vec![false; n],
            neg_cause: vec![None; n],
            p2_reported: vec![I256::ZERO; n],
            ep: epoch_info(&s.obs),
            replica_ok: true,
            ..Default::default()
        }
    }
}

pub fn fault_name(f: Fault) -> &'static str {
    match f {
        Fault::SubCall(_) => "F1_subcall",
        Fault::Bank(_) => "F2_bank",
        _ => "F3_query",
    }
}

fn prop_of(op: &str) -> &'static str {
    match op {
        "open_flow" | "expand_flow" | "close_flow" => "C12",
        "claim" | "snapshot" | "new_epoch" => "C13",
        _ => "C11",
    }
}

/// hint from the op handler to the weight-sum invariant
#[derive(Default, Clone, Copy)]
pub struct Hints {
    /// the step was a ClosePosition whose raw weight changes are exactly `saturating_sub(w(total))`
    /// on both counters with at least one of them saturating for the reason D9 describes
    pub d9_close: bool,
    /// address that successfully claimed in this step
    pub claimer: Option<usize>,
    /// address whose position was successfully opened / expanded / closed in this step
    pub pos_owner: Option<usize>,
}

// ---------------------------------------------------------------------------------------------
// invariants after every step
// ---------------------------------------------------------------------------------------------

pub fn global_checks(s: &mut Incent, ctx: &mut Ctx, before: &Obs, after: &Obs, ok: bool, fault_fired: bool, op: &str, hints: Hints) {
    let prop = prop_of(op);
    if fault_fired && ok {
        ctx.fail(prop, "fault_swallowed", op, None, format!("{op} succeeded although an injected sub-call / bank failure fired inside it"));
    }
    if !ok && before.fp != after.fp {
        ctx.fail(prop, "failed_tx_no_effect", op, None, format!("{op}: the transaction failed but the chain state changed"));
    }
    let i_inc = s.i_inc();
    let i_col = s.i_col();
    if after.raw.junk > 0 {
        ctx.fail("C13", "raw_storage_readable", "junk", None, format!("{} weight entries of the incentive could not be parsed", after.raw.junk));
    }

    // ---- C11: custody
    ctx.eval("C11");
    let custody = after.pos_sum();
    let mut lp_flows = I256::ZERO;
    for f in s.model.flows.values() {
        if f.asset == A_LP {
            lp_flows += f.out();
        }
    }
    let expect = I256::from_bits(custody) + lp_flows + s.model.resid[A_LP];
    let have = ii(after.bal[i_inc][A_LP]);
    if have != expect {
        ctx.fail("C11", "lp_custody_exact", op, None,
            format!("{op}: incentive holds {} LP but positions sum to {custody}, LP-asset flows hold {lp_flows}, accepted extras {}", after.bal[i_inc][A_LP], s.model.resid[A_LP]));
    }
    if let Some(ih) = s.i_help() {
        for a in [A_LP, A_PA, A_PB] {
            if after.bal[ih][a] != 0 {
                ctx.fail("C11", "helper_retains_nothing", op, None, format!("{op}: frontend helper holds {} of asset {a} ({})", after.bal[ih][a], s.denom(a)));
            }
        }
        // the helper owns exactly the positions third parties opened FOR it (it can never close them);
        // anything more is stake of a depositor that ended up with the helper
        let hp = s.na();
        let mut have: Vec<(u128, u64)> = after.open[hp].iter().map(|p| (p.0, p.1)).collect();
        have.sort();
        let mut want: Vec<(u128, u64)> = s.model.gifted_to_helper.iter().map(|(d, a)| (*a, *d)).collect();
        want.sort();
        if have != want || !after.closed[hp].is_empty() {
            ctx.fail("C11", "helper_retains_nothing", "position", None, format!("{op}: the frontend helper itself owns positions {:?} (closed {:?}); third parties opened {:?} for it", have, after.closed[hp], want));
        }
    }

    // ---- C12: solvency per asset, recorded funding in sync, flows only change through flow ops
    ctx.eval("C12");
    let reward_assets = 5.min(s.assets.len());
    for a in 0..reward_assets {
        let mut need = if a == A_LP { I256::from_bits(custody) } else { I256::ZERO };
        let mut neg = s.model.neg_closed[a];
        let mut cause: Option<&'static str> = s.model.neg_cause[a];
        let mut mixed = s.model.neg_cause_mixed[a];
        let mut explained = true;
        for f in s.model.flows.values().filter(|f| f.asset == a) {
            let o = f.out();
            if ipos(o) {
                need += o;
            } else if ineg(o) {
                neg += o;
                if ipos(f.gap) && o >= -f.gap {
                    match (cause, f.gap_cause) {
                        (None, c) => cause = c,
                        (Some(x), Some(y)) if x != y => mixed = true,
                        _ => {}
                    }
                } else {
                    explained = false;
                }
            }
        }
        let have = ii(after.bal[i_inc][a]);
        if have < need {
            let short = need - have;
            if short != s.model.p2_reported[a] {
                let known = if explained && !mixed && short <= -neg { cause } else { None };
                ctx.fail("C12", "balance_covers_flows", if known.is_some() { "unfunded_flow" } else { op }, known,
                    format!("{op}: incentive holds {} of {} but open flows (funded - claimed) plus custody need {need}", after.bal[i_inc][a], s.denom(a)));
                if a == A_LP {
                    ctx.fail("C11", "lp_balance_covers_positions_and_flows", if known.is_some() { "unfunded_flow" } else { op }, known,
                        format!("{op}: incentive holds {} LP but positions ({custody}) plus open LP-asset flows need {need}", after.bal[i_inc][a]));
                }
                s.model.p2_reported[a] = short;
            }
        } else {
            s.model.p2_reported[a] = I256::ZERO;
        }
    }
    let ids_m: Vec<u64> = s.model.flows.keys().copied().collect();
    let mut ids_o: Vec<u64> = after.flows.iter().map(|f| f.id).collect();
    ids_o.sort();
    if ids_m != ids_o {
        ctx.fail("C12", "flow_set", op, None, format!("{op}: flows listed by the contract {ids_o:?}, flows opened and not closed {ids_m:?}"));
    } else {
        for f in &after.flows {
            let m = &s.model.flows[&f.id];
            if ii(f.rec_out()) != m.out() + m.gap {
                ctx.fail("C12", "recorded_funding_in_sync", op, None,
                    format!("{op}: flow {} records {} outstanding (total {} claimed {}), tokens received {} paid {} (explained difference {})", f.id, f.rec_out(), f.total(), f.claimed, m.funded, m.claimed, m.gap));
            }
            if m.claimed > m.funded {
                let known = if ipos(m.gap) && ii(m.claimed) <= ii(m.funded) + m.gap { m.gap_cause } else { None };
                if before.flow(f.id).map(|b| b.rec_out()) != Some(f.rec_out()) {
                    ctx.fail("C12", "claims_le_funded", if known.is_some() { "unfunded_flow" } else { op }, known,
                        format!("{op}: flow {} paid out {} but only received {}", f.id, m.claimed, m.funded));
                }
            }
        }
    }
    if op != "open_flow" {
        for a in 0..s.assets.len() {
            if after.bal[i_col][a] != before.bal[i_col][a] {
                ctx.fail("C12", "collector_only_gets_fee", op, None, format!("{op}: collector balance of {} changed {} -> {}", s.denom(a), before.bal[i_col][a], after.bal[i_col][a]));
            }
        }
    }

    // ---- C13: weights add up
    ctx.eval("C13");
    let sum_a = I256::from_bits(after.raw.sum_addr());
    let deficit = sum_a - ii(after.raw.global);
    if deficit != s.model.expected_deficit {
        let known = if hints.d9_close { Some("D9") } else { None };
        ctx.fail("C13", "global_eq_sum_of_address_weights", if known.is_some() { "close_after_expand_rounding" } else { op }, known,
            format!("{op}: GLOBAL_WEIGHT {} but ADDRESS_WEIGHTs sum to {} ({:?})", after.raw.global, after.raw.sum_addr(), after.raw.addr_w));
        if known.is_some() {
            s.model.expected_deficit = deficit;
        }
    }
    // position weights as reported: >= amount, monotone in (amount, duration)
    let mut all: Vec<(u128, u64, u128)> = after.open.iter().flatten().copied().collect();
    all.sort();
    for p in &all {
        if p.2 < p.0 {
            ctx.fail("C13", "weight_ge_amount", "positions_query", None, format!("open position amount {} duration {} has weight {}", p.0, p.1, p.2));
        }
    }
    for i in 0..all.len() {
        for j in 0..all.len() {
            let (x, y) = (all[i], all[j]);
            if x.0 <= y.0 && x.1 <= y.1 && x.2 > y.2 {
                ctx.fail("C13", "weight_monotone", "positions_query", None,
                    format!("position (amount {}, duration {}) has weight {} > weight {} of (amount {}, duration {})", x.0, x.1, x.2, y.2, y.0, y.1));
            }
        }
    }

    // the history implies a weight for the next epoch; it may drift from ADDRESS_WEIGHT only through the
    // rewrite a claim performs (D11) and is re-synchronised by the address's next position change
    {
        let next_w = |o: &Obs, a: &str| o.raw.entry(a, o.epoch + 1).unwrap_or_else(|| o.raw.frozen(a, o.epoch));
        let mut addrs: BTreeSet<&String> = before.raw.addr_w.keys().collect();
        addrs.extend(after.raw.addr_w.keys());
        addrs.extend(before.raw.hist.keys());
        addrs.extend(after.raw.hist.keys());
        let pa = pos_accts(s);
        for a in addrs {
            let db = ii(next_w(before, a)) - ii(before.raw.addr(a));
            let da = ii(next_w(after, a)) - ii(after.raw.addr(a));
            if da != db {
                let is = |i: Option<usize>| i.and_then(|i| pa.get(i)).map(|x| x == a).unwrap_or(false);
                if ok && is(hints.claimer) {
                    ctx.probe("claim_left_history_out_of_step_with_weight");
                } else if ok && is(hints.pos_owner) && da == I256::ZERO {
                    ctx.probe("position_change_resynchronised_history");
                } else {
                    s.model.stale_unexplained = true;
                    ctx.probe("history_out_of_step_outside_claim");
                }
            }
        }
    }
    // epoch bookkeeping for the share check
    if after.epoch != s.model.ep.epoch {
        s.model.ep = epoch_info(after);
    } else {
        if !s.model.ep.snap_taken {
            if after.raw.snaps.contains_key(&after.epoch) {
                s.model.ep.snap_taken = true;
                s.model.ep.d9_at_snap = I256::from_bits(before.raw.sum_addr()) - ii(before.raw.global);
            } else {
                s.model.ep.net_red += I256::from_bits(before.raw.sum_addr()) - sum_a;
            }
        } else if before.raw.snaps.get(&after.epoch) != after.raw.snaps.get(&after.epoch) {
            // snapshot replaced: re-base the decomposition on the new value
            s.model.ep = epoch_info(after);
        }
    }
    check_shares(s, ctx, after, op);
}

/// C13: whenever the current epoch has a snapshot, the reported address weights add up to at most the
/// reported global weight. A failure is decomposed into the known causes; anything left is a violation.
fn check_shares(s: &mut Incent, ctx: &mut Ctx, o: &Obs, op: &str) {
    let Some(g) = o.snap else { return };
    let e = o.epoch;
    let pa = pos_accts(s);
    let mut sum = I256::ZERO;
    for (i, r) in o.shares.iter().enumerate() {
        match r {
            Ok((w, gw)) => {
                if *gw != g {
                    ctx.fail("C13", "shares_le_100", "share_global_ne_snapshot", None, format!("share query of {} reports global weight {gw}, GlobalWeight({e}) = {g}", pa[i]));
                    return;
                }
                sum += ii(*w);
            }
            Err(err) => {
                if g == 0 && err.contains("Denominator must not be zero") {
                    ctx.probe("share_query_div_by_zero_snapshot");
                    return;
                }
                ctx.fail("C13", "shares_le_100", "share_query_fails", None, format!("CurrentEpochRewardsShare({}) fails although epoch {e} has a snapshot: {err}", pa[i]));
                return;
            }
        }
    }
    ctx.eval("C13");
    if sum <= ii(g) {
        return;
    }
    // decomposition
    let ep = &s.model.ep;
    let mut n1 = I256::ZERO;
    let mut unexplained: Option<String> = None;
    let mut obs_frozen = I256::ZERO;
    for (i, r) in o.shares.iter().enumerate() {
        let a = &pa[i];
        let rep = r.as_ref().map(|x| x.0).unwrap_or(0);
        let fr = ep.frozen.get(a).copied().unwrap_or(0);
        obs_frozen += ii(fr);
        if rep != fr {
            let n1_ok = !o.raw.has_entry_le(a, e) && o.raw.entry(a, e + 1) == Some(rep);
            if n1_ok {
                n1 += ii(rep) - ii(fr);
            } else {
                unexplained = Some(format!("{a} reports weight {rep}, its history fixed {fr} for epoch {e}"));
            }
        }
    }
    let all_frozen: I256 = ep.frozen.values().fold(I256::ZERO, |t, w| t + ii(*w));
    let unobs = all_frozen - obs_frozen;
    let base = ep.stale_total + ep.net_red + ep.d9_at_snap;
    if all_frozen - ii(g) != base {
        unexplained = Some(format!("snapshot {g} of epoch {e} is not the global weight at the time it was taken (frozen sum {all_frozen}, stale {}, net reduction {}, d9 {})", ep.stale_total, ep.net_red, ep.d9_at_snap));
    }
    if sum - ii(g) != n1 - unobs + base {
        unexplained.get_or_insert(format!("excess {} not explained", sum - ii(g)));
    }
    let detail = format!("{op}: epoch {e}: reported address weights sum to {sum} > global weight {g}");
    if let Some(u) = unexplained {
        ctx.fail("C13", "shares_le_100", "unexplained", None, format!("{detail}; {u}"));
        return;
    }
    let causes: [(&'static str, &'static str, bool); 4] = [
        ("closed_before_snapshot", "D10", ipos(ep.net_red)),
        ("stale_weight_history", if s.model.stale_unexplained { "" } else { "D11" }, ipos(ep.stale_total)),
        ("global_lt_sum_of_weights", "D9", ipos(ep.d9_at_snap)),
        ("query_reports_next_epoch_weight", "N5", ipos(n1)),
    ];
    let (net_red, stale, d9) = (ep.net_red, ep.stale_total, ep.d9_at_snap);
    for (sig, id, on) in causes {
        if on && !s.model.ep.reported.contains(sig) {
            s.model.ep.reported.insert(sig);
            ctx.fail("C13", "shares_le_100", sig, if id.is_empty() { None } else { Some(id) },
                format!("{detail} (weight closed before the snapshot {net_red}, stale history {stale}, global below sum {d9}, next-epoch weight reported {n1})"));
        }
    }
}

// ---------------------------------------------------------------------------------------------
// claim reference
// ---------------------------------------------------------------------------------------------

#[derive(Clone, Copy, PartialEq, Debug)]
pub enum WeightRule {
    /// the documented rule: the address's weight for epoch k is the latest history entry at or
    /// before k ("we keep a registry on when it changes")
    History,
    /// the contract's loop as written: history entries are only looked at for epochs in which
    /// the flow is active
    ContractLoop,
}

/// What a claim by `who` in state `o` pays out of every flow: per-epoch emission by the documented
/// linear rule `(funded at k - emitted up to k-1) / (end at k - k)` replayed on the flow's own
/// `emitted_tokens` record, times the address's weight over the epoch's snapshot (Decimal256 floor,
/// then floor), for at most 100 epochs from the claim cursor. `Err(())`: the claim must fail
/// (sanity check / arithmetic); `Ok(None)`: outside what the reference models.
pub fn claim_reference(o: &Obs, who: &str, rule: WeightRule) -> Result<Option<BTreeMap<u64, u128>>, ()> {
    use bnum::types::U512;
    let e = o.epoch;
    let last = o.raw.last_claimed.get(who).copied();
    if last == Some(e) {
        return Err(());
    }
    let empty = BTreeMap::new();
    let hist = o.raw.hist.get(who).unwrap_or(&empty);
    let mut out = BTreeMap::new();
    for f in o.flows.iter().filter(|f| f.start <= e) {
        let (exp_amt, exp_end) = f.hist.values().next_back().copied().unwrap_or((f.amount0, f.end));
        if e > exp_end && f.claimed == exp_amt {
            continue;
        }
        let (mut lu, mut lw) = hist.iter().next().map(|(k, w)| (*k, *w)).unwrap_or((0, 0));
        let first = match last {
            Some(l) => l + 1,
            None => {
                if f.start > lu { lu } else { f.start }
            }
        };
        let mut emitted = f.emitted.clone();
        let mut claimed = f.claimed;
        let mut paid = 0u128;
        let mut count = 0u64;
        for k in first..=e {
            count += 1;
            if count > 100 {
                break;
            }
            if k < f.start {
                continue;
            } else if k >= exp_end {
                break;
            }
            let prev = if emitted.is_empty() { 0 } else { emitted.get(&k.saturating_sub(1)).copied().unwrap_or(0) };
            let (amt_k, end_k) = f.hist.range(..=k).next_back().map(|(_, v)| *v).unwrap_or((f.amount0, f.end));
            if end_k <= k {
                // the contract would divide by zero / underflow here
                return Ok(None);
            }
            let emission = amt_k.saturating_sub(prev) / (end_k - k) as u128;
            if !emitted.contains_key(&k) {
                let Some(t) = emission.checked_add(prev) else { return Err(()) };
                emitted.insert(k, t);
            }
            let w = match rule {
                WeightRule::ContractLoop => {
                    if let Some(w) = hist.get(&k) {
                        lu = k;
                        lw = *w;
                        *w
                    } else if lu != 0 && lu <= k {
                        lw
                    } else {
                        continue;
                    }
                }
                WeightRule::History => match hist.range(..=k).next_back() {
                    Some((_, w)) => *w,
                    None => continue,
                },
            };
            let g = o.raw.snaps.get(&k).copied().unwrap_or(0);
            if g == 0 {
                continue;
            }
            let e18 = U512::from(1_000_000_000_000_000_000u128);
            let ratio = U512::from(w) * e18 / U512::from(g);
            let r = U512::from(emission) * ratio / e18;
            if r > U512::from(u128::MAX) {
                return Err(());
            }
            let dg = r.digits();
            let r = dg[0] as u128 | ((dg[1] as u128) << 64);
            let Some(tot) = r.checked_add(claimed) else { return Err(()) };
            if r > emission || tot > exp_amt {
                return Err(());
            }
            if r == 0 {
                continue;
            }
            claimed = tot;
            paid += r;
        }
        out.insert(f.id, paid);
    }
    Ok(Some(out))
}

// ---------------------------------------------------------------------------------------------
// step execution
// ---------------------------------------------------------------------------------------------

struct Done {
    r: TxResult,
    after: Obs,
}

fn run_tx(s: &mut Incent, ctx: &mut Ctx, who: &str, msgs: Vec<cosmwasm_std::CosmosMsg>, fault: Fault, op: &str) -> Option<Done> {
    let r = tx(&mut s.app, who, msgs, fault);
    ctx.op(op, r.outcome.kind());
    if r.fault_fired {
        ctx.fault(fault_name(fault));
    }
    if let Outcome::Err(e) = &r.outcome {
        // class of the refusal: innermost error text without numbers
        let last = e.rsplit(": ").next().unwrap_or("");
        let cls: String = last.chars().filter(|c| !c.is_ascii_digit()).take(48).collect();
        ctx.probe(&format!("refused:{op}:{cls}"));
    }
    match observe(s) {
        Ok(after) => {
            ctx.trace(&format!(
                "{op}:{}:{}:{}:{}:{}",
                r.outcome.kind(),
                after.epoch,
                after.raw.global,
                after.bal[s.i_inc()][A_LP],
                hex::encode(&after.fp[..6])
            ));
            Some(Done { r, after })
        }
        Err(e) => {
            ctx.trace(&format!("{op}:{}:queries_fail", r.outcome.kind()));
            ctx.fail(prop_of(op), "queries_answer", op, None, format!("after {op}: {e}"));
            None
        }
    }
}

/// every observed balance except the listed (account, asset) cells is unchanged
fn balances_untouched(s: &Incent, ctx: &mut Ctx, prop: &str, before: &Obs, after: &Obs, except: &[(usize, usize)], op: &str) {
    for i in 0..before.bal.len() {
        for a in 0..s.assets.len() {
            if except.contains(&(i, a)) {
                continue;
            }
            if before.bal[i][a] != after.bal[i][a] {
                ctx.fail(prop, "third_party_untouched", op, None,
                    format!("{op}: balance of {} in {} changed {} -> {}", s.accts[i], s.denom(a), before.bal[i][a], after.bal[i][a]));
                return;
            }
        }
    }
}

/// all positions except those of account `except` are unchanged
fn positions_untouched(s: &Incent, ctx: &mut Ctx, before: &Obs, after: &Obs, except: Option<usize>, op: &str) {
    for i in 0..before.open.len() {
        if Some(i) == except {
            continue;
        }
        if before.open[i] != after.open[i] || before.closed[i] != after.closed[i] {
            let who = pos_accts(s)[i].clone();
            ctx.fail("C11", "third_party_untouched", op, None, format!("{op}: positions of {who} changed"));
            return;
        }
    }
}

fn flows_untouched(ctx: &mut Ctx, before: &Obs, after: &Obs, op: &str) {
    if before.flows != after.flows {
        ctx.fail("C12", "flows_only_change_through_flow_ops", op, None, format!("{op}: flow records changed"));
    }
}

fn weights_untouched(ctx: &mut Ctx, before: &Obs, after: &Obs, op: &str) {
    if before.raw.global != after.raw.global || before.raw.addr_w != after.raw.addr_w {
        ctx.fail("C13", "weights_only_change_through_position_ops", op, None,
            format!("{op}: weights changed: global {} -> {}", before.raw.global, after.raw.global));
    }
}

fn d(a: u128, b: u128) -> I256 {
    ii(a) - ii(b)
}

pub fn apply(s: &mut Incent, step: &Step, ctx: &mut Ctx) {
    if let Op::ClaimMarathon { gap, rounds } = &step.op {
        let sub = |actor: usize, op: Op| Step { actor, op, adv_s: 0, fault: Fault::None };
        let stakers: Vec<usize> = (0..s.cfg.n_users).filter(|i| !s.obs.open[*i].is_empty()).collect();
        // the gap: every epoch gets its global-weight snapshot (otherwise nothing is emitted for it)
        for _ in 0..*gap {
            if ctx.stopped() {
                return;
            }
            apply(s, &sub(step.actor, Op::NewEpoch { n: 1 }), ctx);
            apply(s, &sub(step.actor, Op::Snapshot), ctx);
        }
        for round in 0..=*rounds {
            if ctx.stopped() {
                return;
            }
            if round > 0 {
                apply(s, &sub(step.actor, Op::NewEpoch { n: 1 }), ctx);
            }
            apply(s, &sub(step.actor, Op::Snapshot), ctx);
            for a in &stakers {
                if ctx.stopped() {
                    return;
                }
                apply(s, &sub(*a, Op::Claim), ctx);
            }
        }
        ctx.probe("claim_marathon_completed");
        return;
    }
    if let Op::RestakeMarathon { cycles, dur, base } = &step.op {
        let sub = |op: Op, adv_s: u64| Step { actor: step.actor, op, adv_s, fault: Fault::None };
        for i in 0..*cycles {
            if ctx.stopped() {
                return;
            }
            let amount = base.saturating_add(i as u128 * 3);
            apply(s, &sub(Op::Open { amount, dur: *dur, receiver: None, provided: amount, extra: 0 }, 0), ctx);
            // a position can only be closed once its pending rewards have been claimed
            apply(s, &sub(Op::Claim, 0), ctx);
            apply(s, &sub(Op::Close { dur: *dur }, 0), ctx);
        }
        if ctx.stopped() {
            return;
        }
        apply(s, &sub(Op::Withdraw, dur.saturating_add(1)), ctx);
        apply(s, &sub(Op::Withdraw, 0), ctx);
        ctx.probe("restake_marathon_completed");
        return;
    }
    s.advance(step.adv_s);
    let na = s.na();
    let actor = step.actor % na;
    let before = s.obs.clone();
    let after = match &step.op {
        Op::Open { amount, dur, receiver, provided, extra } => do_position(s, ctx, &before, actor, true, *amount, *dur, *receiver, *provided, *extra, step.fault),
        Op::Expand { amount, dur, receiver, provided, extra } => do_position(s, ctx, &before, actor, false, *amount, *dur, *receiver, *provided, *extra, step.fault),
        Op::Close { dur } => do_close(s, ctx, &before, actor, *dur, step.fault),
        Op::Withdraw => do_withdraw(s, ctx, &before, actor, step.fault),
        Op::Helper { amounts, dur, funds_a, allow_b, slippage } => do_helper(s, ctx, &before, actor, *amounts, *dur, *funds_a, *allow_b, slippage, step.fault),
        Op::OpenFlow { asset, declared, sent, fee_sent, extra, start, end, label } => {
            do_open_flow(s, ctx, &before, actor, *asset, *declared, *sent, *fee_sent, *extra, *start, *end, label.clone(), step.fault)
        }
        Op::ExpandFlow { flow, asset, declared, sent, end } => do_expand_flow(s, ctx, &before, actor, flow, *asset, *declared, *sent, *end, step.fault),
        Op::CloseFlow { flow } => do_close_flow(s, ctx, &before, actor, flow, step.fault),
        Op::Claim => do_claim(s, ctx, &before, actor, step.fault),
        Op::Snapshot => do_snapshot(s, ctx, &before, actor),
        Op::NewEpoch { n } => do_new_epoch(s, ctx, &before, actor, *n),
        Op::ClaimMarathon { .. } | Op::RestakeMarathon { .. } => None,
    };
    if let Some(a) = after {
        s.obs = a;
    } else if let Ok(o) = observe(s) {
        s.obs = o;
    }
}

// ---- positions -------------------------------------------------------------------------------

#[allow(clippy::too_many_arguments)]
fn do_position(s: &mut Incent, ctx: &mut Ctx, before: &Obs, actor: usize, open: bool, amount: u128, dur: u64, receiver: Option<usize>, provided: u128, extra: u128, fault: Fault) -> Option<Obs> {
    let op = if open { "open_position" } else { "expand_position" };
    let who = s.actors[actor];
    // receiver index >= 1000: the frontend helper contract itself (a third party seeds a position for it)
    let recv = receiver.map(|r| if r >= 1000 && s.helper.is_some() { s.na() } else { r % s.na() }).unwrap_or(actor);
    let recv_s = pos_accts(s)[recv].clone();
    let lp_native = s.is_native(A_LP);
    let msg = if open {
        incentive::ExecuteMsg::OpenPosition { amount: Uint128::new(amount), unbonding_duration: dur, receiver: receiver.map(|_| recv_s.clone()) }
    } else {
        incentive::ExecuteMsg::ExpandPosition { amount: Uint128::new(amount), unbonding_duration: dur, receiver: receiver.map(|_| recv_s.clone()) }
    };
    let mut msgs = vec![];
    let mut funds = vec![];
    if lp_native {
        funds.push((D_LP.to_string(), provided));
    } else {
        msgs.extend(s.set_allowance_msgs(A_LP, who, &s.incentive.clone(), provided));
    }
    if extra > 0 {
        funds.push((D_USDC.to_string(), extra));
    }
    msgs.push(wasm_exec(&s.incentive, &msg, funds_of(&funds)));
    let Done { r, after } = run_tx(s, ctx, who, msgs, fault, op)?;
    let ok = r.outcome.is_ok();
    let i_inc = s.i_inc();
    if ok {
        ctx.eval("C11");
        // the stated amount was really received, from the sender
        if d(after.bal[i_inc][A_LP], before.bal[i_inc][A_LP]) != ii(amount) || d(before.bal[actor][A_LP], after.bal[actor][A_LP]) != ii(amount) {
            ctx.fail("C11", "position_backed_by_received_lp", op, None,
                format!("{op} of {amount}: incentive LP {} -> {}, sender LP {} -> {}", before.bal[i_inc][A_LP], after.bal[i_inc][A_LP], before.bal[actor][A_LP], after.bal[actor][A_LP]));
        }
        if (lp_native && provided != amount) || (!lp_native && provided < amount) {
            ctx.fail("C11", "position_backed_by_received_lp", "accepted_without_funds", None, format!("{op} of {amount} accepted with only {provided} provided"));
        }
        // the receiver's position, and only that, changed by exactly `amount`
        let mut exp_open = before.open[recv].clone();
        if open {
            if before.open_of(recv, dur).is_some() {
                ctx.fail("C11", "position_record", "duplicate_open", None, format!("second open position with duration {dur} for {recv_s}"));
            }
            exp_open.push((amount, dur, 0));
        } else if let Some(p) = exp_open.iter_mut().find(|p| p.1 == dur) {
            p.0 = p.0.saturating_add(amount);
        }
        let strip = |v: &Vec<(u128, u64, u128)>| -> Vec<(u128, u64)> { v.iter().map(|p| (p.0, p.1)).collect() };
        if strip(&exp_open) != strip(&after.open[recv]) || before.closed[recv] != after.closed[recv] {
            ctx.fail("C11", "position_record", op, None,
                format!("{op} {amount} @ {dur} for {recv_s}: open positions {:?} -> {:?}", strip(&before.open[recv]), strip(&after.open[recv])));
        }
        positions_untouched(s, ctx, before, &after, Some(recv), op);
        if recv == s.na() && s.helper.is_some() {
            *s.model.gifted_to_helper.entry(dur).or_insert(0) += amount;
            ctx.probe("position_opened_for_helper_contract");
        }
        let mut exc = vec![(i_inc, A_LP), (actor, A_LP)];
        if extra > 0 {
            exc.push((i_inc, A_USDC));
            exc.push((actor, A_USDC));
            if d(after.bal[i_inc][A_USDC], before.bal[i_inc][A_USDC]) == ii(extra) {
                s.model.resid[A_USDC] += ii(extra);
                ctx.probe("extra_coin_kept_by_incentive");
            }
        }
        balances_untouched(s, ctx, "C11", before, &after, &exc, op);
        flows_untouched(ctx, before, &after, op);
        // C13: weight credited
        ctx.eval("C13");
        let dw_a = d(after.raw.addr(&recv_s), before.raw.addr(&recv_s));
        let dw_g = d(after.raw.global, before.raw.global);
        if dw_a != dw_g {
            ctx.fail("C13", "weight_credit", "global_ne_address", None, format!("{op}: address weight +{dw_a}, global weight +{dw_g}"));
        }
        if dw_a < ii(amount) {
            ctx.fail("C13", "weight_ge_amount", op, None, format!("{op} of {amount} @ {dur} added weight {dw_a}"));
        }
        if Some(dw_a) != weight_replica(dur, amount).map(ii) {
            s.model.replica_ok = false;
            ctx.probe("weight_replica_mismatch");
        }
        let e = s.model.parts.entry((recv_s.clone(), dur)).or_insert((0, 0));
        let dw128 = after.raw.addr(&recv_s).saturating_sub(before.raw.addr(&recv_s));
        *e = (e.0.saturating_add(dw128), e.1 + 1);
        if !open {
            s.model.had_expand.insert(recv_s.clone());
        }
        if before.snap.is_none() {
            ctx.probe("position_change_before_snapshot");
        } else {
            ctx.probe("position_change_after_snapshot");
        }
        if receiver.is_some() && recv != actor {
            ctx.probe("position_for_receiver");
        }
        if dur == s.cfg.min_dur {
            ctx.probe("duration_min");
        }
        if dur == s.cfg.max_dur {
            ctx.probe("duration_max");
        }
        ctx.state_of(&format!("{:?}{:?}{}", after.open, after.closed, after.raw.global));
    }
    global_checks(s, ctx, before, &after, ok, r.fault_fired, op, Hints { pos_owner: Some(recv), ..Default::default() });
    Some(after)
}

fn do_close(s: &mut Incent, ctx: &mut Ctx, before: &Obs, actor: usize, dur: u64, fault: Fault) -> Option<Obs> {
    let op = "close_position";
    let who = s.actors[actor];
    let msg = incentive::ExecuteMsg::ClosePosition { unbonding_duration: dur };
    let now = s.now_s();
    let Done { r, after } = run_tx(s, ctx, who, vec![wasm_exec(&s.incentive, &msg, vec![])], fault, op)?;
    let ok = r.outcome.is_ok();
    let mut hints = Hints { pos_owner: Some(actor), ..Default::default() };
    if ok {
        ctx.eval("C11");
        match before.open_of(actor, dur) {
            None => ctx.fail("C11", "position_record", "closed_nonexistent", None, format!("{who} closed a position with duration {dur} that the Positions query did not list")),
            Some((amt, _, _)) => {
                let strip = |v: &Vec<(u128, u64, u128)>| -> Vec<(u128, u64)> { v.iter().map(|p| (p.0, p.1)).collect() };
                let exp_open: Vec<(u128, u64)> = strip(&before.open[actor]).into_iter().filter(|p| p.1 != dur).collect();
                let mut exp_closed = before.closed[actor].clone();
                exp_closed.push((amt, now.saturating_add(dur)));
                if strip(&after.open[actor]) != exp_open || after.closed[actor] != exp_closed {
                    ctx.fail("C11", "position_record", op, None,
                        format!("close {amt} @ {dur} at {now}: open {:?} closed {:?}", strip(&after.open[actor]), after.closed[actor]));
                }
                // C13 bug-compatible prediction of the raw counters
                let parts = s.model.parts.remove(&(who.to_string(), dur));
                if let Some(rw) = weight_replica(dur, amt) {
                    let (gb, ab) = (before.raw.global, before.raw.addr(who));
                    let exact = after.raw.global == gb.saturating_sub(rw) && after.raw.addr(who) == ab.saturating_sub(rw);
                    let addr_sat = ab < rw && s.model.had_expand.contains(who);
                    let glob_sat = gb < rw && ipos(s.model.expected_deficit);
                    hints.d9_close = s.model.replica_ok && exact && (addr_sat || glob_sat);
                    if let Some((pw, n)) = parts {
                        if n >= 2 && pw != rw {
                            ctx.probe("close_position_parts_weight_ne_total_weight");
                        }
                    }
                }
            }
        }
        positions_untouched(s, ctx, before, &after, Some(actor), op);
        balances_untouched(s, ctx, "C11", before, &after, &[], op);
        flows_untouched(ctx, before, &after, op);
        if before.snap.is_none() {
            ctx.probe("close_before_snapshot");
        }
        ctx.state_of(&format!("{:?}{:?}{}", after.open, after.closed, after.raw.global));
    }
    global_checks(s, ctx, before, &after, ok, r.fault_fired, op, hints);
    Some(after)
}

fn do_withdraw(s: &mut Incent, ctx: &mut Ctx, before: &Obs, actor: usize, fault: Fault) -> Option<Obs> {
    let op = "withdraw";
    let who = s.actors[actor];
    let now = s.now_s();
    let Done { r, after } = run_tx(s, ctx, who, vec![wasm_exec(&s.incentive, &incentive::ExecuteMsg::Withdraw {}, vec![])], fault, op)?;
    let ok = r.outcome.is_ok();
    let i_inc = s.i_inc();
    if ok {
        ctx.eval("C11");
        let sum = |v: &Vec<(u128, u64)>| v.iter().fold(U256::ZERO, |t, p| t + U256::from(p.0));
        let gone = I256::from_bits(sum(&before.closed[actor])) - I256::from_bits(sum(&after.closed[actor]));
        let got = d(after.bal[actor][A_LP], before.bal[actor][A_LP]);
        let left = d(before.bal[i_inc][A_LP], after.bal[i_inc][A_LP]);
        if got != gone || left != gone {
            ctx.fail("C11", "withdraw_pays_own_closed_positions", op, None,
                format!("withdraw by {who}: closed positions {:?} -> {:?}, user received {got}, incentive paid {left}", before.closed[actor], after.closed[actor]));
        }
        // whatever remains must be a not yet matured position that was there before
        for p in &after.closed[actor] {
            if !before.closed[actor].contains(p) {
                ctx.fail("C11", "withdraw_pays_own_closed_positions", "new_closed_position", None, format!("withdraw created closed position {p:?}"));
            } else if now > p.1 {
                ctx.fail("C11", "withdraw_pays_own_closed_positions", "matured_not_paid", None, format!("matured closed position {p:?} not paid at {now}"));
            }
        }
        if before.closed[actor].iter().any(|p| now <= p.1) && after.closed[actor].is_empty() {
            ctx.probe("withdraw_before_unbonding_timestamp");
        }
        if !before.closed[actor].is_empty() {
            ctx.probe("withdraw_paid_closed_positions");
        }
        if before.open[actor] != after.open[actor] {
            ctx.fail("C11", "position_record", op, None, "withdraw changed open positions".to_string());
        }
        positions_untouched(s, ctx, before, &after, Some(actor), op);
        balances_untouched(s, ctx, "C11", before, &after, &[(actor, A_LP), (i_inc, A_LP)], op);
        flows_untouched(ctx, before, &after, op);
        weights_untouched(ctx, before, &after, op);
        ctx.state_of(&format!("{:?}{:?}", after.closed, after.bal[i_inc][A_LP]));
    }
    global_checks(s, ctx, before, &after, ok, r.fault_fired, op, Hints::default());
    Some(after)
}

#[allow(clippy::too_many_arguments)]
#[allow(clippy::too_many_arguments)]
fn do_helper(s: &mut Incent, ctx: &mut Ctx, before: &Obs, actor: usize, amounts: [u128; 2], dur: u64, funds_a: u128, allow_b: u128, slippage: &Option<String>, fault: Fault) -> Option<Obs> {
    let op = "helper_deposit";
    let who = s.actors[actor];
    let (Some(helper), Some(pair)) = (s.helper.clone(), s.pair.clone()) else {
        ctx.trace("helper_deposit:skipped");
        return Some(before.clone());
    };
    // the pool as the pair reports it right before the deposit (for the C15 verdict)
    let pool_before: Option<white_whale_std::pool_network::pair::PoolResponse> = if slippage.is_some() {
        query(&s.app, &pair, &white_whale_std::pool_network::pair::QueryMsg::Pool {}).ok()
    } else {
        None
    };
    let mut msgs = s.set_allowance_msgs(A_PB, who, &helper, allow_b);
    msgs.push(wasm_exec(
        &helper,
        &frontend_helper::ExecuteMsg::Deposit {
            pair_address: pair,
            assets: [s.asset(A_PA, amounts[0]), s.asset(A_PB, amounts[1])],
            slippage_tolerance: slippage.as_ref().and_then(|t| std::str::FromStr::from_str(t).ok()),
            unbonding_duration: dur,
        },
        if funds_a > 0 { vec![coin(funds_a, D_PA)] } else { vec![] },
    ));
    let Done { r, after } = run_tx(s, ctx, who, msgs, fault, op)?;
    let ok = r.outcome.is_ok();
    let i_inc = s.i_inc();
    // C15: the tolerance given to the helper binds the pair's deposit exactly as a direct deposit would
    if let (Some(t), Some(pool)) = (slippage, &pool_before) {
        use crate::scen::pool2::PType;
        use crate::scen::pool2_oracle::{deposit_slippage_verdict, Slip};
        let amt = |a: usize| pool.assets.iter().find(|x| x.info == s.assets[a]).map(|x| x.amount.u128()).unwrap_or(0);
        let reserves = [amt(A_PA), amt(A_PB)];
        if !pool.total_share.is_zero() {
            let t18 = crate::big::dec_atomics(t);
            let v = deposit_slippage_verdict(&PType::Cp, amounts, reserves, t18);
            if ok {
                ctx.eval("C15");
                ctx.probe("helper_deposit_with_tolerance_accepted");
                if v == Slip::MustReject {
                    ctx.fail("C15", "deposit_accepted_beyond_tolerance", "via_frontend_helper", None,
                        format!("deposit {amounts:?} into R {reserves:?} through the frontend helper accepted with slippage_tolerance {t}"));
                }
            }
            // (a rejection cannot be attributed to the tolerance on this path: the helper's reply only
            // sees the outermost context of the pair's error, as on a real chain)
        }
    }
    if ok {
        ctx.eval("C11");
        ctx.probe("helper_deposit_completed");
        if funds_a != amounts[0] || allow_b != amounts[1] {
            ctx.fail("C11", "position_backed_by_received_lp", "helper_accepted_without_funds", None,
                format!("helper deposit of {amounts:?} accepted with {funds_a} attached and allowance {allow_b}"));
        }
        if d(before.bal[actor][A_PA], after.bal[actor][A_PA]) != ii(amounts[0]) || d(before.bal[actor][A_PB], after.bal[actor][A_PB]) != ii(amounts[1]) {
            ctx.fail("C11", "helper_takes_stated_assets", op, None,
                format!("helper deposit {amounts:?}: user pool assets {:?} -> {:?}", [before.bal[actor][A_PA], before.bal[actor][A_PB]], [after.bal[actor][A_PA], after.bal[actor][A_PB]]));
        }
        let x = d(after.bal[i_inc][A_LP], before.bal[i_inc][A_LP]);
        if !ipos(x) {
            ctx.fail("C11", "position_backed_by_received_lp", "helper_no_lp_received", None, format!("helper deposit succeeded but the incentive received {x} LP"));
        }
        // the depositor's position with that duration grew by exactly the LP received
        let pb = before.open_of(actor, dur).map(|p| p.0).unwrap_or(0);
        let pa_ = after.open_of(actor, dur).map(|p| p.0).unwrap_or(0);
        if d(pa_, pb) != x {
            ctx.fail("C11", "position_record", op, None, format!("helper deposit: incentive received {x} LP, position of {who} @ {dur} went {pb} -> {pa_}"));
        }
        let others_same = before.open[actor].iter().filter(|p| p.1 != dur).eq(after.open[actor].iter().filter(|p| p.1 != dur)) && before.closed[actor] == after.closed[actor];
        if !others_same {
            ctx.fail("C11", "position_record", "helper_other_positions", None, "helper deposit changed another position of the depositor".to_string());
        }
        positions_untouched(s, ctx, before, &after, Some(actor), op);
        balances_untouched(s, ctx, "C11", before, &after, &[(actor, A_PA), (actor, A_PB), (i_inc, A_LP)], op);
        flows_untouched(ctx, before, &after, op);
        ctx.eval("C13");
        let dw = d(after.raw.addr(who), before.raw.addr(who));
        if dw != d(after.raw.global, before.raw.global) || dw < x {
            ctx.fail("C13", "weight_credit", op, None, format!("helper deposit of {x} LP @ {dur}: address weight +{dw}, global +{}", d(after.raw.global, before.raw.global)));
        }
        let e = s.model.parts.entry((who.to_string(), dur)).or_insert((0, 0));
        *e = (e.0.saturating_add(after.raw.addr(who).saturating_sub(before.raw.addr(who))), e.1 + 1);
        if pb > 0 {
            s.model.had_expand.insert(who.to_string());
            ctx.probe("helper_expanded_existing_position");
        }
        ctx.state_of(&format!("{:?}{:?}{}", after.open, after.closed, after.raw.global));
    } else if r.fault_fired {
        ctx.probe("helper_chain_fault_reverted");
    }
    global_checks(s, ctx, before, &after, ok, r.fault_fired, op, Hints { pos_owner: Some(actor), ..Default::default() });
    Some(after)
}

// ---- flows -----------------------------------------------------------------------------------

/// per asset: payer + incentive + collector deltas cancel, nobody else moved
fn flow_tx_conservation(s: &Incent, ctx: &mut Ctx, before: &Obs, after: &Obs, payer: usize, op: &str) {
    let (i_inc, i_col) = (s.i_inc(), s.i_col());
    let mut exc = vec![];
    for a in 0..s.assets.len() {
        exc.push((payer, a));
        exc.push((i_inc, a));
        exc.push((i_col, a));
        let t = d(after.bal[payer][a], before.bal[payer][a]) + d(after.bal[i_inc][a], before.bal[i_inc][a]) + d(after.bal[i_col][a], before.bal[i_col][a]);
        if t != I256::ZERO {
            ctx.fail("C12", "flow_tx_conservation", op, None, format!("{op}: {} of {} appeared from nowhere among payer, incentive and collector", t, s.denom(a)));
        }
    }
    balances_untouched(s, ctx, "C12", before, after, &exc, op);
}

#[allow(clippy::too_many_arguments)]
fn do_open_flow(
    s: &mut Incent,
    ctx: &mut Ctx,
    before: &Obs,
    actor: usize,
    asset: usize,
    declared: u128,
    sent: u128,
    fee_sent: u128,
    extra: Option<(usize, u128)>,
    start: Option<u64>,
    end: Option<u64>,
    label: Option<String>,
    fault: Fault,
) -> Option<Obs> {
    let op = "open_flow";
    let who = s.actors[actor];
    let asset = asset % 5;
    let fa = s.fee_asset();
    let same = asset == fa;
    let fee = s.cfg.fee_amount;
    let inc = s.incentive.clone();
    let mut msgs = vec![];
    let mut funds: Vec<(String, u128)> = vec![];
    if s.is_native(asset) {
        funds.push((s.denom(asset), sent));
    } else {
        msgs.extend(s.set_allowance_msgs(asset, who, &inc, sent));
    }
    if !same {
        if s.is_native(fa) {
            funds.push((s.denom(fa), fee_sent));
        } else {
            msgs.extend(s.set_allowance_msgs(fa, who, &inc, fee_sent));
        }
    }
    let mut extra_ok = None;
    if let Some((xa, xamt)) = extra {
        let xa = xa % 5;
        if s.is_native(xa) && xa != asset && xa != fa && xamt > 0 {
            funds.push((s.denom(xa), xamt));
            extra_ok = Some((xa, xamt));
        }
    }
    msgs.push(wasm_exec(
        &inc,
        &incentive::ExecuteMsg::OpenFlow { start_epoch: start, end_epoch: end, curve: None, flow_asset: s.asset(asset, declared), flow_label: label.clone() },
        funds_of(&funds),
    ));
    let Done { r, after } = run_tx(s, ctx, who, msgs, fault, op)?;
    let ok = r.outcome.is_ok();
    let (i_inc, i_col) = (s.i_inc(), s.i_col());
    if ok {
        ctx.eval("C12");
        let new: Vec<&FlowV> = after.flows.iter().filter(|f| before.flow(f.id).is_none()).collect();
        if new.len() != 1 || after.flows.len() != before.flows.len() + 1 {
            ctx.fail("C12", "flow_set", "open_created_not_exactly_one", None, format!("open_flow created {} flows", new.len()));
        } else {
            let f = new[0];
            let combo = format!("flow_{}_fee_{}_{}", if s.is_native(asset) { "native" } else { "cw20" }, if s.is_native(fa) { "native" } else { "cw20" }, if same { "same" } else { "diff" });
            ctx.probe(&combo);
            if asset == A_LP {
                ctx.probe("flow_in_lp_asset");
            }
            // the collector got exactly the fee
            for a in 0..s.assets.len() {
                let got = d(after.bal[i_col][a], before.bal[i_col][a]);
                let want = if a == fa { ii(fee) } else { I256::ZERO };
                if got != want {
                    ctx.fail("C12", "collector_gets_exactly_fee", op, None, format!("open_flow: collector received {got} of {} (fee is {fee} of {})", s.denom(a), s.denom(fa)));
                }
            }
            // tokens received for the flow vs recorded funding
            let received = d(after.bal[i_inc][asset], before.bal[i_inc][asset]);
            let rec = ii(f.rec_out());
            let mut gap = I256::ZERO;
            let mut cause = None;
            if ineg(received) || s.asset_index(&f.asset) != Some(asset) || f.creator != who {
                ctx.fail("C12", "funding_recorded_eq_received", "flow_record", None,
                    format!("open_flow by {who} of asset {}: incentive balance changed by {received}, flow records creator {} asset {}", s.denom(asset), f.creator, f.asset));
            } else if rec != received {
                gap = rec - received;
                let d7 = s.is_native(fa) && same && sent != declared && sent >= fee && f.rec_out() == declared.saturating_sub(fee) && received == ii(sent - fee);
                if d7 {
                    cause = Some("D7");
                    ctx.probe(if sent < declared { "same_denom_flow_underfunded" } else { "same_denom_flow_overfunded" });
                }
                ctx.fail("C12", "funding_recorded_eq_received", if d7 { "same_denom_sent_ne_declared" } else { op }, cause,
                    format!("open_flow declared {declared} of {} with {sent} made available (fee {fee} of {}): flow records {} but the incentive received {received} for it", s.denom(asset), s.denom(fa), f.rec_out()));
            }
            // other assets: anything the incentive keeps is an (accepted) donation, it must not lose any
            for a in 0..s.assets.len() {
                if a == asset {
                    continue;
                }
                let x = d(after.bal[i_inc][a], before.bal[i_inc][a]);
                if ineg(x) {
                    ctx.fail("C12", "open_flow_moves_only_flow_asset", op, None, format!("open_flow: incentive lost {x} of {}", s.denom(a)));
                } else if ipos(x) {
                    s.model.resid[a] += x;
                    ctx.probe(if Some(a) == extra_ok.map(|e| e.0) { "extra_coin_kept_by_incentive" } else { "overpaid_fee_kept_by_incentive" });
                }
            }
            flow_tx_conservation(s, ctx, before, &after, actor, op);
            let rec128 = if ineg(received) { 0 } else { after.bal[i_inc][asset].saturating_sub(before.bal[i_inc][asset]) };
            s.model.flows.insert(f.id, MFlow { id: f.id, label: f.label.clone(), creator: f.creator.clone(), asset, funded: rec128, claimed: 0, gap, gap_cause: cause, expanded: false });
            if f.start < after.epoch {
                ctx.probe("flow_start_in_past");
            } else if f.start > after.epoch {
                ctx.probe("flow_start_in_future");
            }
            if f.end.saturating_sub(f.start) > 180 {
                ctx.probe("flow_longer_than_180_epochs");
            }
        }
        for f in &before.flows {
            if after.flow(f.id) != Some(f) {
                ctx.fail("C12", "flows_only_change_through_flow_ops", "open_changed_other_flow", None, format!("open_flow changed flow {}", f.id));
            }
        }
        positions_untouched(s, ctx, before, &after, None, op);
        weights_untouched(ctx, before, &after, op);
        ctx.state_of(&format!("{:?}", after.flows));
    } else if s.is_native(fa) && same && sent != declared {
        ctx.probe("same_denom_sent_ne_declared_rejected");
    }
    global_checks(s, ctx, before, &after, ok, r.fault_fired, op, Hints::default());
    Some(after)
}

#[allow(clippy::too_many_arguments)]
fn do_expand_flow(s: &mut Incent, ctx: &mut Ctx, before: &Obs, actor: usize, flow: &FlowRef, asset: usize, declared: u128, sent: u128, end: Option<u64>, fault: Fault) -> Option<Obs> {
    let op = "expand_flow";
    let who = s.actors[actor];
    // asset >= 100: a native coin whose denom is the address of the cw20 asset (asset - 100)
    let lookalike = asset >= 100 && !s.is_native(asset % 5);
    let asset = asset % 100 % 5;
    let inc = s.incentive.clone();
    let mut msgs = vec![];
    let mut funds = vec![];
    let mut declared_asset = s.asset(asset, declared);
    if lookalike {
        let denom = crate::world::asset_id(&s.assets[asset]);
        funds.push((denom.clone(), sent));
        declared_asset.info = AssetInfo::NativeToken { denom };
        ctx.probe("expansion_paid_in_lookalike_native_coin");
    } else if s.is_native(asset) {
        funds.push((s.denom(asset), sent));
    } else {
        msgs.extend(s.set_allowance_msgs(asset, who, &inc, sent));
    }
    msgs.push(wasm_exec(&inc, &incentive::ExecuteMsg::ExpandFlow { flow_identifier: s.flow_ident(flow), end_epoch: end, flow_asset: declared_asset }, funds_of(&funds)));
    let Done { r, after } = run_tx(s, ctx, who, msgs, fault, op)?;
    let ok = r.outcome.is_ok();
    let i_inc = s.i_inc();
    if ok {
        ctx.eval("C12");
        match before.flow_by_ref(flow) {
            None => ctx.fail("C12", "flow_set", "expanded_nonexistent", None, format!("expand_flow of {flow:?} succeeded but no such flow was listed")),
            Some(fb) => {
                let id = fb.id;
                let fasset = s.asset_index(&fb.asset).unwrap_or(asset);
                let received = d(after.bal[i_inc][fasset], before.bal[i_inc][fasset]);
                match after.flow(id) {
                    None => ctx.fail("C12", "flow_set", "expand_removed_flow", None, format!("expand_flow removed flow {id}")),
                    Some(fa_) => {
                        let drec = d(fa_.rec_out(), fb.rec_out());
                        if drec != received || ineg(received) {
                            // reset path of a never expanded flow longer than 180 epochs re-bases on the expansion amount
                            let reset = fb.hist.is_empty() && fb.end_latest().saturating_sub(fb.start) > 180;
                            let n2 = reset && received == ii(declared) && fa_.rec_out() == declared.saturating_sub(fb.claimed).saturating_add(declared);
                            // a cw20 expansion is recorded but its TransferFrom is never dispatched
                            let n3 = !n2 && !lookalike && !s.is_native(fasset) && fasset == asset && received == I256::ZERO && drec == ii(declared) && sent >= declared;
                            let known = if n2 { Some("N6") } else if n3 { Some("N7") } else { None };
                            if n3 {
                                ctx.probe("cw20_flow_expansion_not_transferred");
                            }
                            ctx.fail("C12", "funding_recorded_eq_received", if n2 { "reset_rebases_on_expansion_amount" } else if n3 { "cw20_expansion_not_transferred" } else { op }, known,
                                format!("expand_flow {id} by {declared} (made available {sent}): recorded outstanding {} -> {} but the incentive received {received}", fb.rec_out(), fa_.rec_out()));
                            if let Some(m) = s.model.flows.get_mut(&id) {
                                m.gap += drec - received;
                                if m.gap != I256::ZERO && m.gap_cause.is_none() {
                                    m.gap_cause = known;
                                }
                            }
                        }
                        if fa_.start != fb.start {
                            ctx.probe("flow_reset_on_expansion");
                            let keys: Vec<(u64, u64)> = s.model.paid_fe.keys().filter(|k| k.0 == id).copied().collect();
                            for k in keys {
                                s.model.paid_fe.remove(&k);
                            }
                        }
                        if fa_.creator != fb.creator || fa_.asset != fb.asset || fa_.id != fb.id {
                            ctx.fail("C12", "flows_only_change_through_flow_ops", "expand_changed_identity", None, format!("expand_flow changed creator/asset of flow {id}"));
                        }
                    }
                }
                if let Some(m) = s.model.flows.get_mut(&id) {
                    if ipos(received) {
                        m.funded = m.funded.saturating_add(after.bal[i_inc][fasset].saturating_sub(before.bal[i_inc][fasset]));
                    }
                    m.expanded = true;
                    if m.creator != who {
                        ctx.probe("flow_expanded_by_non_creator");
                    }
                }
                for f in &before.flows {
                    if f.id != id && after.flow(f.id) != Some(f) {
                        ctx.fail("C12", "flows_only_change_through_flow_ops", "expand_changed_other_flow", None, format!("expand_flow {id} changed flow {}", f.id));
                    }
                }
                let mut exc = vec![];
                for a in 0..s.assets.len() {
                    if a == fasset {
                        exc.push((actor, a));
                        exc.push((i_inc, a));
                        if d(before.bal[actor][a], after.bal[actor][a]) != received {
                            ctx.fail("C12", "flow_tx_conservation", op, None, format!("expand_flow: payer lost {} but incentive received {received}", d(before.bal[actor][a], after.bal[actor][a])));
                        }
                    }
                }
                balances_untouched(s, ctx, "C12", before, &after, &exc, op);
            }
        }
        positions_untouched(s, ctx, before, &after, None, op);
        weights_untouched(ctx, before, &after, op);
        ctx.state_of(&format!("{:?}", after.flows));
    }
    global_checks(s, ctx, before, &after, ok, r.fault_fired, op, Hints::default());
    Some(after)
}

fn do_close_flow(s: &mut Incent, ctx: &mut Ctx, before: &Obs, actor: usize, flow: &FlowRef, fault: Fault) -> Option<Obs> {
    let op = "close_flow";
    let who = s.actors[actor];
    let inc = s.incentive.clone();
    let Done { r, after } = run_tx(s, ctx, who, vec![wasm_exec(&inc, &incentive::ExecuteMsg::CloseFlow { flow_identifier: s.flow_ident(flow) }, vec![])], fault, op)?;
    let ok = r.outcome.is_ok();
    let i_inc = s.i_inc();
    let fb = before.flow_by_ref(flow).cloned();
    if ok {
        ctx.eval("C12");
        match &fb {
            None => ctx.fail("C12", "flow_set", "closed_nonexistent", None, format!("close_flow of {flow:?} succeeded but no such flow was listed")),
            Some(fb) => {
                let id = fb.id;
                let authorised = fb.creator == who || who == OWNER;
                ctx.eval("C16");
                if !authorised {
                    ctx.fail("C12", "close_flow_authorised", "stranger_closed_flow", None, format!("{who} closed flow {id} created by {}", fb.creator));
                    // the same fact under the authorisation property (flow removal is reserved to the creator and the factory owner)
                    ctx.fail("C16", "unauthorised_must_fail", "incentive.close_flow_by_stranger", None, format!("{who}, neither the creator ({}) of flow {id} nor the owner of the incentive factory, closed it (flows before: {}, epoch {})", fb.creator, before.flows.len(), before.epoch));
                } else {
                    ctx.probe(if fb.creator == who { "flow_closed_by_creator" } else { "flow_closed_by_owner" });
                }
                if after.flow(id).is_some() {
                    ctx.fail("C12", "close_removes_flow", op, None, format!("flow {id} still listed after close_flow"));
                }
                let a = s.asset_index(&fb.asset).unwrap_or(0);
                let ci = s.accts.iter().position(|x| *x == fb.creator);
                let (out, gap, expanded, cause) = match s.model.flows.get(&id) {
                    Some(m) => (m.out(), m.gap, m.expanded, m.gap_cause),
                    None => (I256::ZERO, I256::ZERO, false, None),
                };
                let paid = d(before.bal[i_inc][a], after.bal[i_inc][a]);
                let refund = ci.map(|c| d(after.bal[c][a], before.bal[c][a])).unwrap_or(I256::ZERO);
                if refund != paid {
                    ctx.fail("C12", "close_refunds_creator", "refund_not_to_creator", None, format!("close_flow {id}: incentive paid {paid}, creator {} received {refund}", fb.creator));
                }
                let mut exc = vec![(i_inc, a)];
                if let Some(c) = ci {
                    exc.push((c, a));
                }
                balances_untouched(s, ctx, "C12", before, &after, &exc, op);
                if refund != out {
                    let rec = ii(fb.rec_out());
                    let today_d8 = ii(fb.amount0.saturating_sub(fb.claimed));
                    let detail = format!("close_flow {id}: funded minus claimed is {out} of {} but {refund} was refunded (original amount {}, recorded total {}, recorded claimed {}, recorded-vs-received difference {gap})", s.denom(a), fb.amount0, fb.total(), fb.claimed);
                    let mut neg_known: Option<&'static str> = None;
                    if expanded && refund == today_d8 && refund != rec {
                        // refund ignores the expansions (D8); a recorded-but-not-received part (gap) may overlap
                        ctx.probe("expanded_flow_closed");
                        ctx.fail("C12", "close_refunds_funded_minus_claimed", "refund_ignores_expansions", Some("D8"), detail.clone());
                        if gap != I256::ZERO {
                            ctx.fail("C12", "close_refunds_funded_minus_claimed", "refund_of_recorded_not_received", cause, detail.clone());
                            neg_known = cause;
                        } else {
                            neg_known = Some("D8");
                        }
                    } else if gap != I256::ZERO && refund == rec {
                        ctx.fail("C12", "close_refunds_funded_minus_claimed", "refund_of_recorded_not_received", cause, detail.clone());
                        neg_known = cause;
                    } else {
                        ctx.fail("C12", "close_refunds_funded_minus_claimed", op, None, detail.clone());
                    }
                    let left = out - refund;
                    s.model.resid[a] += left;
                    if ineg(left) {
                        s.model.neg_closed[a] += left;
                        match (s.model.neg_cause[a], neg_known) {
                            (None, Some(k)) if !s.model.neg_cause_mixed[a] => s.model.neg_cause[a] = Some(k),
                            (Some(x), Some(y)) if x == y => {}
                            _ => s.model.neg_cause_mixed[a] = true,
                        }
                    }
                    if a == A_LP && ipos(left) {
                        // C11: LP that belongs to no position and no open flow stays in the incentive
                        let d8_branch = expanded && refund == today_d8 && refund != rec;
                        let by_record = d8_branch || refund == rec;
                        let mut explained = I256::ZERO;
                        if d8_branch && ipos(rec - refund) {
                            explained += rec - refund;
                            ctx.fail("C11", "lp_custody_exact", "closed_flow_leaves_lp_behind", Some("D8"),
                                format!("close_flow {id} in the LP asset left {} expanded LP in the incentive that belongs to no position and no flow", rec - refund));
                        }
                        if by_record && ineg(gap) {
                            explained += -gap;
                            ctx.fail("C11", "lp_custody_exact", "closed_flow_leaves_unrecorded_lp_behind", cause,
                                format!("close_flow {id} in the LP asset left {} LP behind that the flow had received but did not record", -gap));
                        }
                        if explained != left && !(by_record && ipos(gap)) {
                            ctx.fail("C11", "lp_custody_exact", "closed_flow_leaves_lp_behind", None,
                                format!("close_flow {id} in the LP asset left {left} LP in the incentive that belongs to no position and no flow"));
                        }
                    }
                }
                s.model.flows.remove(&id);
                let keys: Vec<(u64, u64)> = s.model.paid_fe.keys().filter(|k| k.0 == id).copied().collect();
                for k in keys {
                    s.model.paid_fe.remove(&k);
                }
                for f in &before.flows {
                    if f.id != id && after.flow(f.id) != Some(f) {
                        ctx.fail("C12", "flows_only_change_through_flow_ops", "close_changed_other_flow", None, format!("close_flow {id} changed flow {}", f.id));
                    }
                }
            }
        }
        positions_untouched(s, ctx, before, &after, None, op);
        weights_untouched(ctx, before, &after, op);
        ctx.state_of(&format!("{:?}", after.flows));
    } else if let Some(fb) = &fb {
        if fb.creator != who && who != OWNER && r.outcome.err_text().contains("Account not permitted to close flow") {
            ctx.eval("C12");
            ctx.probe("stranger_close_refused");
        }
    }
    global_checks(s, ctx, before, &after, ok, r.fault_fired, op, Hints::default());
    Some(after)
}

// ---- claims, snapshot, clock -----------------------------------------------------------------

/// transfers to `to` found in the response events: (asset index, amount)
fn transfers_to(s: &Incent, out: &Outcome, to: &str) -> Vec<(usize, u128)> {
    let mut v = vec![];
    let Outcome::Ok(r) = out else { return v };
    for e in &r.events {
        let get = |k: &str| e.attributes.iter().find(|a| a.key == k).map(|a| a.value.clone());
        if e.ty == "transfer" {
            if get("recipient").as_deref() != Some(to) {
                continue;
            }
            if let Some(am) = get("amount") {
                for c in am.split(',') {
                    let pos = c.find(|ch: char| !ch.is_ascii_digit()).unwrap_or(c.len());
                    if let (Ok(x), Some(a)) = (c[..pos].parse::<u128>(), s.assets.iter().position(|i| matches!(i, AssetInfo::NativeToken { denom } if denom == &c[pos..]))) {
                        v.push((a, x));
                    }
                }
            }
        } else if e.ty == "wasm" && get("action").as_deref() == Some("transfer") && get("to").as_deref() == Some(to) {
            let tok = get("_contract_addr").or_else(|| get("_contract_address"));
            if let (Some(tok), Some(Ok(x))) = (tok, get("amount").map(|x| x.parse::<u128>())) {
                if let Some(a) = s.assets.iter().position(|i| matches!(i, AssetInfo::Token { contract_addr } if *contract_addr == tok)) {
                    v.push((a, x));
                }
            }
        }
    }
    v
}

fn do_claim(s: &mut Incent, ctx: &mut Ctx, before: &Obs, actor: usize, fault: Fault) -> Option<Obs> {
    let op = "claim";
    let who = s.actors[actor];
    let inc = s.incentive.clone();
    let e = before.epoch;
    let quote: Result<incentive::RewardsResponse, String> = query(&s.app, &inc, &incentive::QueryMsg::Rewards { address: who.to_string() });
    let last = before.raw.last_claimed.get(who).copied();
    let already = s.model.last_ok_claim.get(who) == Some(&e);
    let Done { r, after } = run_tx(s, ctx, who, vec![wasm_exec(&inc, &incentive::ExecuteMsg::Claim {}, vec![])], fault, op)?;
    let ok = r.outcome.is_ok();
    let i_inc = s.i_inc();
    let n_assets = s.assets.len();
    let paid: Vec<I256> = (0..n_assets).map(|a| d(after.bal[actor][a], before.bal[actor][a])).collect();
    if already {
        // second claim in the same epoch transfers nothing, whatever its outcome
        ctx.eval("C13");
        ctx.probe("double_claim_in_epoch");
        if before.bal != after.bal {
            ctx.fail("C13", "second_claim_pays_nothing", op, None, format!("{who} claimed again in epoch {e} and balances moved: received {paid:?}"));
        }
    }
    if ok {
        ctx.eval("C13");
        ctx.eval("C12");
        let first = last.map(|l| l.saturating_add(1)).unwrap_or(0);
        let span = e.saturating_sub(first).saturating_add(1);
        // (f) pays exactly the quote
        if span <= 100 {
            match &quote {
                Ok(q) => {
                    let mut want = vec![U256::ZERO; n_assets];
                    let mut foreign = false;
                    for x in &q.rewards {
                        match s.asset_index(&x.info) {
                            Some(a) => want[a] += U256::from(x.amount.u128()),
                            None => foreign = true,
                        }
                    }
                    for a in 0..n_assets {
                        if I256::from_bits(want[a]) != paid[a] || foreign {
                            ctx.fail("C13", "claim_pays_rewards_query", op, None,
                                format!("{who} claim in epoch {e} (last claimed {last:?}): Rewards query said {} of {}, claim paid {}", want[a], s.denom(a), paid[a]));
                            break;
                        }
                    }
                    if q.rewards.is_empty() {
                        ctx.probe("claim_of_nothing");
                    } else {
                        ctx.probe("claim_paid_quote");
                    }
                }
                Err(qe) => {
                    ctx.fail("C13", "claim_pays_rewards_query", "query_fails_claim_succeeds", None, format!("{who}: Rewards query failed ({qe}) but the claim succeeded paying {paid:?}"));
                }
            }
        } else {
            ctx.probe("claim_span_gt_100_epochs");
        }
        // per flow: what was paid out of it, against recorded bookkeeping and the epoch's emission
        let mut by_asset = vec![I256::ZERO; n_assets];
        let single = last == Some(e.wrapping_sub(1)) && e > 0;
        for fb in &before.flows {
            let Some(fa_) = after.flow(fb.id) else {
                ctx.fail("C12", "flow_set", "claim_removed_flow", None, format!("claim removed flow {}", fb.id));
                continue;
            };
            let a = s.asset_index(&fb.asset).unwrap_or(0);
            let pf = d(fb.rec_out(), fa_.rec_out());
            if ineg(pf) || fa_.total() != fb.total() || fa_.creator != fb.creator || fa_.start != fb.start {
                ctx.fail("C12", "flows_only_change_through_flow_ops", "claim_changed_flow", None, format!("claim changed flow {}: recorded outstanding {} -> {}", fb.id, fb.rec_out(), fa_.rec_out()));
                continue;
            }
            by_asset[a] += pf;
            let pf128 = fb.rec_out().saturating_sub(fa_.rec_out());
            if let Some(m) = s.model.flows.get_mut(&fb.id) {
                m.claimed = m.claimed.saturating_add(pf128);
            }
            if pf128 == 0 {
                continue;
            }
            // (e) bounded by the emissions of the claimed epochs
            let mut tot = U256::ZERO;
            for k in first.max(fa_.start)..=e {
                tot += U256::from(fa_.emission_cap(k));
            }
            if U256::from(pf128) > tot {
                ctx.fail("C13", "claim_le_emission", op, None,
                    format!("{who} claim in epoch {e}: flow {} paid {pf128} for epochs {first}..={e} whose emissions total at most {tot}", fb.id));
            }
            if single {
                let em = fa_.emission_cap(e);
                let t = s.model.paid_fe.entry((fb.id, e)).or_insert(0);
                *t = t.saturating_add(pf128);
                if *t > em {
                    // Every single claim is checked exactly against emission x history weight / snapshot
                    // (claim_reference), and check_shares decomposes exactly why the history weights of
                    // an epoch exceed its snapshot. An epoch paying out more than its emission is the
                    // consequence of those causes; N5 only concerns what the share query reports, not
                    // what claims use. A cause that is not a listed finding wins (-> violation).
                    let stale_unexplained = s.model.stale_unexplained;
                    let ids: Vec<&'static str> = s.model.ep.reported.iter().filter_map(|c| match *c {
                        "closed_before_snapshot" => Some("D10"),
                        "stale_weight_history" => Some(if stale_unexplained { "" } else { "D11" }),
                        "global_lt_sum_of_weights" => Some("D9"),
                        _ => None,
                    }).collect();
                    let known = if ids.contains(&"") || ids.is_empty() {
                        None
                    } else if ids.contains(&"D9") {
                        Some("D9")
                    } else if ids.contains(&"D10") {
                        Some("D10")
                    } else {
                        Some("D11")
                    };
                    ctx.fail("C13", "epoch_payout_le_emission", if known.is_some() { "shares_gt_100" } else { op }, known,
                        format!("flow {} epoch {e}: claims paid {} in total, the epoch's emission is {em}", fb.id, *t));
                }
                // the claim does not pay more than the share the query reported
                if let Some(Ok((w, g))) = before.shares.get(actor) {
                    if *g > 0 && U256::from(pf128) * U256::from(*g) > U256::from(em) * U256::from(*w) {
                        ctx.fail("C13", "claim_le_reported_share", op, None,
                            format!("{who} claim in epoch {e}: flow {} paid {pf128} > emission {em} x reported share {w}/{g}", fb.id));
                    }
                }
            }
        }
        // (g) every flow pays the emission of each claimed epoch times the weight the address's
        // history fixed for that epoch over the epoch's snapshot
        match claim_reference(before, who, WeightRule::History) {
            Ok(Some(want)) => {
                ctx.probe("claim_checked_against_reference");
                for fb in &before.flows {
                    let Some(fa_) = after.flow(fb.id) else { continue };
                    let pf128 = fb.rec_out().saturating_sub(fa_.rec_out());
                    let w = want.get(&fb.id).copied().unwrap_or(0);
                    if pf128 != w {
                        let as_written = claim_reference(before, who, WeightRule::ContractLoop).ok().flatten().and_then(|m| m.get(&fb.id).copied());
                        // N8 (repaired in /repo, c1925ad): the loop as originally written explains the amount;
                        // only used to label the violation, it is not a known finding any more
                        let n8 = as_written == Some(pf128);
                        ctx.fail("C13", "claim_uses_weight_fixed_by_history", if n8 { "history_before_flow_start_ignored" } else { op }, None,
                            format!("{who} claim in epoch {e} (last claimed {last:?}): flow {} (start {}) paid {pf128}; emission x history weight / snapshot per epoch gives {w}; history {:?}", fb.id, fb.start, before.raw.hist.get(who)));
                        break;
                    }
                }
            }
            Ok(None) => ctx.probe("claim_reference_not_applicable"),
            Err(()) => {
                let as_written = claim_reference(before, who, WeightRule::ContractLoop);
                let n8 = matches!(as_written, Ok(Some(_)));
                ctx.fail("C13", "claim_uses_weight_fixed_by_history", if n8 { "history_before_flow_start_ignored" } else { "claim_ok_reference_rejects" }, None,
                    format!("{who} claim in epoch {e} succeeded paying {paid:?} although by the weights its history fixed the sanity check must reject it"));
            }
        }
        for a in 0..n_assets {
            if by_asset[a] != paid[a] || d(before.bal[i_inc][a], after.bal[i_inc][a]) != paid[a] {
                ctx.fail("C12", "claimed_recorded_eq_paid", op, None,
                    format!("{who} claim: flows record {} of {} as newly claimed, user received {}, incentive paid {}", by_asset[a], s.denom(a), paid[a], d(before.bal[i_inc][a], after.bal[i_inc][a])));
                break;
            }
        }
        // each single transfer is at most one epoch's emission of some flow in that asset
        for (a, x) in transfers_to(s, &r.outcome, who) {
            let mut cap = 0u128;
            for f in after.flows.iter().filter(|f| s.asset_index(&f.asset) == Some(a)) {
                for k in first.max(f.start)..=e {
                    cap = cap.max(f.emission_cap(k));
                }
            }
            if x > cap {
                ctx.fail("C13", "claim_le_emission", "single_transfer", None, format!("{who} claim in epoch {e}: one transfer of {x} {} exceeds every epoch emission (max {cap})", s.denom(a)));
            }
        }
        let mut exc = vec![];
        for a in 0..n_assets {
            exc.push((actor, a));
            exc.push((i_inc, a));
        }
        balances_untouched(s, ctx, "C13", before, &after, &exc, op);
        positions_untouched(s, ctx, before, &after, None, op);
        weights_untouched(ctx, before, &after, op);
        s.model.last_ok_claim.insert(who.to_string(), e);
        if span > 1 {
            ctx.probe("claim_over_several_epochs");
        }
        ctx.state_of(&format!("{:?}{:?}", after.flows.iter().map(|f| f.claimed).collect::<Vec<_>>(), after.raw.last_claimed));
    }
    global_checks(s, ctx, before, &after, ok, r.fault_fired, op, Hints { claimer: Some(actor), ..Default::default() });
    Some(after)
}

fn do_snapshot(s: &mut Incent, ctx: &mut Ctx, before: &Obs, actor: usize) -> Option<Obs> {
    let op = "snapshot";
    let who = s.actors[actor];
    let inc = s.incentive.clone();
    let Done { r, after } = run_tx(s, ctx, who, vec![wasm_exec(&inc, &incentive::ExecuteMsg::TakeGlobalWeightSnapshot {}, vec![])], Fault::None, op)?;
    let ok = r.outcome.is_ok();
    if ok {
        ctx.eval("C13");
        if after.snap != Some(before.raw.global) {
            ctx.fail("C13", "snapshot_is_global_weight", op, None, format!("snapshot of epoch {} is {:?}, GLOBAL_WEIGHT was {}", after.epoch, after.snap, before.raw.global));
        }
        if who == SPECIALS[3] {
            ctx.probe("snapshot_by_stranger");
        }
        balances_untouched(s, ctx, "C13", before, &after, &[], op);
        positions_untouched(s, ctx, before, &after, None, op);
        weights_untouched(ctx, before, &after, op);
        flows_untouched(ctx, before, &after, op);
        ctx.state_of(&format!("{:?}", after.raw.snaps));
    }
    global_checks(s, ctx, before, &after, ok, r.fault_fired, op, Hints::default());
    Some(after)
}

fn do_new_epoch(s: &mut Incent, ctx: &mut Ctx, before: &Obs, actor: usize, n: u32) -> Option<Obs> {
    let op = "new_epoch";
    let who = s.actors[actor];
    let n = n.clamp(1, 40);
    let dist = s.distributor.clone();
    let mut all_ok = true;
    for _ in 0..n {
        let r = tx(&mut s.app, who, vec![wasm_exec(&dist, &white_whale_std::fee_distributor::ExecuteMsg::NewEpoch {}, vec![])], Fault::None);
        ctx.op(op, r.outcome.kind());
        all_ok &= r.outcome.is_ok();
        s.advance(DAY);
    }
    let after = match observe(s) {
        Ok(o) => o,
        Err(e) => {
            ctx.fail("C13", "queries_answer", op, None, format!("after {op}: {e}"));
            return None;
        }
    };
    ctx.trace(&format!("{op}:{}:{}", all_ok, after.epoch));
    if !all_ok || after.epoch != before.epoch + n as u64 {
        panic!("harness: distributor mock did not advance: {} -> {}", before.epoch, after.epoch);
    }
    if before.snap.is_none() {
        ctx.probe("epoch_passed_without_snapshot");
    }
    balances_untouched(s, ctx, "C13", before, &after, &[], op);
    positions_untouched(s, ctx, before, &after, None, op);
    weights_untouched(ctx, before, &after, op);
    flows_untouched(ctx, before, &after, op);
    global_checks(s, ctx, before, &after, true, false, op, Hints::default());
    if ipos(s.model.ep.stale_total) {
        ctx.probe("epoch_starts_with_stale_high_history");
    } else if ineg(s.model.ep.stale_total) {
        ctx.probe("epoch_starts_with_stale_low_history");
    }
    if after.epoch >= 20 {
        ctx.probe("epoch_ge_20");
    }
    Some(after)
}
