//! Raw view of the incentive contract's storage (weights, weight history, snapshots, claim cursors),
//! an exact replica of `weight.rs::calculate_weight` used only by the bug-compatible predicates, and
//! wide signed arithmetic.

use std::collections::BTreeMap;

use bnum::types::{I256, U256, U512};
use cosmwasm_std::{Order, Uint128};

use crate::world::SimApp;

pub fn ii(x: u128) -> I256 {
    I256::from_bits(U256::from(x))
}
pub fn izero() -> I256 {
    I256::ZERO
}
pub fn ipos(x: I256) -> bool {
    x > I256::ZERO
}
pub fn ineg(x: I256) -> bool {
    x < I256::ZERO
}

#[derive(Clone, Debug, Default, PartialEq)]
pub struct Raw {
    pub global: u128,
    /// ADDRESS_WEIGHT of every address present in storage
    pub addr_w: BTreeMap<String, u128>,
    /// ADDRESS_WEIGHT_HISTORY: address -> epoch -> weight
    pub hist: BTreeMap<String, BTreeMap<u64, u128>>,
    /// GLOBAL_WEIGHT_SNAPSHOT
    pub snaps: BTreeMap<u64, u128>,
    pub last_claimed: BTreeMap<String, u64>,
    /// number of entries that could not be parsed (must stay 0)
    pub junk: u32,
}

impl Raw {
    pub fn sum_addr(&self) -> U256 {
        let mut t = U256::ZERO;
        for v in self.addr_w.values() {
            t += U256::from(*v);
        }
        t
    }
    pub fn addr(&self, a: &str) -> u128 {
        self.addr_w.get(a).copied().unwrap_or(0)
    }
    /// weight the contract attributes to `a` for epoch `e`: last history entry with key <= e
    pub fn frozen(&self, a: &str, e: u64) -> u128 {
        self.hist.get(a).and_then(|h| h.range(..=e).next_back().map(|(_, w)| *w)).unwrap_or(0)
    }
    pub fn has_entry_le(&self, a: &str, e: u64) -> bool {
        self.hist.get(a).map(|h| h.range(..=e).next().is_some()).unwrap_or(false)
    }
    pub fn entry(&self, a: &str, e: u64) -> Option<u128> {
        self.hist.get(a).and_then(|h| h.get(&e).copied())
    }
}

fn lp(ns: &[u8]) -> Vec<u8> {
    let mut k = (ns.len() as u16).to_be_bytes().to_vec();
    k.extend_from_slice(ns);
    k
}

fn parse_u128(v: &[u8]) -> Option<u128> {
    serde_json::from_slice::<Uint128>(v).ok().map(|x| x.u128())
}

fn be64(b: &[u8]) -> Option<u64> {
    if b.len() != 8 {
        return None;
    }
    let mut a = [0u8; 8];
    a.copy_from_slice(b);
    Some(u64::from_be_bytes(a))
}

/// One pass over the contract's storage (cw-multi-test keeps it under `wasm` / `contract_data/<addr>`).
pub fn scan(app: &SimApp, contract: &str) -> Raw {
    use incentive::state as st;
    let mut prefix = lp(b"wasm");
    let mut ns = b"contract_data/".to_vec();
    ns.extend_from_slice(contract.as_bytes());
    prefix.extend_from_slice(&lp(&ns));
    let mut end = prefix.clone();
    if let Some(l) = end.last_mut() {
        *l = l.wrapping_add(1);
    }
    let k_global = st::GLOBAL_WEIGHT.as_slice().to_vec();
    let p_addr = lp(st::ADDRESS_WEIGHT.namespace());
    let p_hist = lp(st::ADDRESS_WEIGHT_HISTORY.namespace());
    let p_snap = lp(st::GLOBAL_WEIGHT_SNAPSHOT.namespace());
    let p_last = lp(st::LAST_CLAIMED_EPOCH.namespace());
    app.read_module(|_r, _a, storage| {
        let mut raw = Raw::default();
        for (k, v) in storage.range(Some(&prefix), Some(&end), Order::Ascending) {
            let k = &k[prefix.len()..];
            if k == k_global.as_slice() {
                match parse_u128(&v) {
                    Some(x) => raw.global = x,
                    None => raw.junk += 1,
                }
            } else if k.starts_with(&p_hist) {
                let rest = &k[p_hist.len()..];
                if rest.len() < 2 {
                    raw.junk += 1;
                    continue;
                }
                let al = u16::from_be_bytes([rest[0], rest[1]]) as usize;
                if rest.len() != 2 + al + 8 {
                    raw.junk += 1;
                    continue;
                }
                let a = String::from_utf8_lossy(&rest[2..2 + al]).to_string();
                match (be64(&rest[2 + al..]), parse_u128(&v)) {
                    (Some(e), Some(w)) => {
                        raw.hist.entry(a).or_default().insert(e, w);
                    }
                    _ => raw.junk += 1,
                }
            } else if k.starts_with(&p_addr) {
                let a = String::from_utf8_lossy(&k[p_addr.len()..]).to_string();
                match parse_u128(&v) {
                    Some(w) => {
                        raw.addr_w.insert(a, w);
                    }
                    None => raw.junk += 1,
                }
            } else if k.starts_with(&p_snap) {
                match (be64(&k[p_snap.len()..]), parse_u128(&v)) {
                    (Some(e), Some(w)) => {
                        raw.snaps.insert(e, w);
                    }
                    _ => raw.junk += 1,
                }
            } else if k.starts_with(&p_last) {
                let a = String::from_utf8_lossy(&k[p_last.len()..]).to_string();
                match serde_json::from_slice::<u64>(&v) {
                    Ok(e) => {
                        raw.last_claimed.insert(a, e);
                    }
                    Err(_) => raw.junk += 1,
                }
            }
        }
        raw
    })
}

/// Exact replica of `calculate_weight` (Decimal256 fixed point, every intermediate floor as in
/// cosmwasm-std 1.5). None outside the allowed duration range or on overflow.
pub fn weight_replica(dur: u64, amount: u128) -> Option<u128> {
    if !(86_400..=31_556_926).contains(&dur) {
        return None;
    }
    let e18 = U512::from(1_000_000_000_000_000_000u128);
    let d = U512::from(dur);
    let den = U512::from(7_791_996_353_100_889_432_894u128);
    let p1 = d * d * U512::from(109_498_841u64) * e18 / den;
    let p2 = d * U512::from(249_042_009_202_369u64) * e18 / den;
    let p3 = U512::from(246_210_981_355_969u64) * e18 / U512::from(246_918_738_317_569u64);
    let m = p1 + p2 + p3;
    let w = U512::from(amount) * m / e18;
    if w > U512::from(u128::MAX) {
        return None;
    }
    let dg = w.digits();
    let w128 = dg[0] as u128 | ((dg[1] as u128) << 64);
    Some(w128.max(amount))
}

#[cfg(test)]
mod tests {
    use super::weight_replica;
    #[test]
    fn replica_matches_repo_literals() {
        assert_eq!(weight_replica(86400, 10_000), Some(10_000));
        assert_eq!(weight_replica(31556926, 10_000), Some(159_999));
        assert_eq!(weight_replica(15778463, 10_000), Some(49_999));
        assert_eq!(weight_replica(100_000, 3004), Some(3005));
    }
}
