//! MIGRATE (C14, C17, C19): the `migrate` entry points on LEGACY STORAGE LAYOUTS.
//!
//! Metamorphic method, no old contract code needed: the world is built at the current version through the
//! real factories; for one contract chosen by the run the storage is rewritten into a legacy layout that its
//! `migrate` converts (the layout is defined by the migration code itself: same storage keys, same field names,
//! items that did not exist then removed, cw2 `contract_info` set to the legacy version), then the real
//! migration is executed (wasm admin = the factory resp. the deployer) and the observable state must be what
//! it was, quotes must still equal execution (C14), every pause switch must be what it was and still stop /
//! allow exactly its operation (C17), and every registry entry must still equal what the child reports (C19).
//!
//! Layouts covered (default cargo features):
//!  * terraswap_pair   1.2.0 -> migrate_to_v130 (pair_info: LP token as canonical address, no pair_type)
//!  * terraswap_pair   1.1.0 -> migrate_to_v120 in the only layout that function accepts (ConfigV110 + the
//!                     *current* pair_info, no all_time_burned_fees) and in the true 1.1.0 layout (refused)
//!  * terraswap_pair <=1.0.4 -> migrate_to_v110 (PascalCase asset variants in pair_info); checked on raw storage
//!  * terraswap_factory <1.2.0 -> migrate_to_v120 (Config without trio_code_id, PairInfoRaw / TmpPairInfo old)
//!  * terraswap_factory <=1.0.8 -> migrate_to_v110 + migrate_to_v120 (PascalCase asset variants)
//!  * vault <=1.1.3 -> migrate_to_v120 (ConfigV113, no all_time_burned_fees, no loan_counter), through the
//!                     vault factory's MigrateVaults (one vault or all vaults)
//!  * vault_factory <=1.0.9 -> migrate_to_v110 (VAULTS: key -> address only; native vaults only)
//!  * version-only migrations of pair (through the factory's MigratePair), factory, vault, vault factory
//!  * outside C14/C17/C19, reported under the diagnostic id "MIG" only: fee_collector <1.2.0 (Config without the
//!    take-rate fields), whale_lair <0.9.0 (Config without fee_distributor_addr), fee_distributor <0.9.0 (epochs
//!    without global_index; synthetic epochs written by the harness)
//! Not covered: fee_distributor 0.9.0 -> migrate_to_v091 (refund of epochs that started before 2023-06-14, a dated
//! hot fix), incentive <1.0.6 -> migrate_to_v106 (needs the incentive world; flows belong to C11-C13), and every
//! osmosis / injective feature branch (migrate_to_v13x, migrate_to_v135, vault migrate_to_v126, v091_hotfix).
//!
//! Attribution: violations are raised only by checks that restate the property text on the migrated state
//! (C14 simulation == execution, C17 switch == what the operator set + behaviour, C19 registry == child). The
//! harness-level roundtrip checks (raw storage identical to the pre-legacy state, every observable identical,
//! documented defaults) report under the pseudo property "MIG" (`wwsim check MIG` runs this scenario alone).

use std::collections::{BTreeMap, VecDeque};
use std::str::FromStr;

use cosmwasm_std::{coin, to_json_binary, Coin, CosmosMsg, Decimal, Order, Uint128, WasmMsg};
use serde::{Deserialize, Serialize};
use serde_json::{json, Value};

use white_whale_std::fee::{Fee, VaultFee};
use white_whale_std::pool_network::asset::{Asset, AssetInfo, PairInfo, PairType};
use white_whale_std::pool_network::router::SwapOperation;
use white_whale_std::pool_network::{factory, pair, router};
use white_whale_std::vault_network::{vault, vault_factory};

use crate::core::{Ctx, PlanPart, Scenario, Tier};
use crate::rng::Rng;
use crate::scen::vault_helpers::{self as vh, Action};
use crate::world::*;

const OWNER: &str = "owner";
const USERS: [&str; 2] = ["alice", "bobby"];
const STRANGER: &str = "mallory";
const COLLECTOR: &str = "collector";
const BYSTANDER: &str = "bystander";
const NATIVES: [&str; 3] = ["uwhale", "uusdc", "uatom"];
const N_ASSETS: usize = 5;

const PAIR_NAME: &str = "white_whale-pool";
const FACTORY_NAME: &str = "white_whale-pool_factory";
const VAULT_NAME: &str = "white_whale-vault";
const VFACTORY_NAME: &str = "white_whale-vault_factory";

#[derive(Serialize, Deserialize, Clone, Copy, Debug, PartialEq, Eq)]
#[serde(rename_all = "snake_case")]
pub enum Target {
    PairV120,
    /// ConfigV110 + current pair_info: the layout migrate_to_v120 of the pair accepts
    PairV110,
    /// the layout a 1.1.0 pair really had (pair_info as read by migrate_to_v130's PairInfoRawV120)
    PairV110True,
    PairV104,
    PairBump,
    FactoryV11x,
    FactoryV108,
    FactoryBump,
    VaultV113,
    VaultBump,
    VaultFactoryV109,
    VaultFactoryBump,
    /// fee_collector < 1.2.0 -> migrate_to_v120 (Config without the take-rate fields)
    HubCollector,
    /// whale_lair < 0.9.0 -> migrate_to_v090 (Config without fee_distributor_addr)
    HubLair,
    /// fee_distributor < 0.9.0 -> migrate_to_v090 (epochs without global_index)
    HubDistributor,
}

impl Target {
    fn is_hub(&self) -> bool {
        matches!(self, Target::HubCollector | Target::HubLair | Target::HubDistributor)
    }
    fn is_pair(&self) -> bool {
        matches!(self, Target::PairV120 | Target::PairV110 | Target::PairV110True | Target::PairV104 | Target::PairBump)
    }
    fn is_vault(&self) -> bool {
        matches!(self, Target::VaultV113 | Target::VaultBump)
    }
    fn is_factory(&self) -> bool {
        matches!(self, Target::FactoryV11x | Target::FactoryV108 | Target::FactoryBump)
    }
}

#[derive(Serialize, Deserialize, Clone, Debug)]
pub struct PairCfg {
    pub a: usize,
    pub b: usize,
    pub amp: Option<u64>,
    pub fees: [String; 3],
    pub liq: [u128; 2],
    /// bit0 deposits, bit1 withdrawals, bit2 swaps
    pub bits: u8,
}

#[derive(Serialize, Deserialize, Clone, Debug)]
pub struct VaultCfg {
    pub asset: usize,
    pub fees: [String; 3],
    pub deposit: u128,
    /// bit0 deposits, bit1 withdrawals, bit2 flash loans
    pub bits: u8,
    /// legacy version of this vault when it is (one of) the migrated vault(s)
    pub version: String,
}

#[derive(Serialize, Deserialize, Clone, Debug)]
pub struct Cfg {
    pub target: Target,
    pub version: String,
    pub which: usize,
    pub all_vaults: bool,
    pub code_id_explicit: bool,
    pub decimals: [u8; N_ASSETS],
    pub pairs: Vec<PairCfg>,
    pub vaults: Vec<VaultCfg>,
    /// (pair, offer side, amount) executed during setup so that protocol fees are pending
    pub pre_swaps: Vec<(usize, usize, u128)>,
    /// (vault, amount): flash loans during setup so that vault protocol fees are pending
    pub pre_loans: Vec<(usize, u128)>,
    pub pre_steps: usize,
    pub post_steps: usize,
}

#[derive(Serialize, Deserialize, Clone, Debug, PartialEq)]
#[serde(rename_all = "snake_case")]
pub enum Step {
    Migrate,
    Swap { pair: usize, side: usize, amount: u128, user: usize },
    /// the stranger sends both assets of `pair` to: 0 the pair's LP token contract, 1 a bystander, 2 the pool factory, 3 the router
    Park { pair: usize, place: u8, amounts: [u128; 2] },
    /// hops: (pair, offer side)
    Route { hops: Vec<(usize, usize)>, amount: u128, user: usize },
    Provide { pair: usize, amounts: [u128; 2], user: usize },
    Withdraw { pair: usize, amount: u128, user: usize },
    SetPairToggles { pair: usize, bits: u8 },
    Registry { limit: Option<u32> },
    CreateDup { pair: usize, rev: bool },
    VaultDeposit { vault: usize, amount: u128, user: usize },
    VaultWithdraw { vault: usize, amount: u128, user: usize },
    VaultLoan { vault: usize, amount: u128, user: usize },
    SetVaultToggles { vault: usize, bits: u8, partial: bool },
    VaultRegistry { limit: Option<u32> },
}

#[derive(Clone, Copy, Debug, PartialEq)]
enum Kind {
    Migrate,
    SwapTarget(usize),
    SwapAny,
    ParkLp,
    ParkOther,
    RouteTarget,
    RouteAny,
    ProvideTarget,
    WithdrawTarget,
    PairOpAny,
    EnablePairTarget,
    SetPairToggles,
    Registry,
    CreateDup,
    VaultOpTarget(u8),
    VaultOpAny,
    EnableVaultTarget,
    SetVaultToggles,
    VaultRegistry,
}

#[derive(Clone, Debug)]
pub struct PairM {
    pub addr: String,
    pub lp: String,
    /// asset indices in the order given at creation
    pub assets: [usize; 2],
    pub bits: u8,
    pub stable: bool,
}

#[derive(Clone, Debug)]
pub struct VaultM {
    pub addr: String,
    pub lp: String,
    pub asset: usize,
    pub bits: u8,
}

#[derive(Clone, Debug, Default)]
struct Codes {
    pair: u64,
    pool_factory: u64,
    vault: u64,
    vault_factory: u64,
}

pub struct Mig {
    cfg: Cfg,
    app: SimApp,
    assets: Vec<AssetInfo>,
    pool_factory: String,
    router: String,
    vault_factory: String,
    borrower: String,
    codes: Codes,
    /// (address, code id, contract name) of the hub contract migrated by the Hub* targets
    hub: Option<(String, u64, &'static str)>,
    hub_lair: String,
    pairs: Vec<PairM>,
    vaults: Vec<VaultM>,
    /// the migration was executed and the target is in service again
    migrated: bool,
    migrate_done: bool,
    todo: VecDeque<Kind>,
    pre_left: usize,
    post_left: usize,
}

pub fn migrate_part() -> PlanPart {
    PlanPart { scen: crate::core::scen::<Mig>(), quick_runs: 230, thorough_runs: 10_000 }
}

// ---------------------------------------------------------------------------------------------
// raw contract storage (cw-multi-test: "wasm" / "contract_data/<addr>", length-prefixed namespaces)
// ---------------------------------------------------------------------------------------------

type Dump = BTreeMap<Vec<u8>, Vec<u8>>;

fn lp(ns: &[u8]) -> Vec<u8> {
    let mut k = (ns.len() as u16).to_be_bytes().to_vec();
    k.extend_from_slice(ns);
    k
}

fn contract_prefix(contract: &str) -> Vec<u8> {
    let mut prefix = lp(b"wasm");
    let mut ns = b"contract_data/".to_vec();
    ns.extend_from_slice(contract.as_bytes());
    prefix.extend_from_slice(&lp(&ns));
    prefix
}

fn dump(app: &SimApp, contract: &str) -> Dump {
    let prefix = contract_prefix(contract);
    let mut end = prefix.clone();
    if let Some(l) = end.last_mut() {
        *l = l.wrapping_add(1);
    }
    app.read_module(|_r, _a, storage| {
        let mut d = Dump::new();
        for (k, v) in storage.range(Some(&prefix), Some(&end), Order::Ascending) {
            d.insert(k[prefix.len()..].to_vec(), v);
        }
        d
    })
}

/// Replaces the whole storage of `contract` by `d`.
fn restore(app: &mut SimApp, contract: &str, d: &Dump) {
    let old = dump(app, contract);
    let prefix = contract_prefix(contract);
    app.init_modules(|_r, _a, storage| {
        for k in old.keys() {
            let mut full = prefix.clone();
            full.extend_from_slice(k);
            storage.remove(&full);
        }
        for (k, v) in d {
            let mut full = prefix.clone();
            full.extend_from_slice(k);
            storage.set(&full, v);
        }
    });
}

fn item(d: &Dump, key: &str) -> Option<Value> {
    d.get(key.as_bytes()).and_then(|v| serde_json::from_slice(v).ok())
}

fn set_item(d: &mut Dump, key: &str, v: &Value) {
    d.insert(key.as_bytes().to_vec(), serde_json::to_vec(v).expect("json"));
}

fn set_version(d: &mut Dump, name: &str, version: &str) {
    set_item(d, "contract_info", &json!({"contract": name, "version": version}));
}

/// JSON-canonical comparison of two dumps: keys whose values differ (or exist on one side only)
fn dump_diff(a: &Dump, b: &Dump) -> Vec<String> {
    let mut out = vec![];
    let show = |k: &Vec<u8>| String::from_utf8_lossy(k).chars().map(|c| if c.is_control() { '.' } else { c }).collect::<String>();
    for (k, va) in a {
        match b.get(k) {
            None => out.push(format!("-{}", show(k))),
            Some(vb) => {
                let ja = serde_json::from_slice::<Value>(va);
                let jb = serde_json::from_slice::<Value>(vb);
                let same = match (ja, jb) {
                    (Ok(x), Ok(y)) => x == y,
                    _ => va == vb,
                };
                if !same {
                    out.push(format!("~{}", show(k)));
                }
            }
        }
    }
    for k in b.keys() {
        if !a.contains_key(k) {
            out.push(format!("+{}", show(k)));
        }
    }
    out
}

// ---------------------------------------------------------------------------------------------
// legacy layouts, written exactly as the migration code reads them
// ---------------------------------------------------------------------------------------------

/// {"native_token":{..}} / {"token":{..}} -> {"NativeToken":{..}} / {"Token":{..}} (the variant names the
/// `rename_all(serialize = "snake_case")` structs of migrate_to_v110 deserialise)
fn pascal_asset(v: &Value) -> Value {
    if let Some(x) = v.get("native_token") {
        json!({"NativeToken": x})
    } else if let Some(x) = v.get("token") {
        json!({"Token": x})
    } else {
        v.clone()
    }
}

fn asset_infos(v: &Value, pascal: bool) -> Value {
    let arr = v.as_array().cloned().unwrap_or_default();
    Value::Array(arr.iter().map(|x| if pascal { pascal_asset(x) } else { x.clone() }).collect())
}

/// current PairInfoRaw -> the four-field record of <= 1.2.0 (LP token as a canonical address, no pair type)
fn old_pair_info(cur: &Value, pascal: bool) -> Result<Value, String> {
    let lp = cur
        .get("liquidity_token")
        .and_then(|l| l.get("token"))
        .and_then(|t| t.get("contract_addr"))
        .cloned()
        .ok_or_else(|| format!("pair_info without cw20 LP token: {cur}"))?;
    Ok(json!({
        "asset_infos": asset_infos(&cur["asset_infos"], pascal),
        "contract_addr": cur["contract_addr"],
        "liquidity_token": lp,
        "asset_decimals": cur["asset_decimals"],
    }))
}

fn pair_config_v110(cur: &Value) -> Value {
    json!({
        "owner": cur["owner"],
        "fee_collector_addr": cur["fee_collector_addr"],
        "pool_fees": {"protocol_fee": cur["pool_fees"]["protocol_fee"], "swap_fee": cur["pool_fees"]["swap_fee"]},
        "feature_toggle": cur["feature_toggle"],
    })
}

fn legacy_pair(d: &Dump, t: Target, version: &str) -> Result<Dump, String> {
    let mut out = d.clone();
    let info = item(d, "pair_info").ok_or("no pair_info")?;
    let config = item(d, "config").ok_or("no config")?;
    match t {
        Target::PairV120 => {
            set_item(&mut out, "pair_info", &old_pair_info(&info, false)?);
        }
        Target::PairV110 => {
            set_item(&mut out, "config", &pair_config_v110(&config));
            out.remove(b"all_time_burned_fees".as_slice());
        }
        Target::PairV110True => {
            set_item(&mut out, "pair_info", &old_pair_info(&info, false)?);
            set_item(&mut out, "config", &pair_config_v110(&config));
            out.remove(b"all_time_burned_fees".as_slice());
        }
        Target::PairV104 => {
            set_item(&mut out, "pair_info", &old_pair_info(&info, true)?);
            set_item(&mut out, "config", &pair_config_v110(&config));
            out.remove(b"all_time_burned_fees".as_slice());
        }
        _ => {}
    }
    set_version(&mut out, PAIR_NAME, version);
    Ok(out)
}

fn legacy_factory(d: &Dump, t: Target, version: &str) -> Result<Dump, String> {
    let mut out = d.clone();
    if matches!(t, Target::FactoryV11x | Target::FactoryV108) {
        let pascal = t == Target::FactoryV108;
        let config = item(d, "config").ok_or("no config")?;
        set_item(&mut out, "config", &json!({
            "owner": config["owner"],
            "fee_collector_addr": config["fee_collector_addr"],
            "pair_code_id": config["pair_code_id"],
            "token_code_id": config["token_code_id"],
        }));
        if let Some(tmp) = item(d, "tmp_pair_info") {
            set_item(&mut out, "tmp_pair_info", &json!({
                "pair_key": tmp["pair_key"],
                "asset_infos": asset_infos(&tmp["asset_infos"], pascal),
                "asset_decimals": tmp["asset_decimals"],
            }));
        }
        let p_pairs = lp(b"pair_info");
        let p_trios = lp(b"trio_info");
        for (k, v) in d {
            if k.starts_with(&p_pairs) {
                let cur: Value = serde_json::from_slice(v).map_err(|e| format!("pair entry: {e}"))?;
                out.insert(k.clone(), serde_json::to_vec(&old_pair_info(&cur, pascal)?).unwrap());
            } else if k.starts_with(&p_trios) {
                // trios did not exist before 1.2.0
                out.remove(k);
            }
        }
        out.remove(b"tmp_trio_info".as_slice());
    }
    set_version(&mut out, FACTORY_NAME, version);
    Ok(out)
}

fn legacy_vault(d: &Dump, t: Target, version: &str) -> Result<Dump, String> {
    let mut out = d.clone();
    if t == Target::VaultV113 {
        let c = item(d, "config").ok_or("no config")?;
        let lp_addr = c.get("lp_asset").and_then(|l| l.get("token")).and_then(|t| t.get("contract_addr")).cloned().ok_or("vault without cw20 LP")?;
        set_item(&mut out, "config", &json!({
            "owner": c["owner"],
            "asset_info": c["asset_info"],
            "flash_loan_enabled": c["flash_loan_enabled"],
            "deposit_enabled": c["deposit_enabled"],
            "withdraw_enabled": c["withdraw_enabled"],
            "liquidity_token": lp_addr,
            "fee_collector_addr": c["fee_collector_addr"],
            "fees": {"protocol_fee": c["fees"]["protocol_fee"], "flash_loan_fee": c["fees"]["flash_loan_fee"]},
        }));
        out.remove(b"all_time_burned_fees".as_slice());
        out.remove(b"loan_counter".as_slice());
    }
    set_version(&mut out, VAULT_NAME, version);
    Ok(out)
}

fn legacy_vault_factory(d: &Dump, t: Target, version: &str) -> Result<Dump, String> {
    let mut out = d.clone();
    if t == Target::VaultFactoryV109 {
        let p = lp(b"vaults");
        for (k, v) in d {
            if k.starts_with(&p) {
                let cur: Value = serde_json::from_slice(v).map_err(|e| format!("vault entry: {e}"))?;
                let addr = cur.get(0).cloned().ok_or("vault entry is not a tuple")?;
                out.insert(k.clone(), serde_json::to_vec(&addr).unwrap());
            }
        }
    }
    set_version(&mut out, VFACTORY_NAME, version);
    Ok(out)
}

fn is_disabled_error(e: &str) -> bool {
    e.contains("Operation disabled,") || e.contains("Deposits are not enabled") || e.contains("Withdrawals are not enabled") || e.contains("Flash-loans are not enabled")
}

fn dec(s: &str) -> Decimal {
    Decimal::from_str(s).expect("decimal")
}

fn fee(s: &str) -> Fee {
    Fee { share: dec(s) }
}

fn qv<Q: Serialize>(app: &SimApp, contract: &str, q: &Q) -> Value {
    match query::<Value, Q>(app, contract, q) {
        Ok(v) => json!({"ok": v}),
        Err(e) => json!({"err": e}),
    }
}

/// paths at which two JSON values differ
fn json_diff(a: &Value, b: &Value, path: &str, out: &mut Vec<String>) {
    match (a, b) {
        (Value::Object(x), Value::Object(y)) => {
            let mut keys: Vec<&String> = x.keys().chain(y.keys()).collect();
            keys.sort();
            keys.dedup();
            for k in keys {
                match (x.get(k), y.get(k)) {
                    (Some(p), Some(q)) => json_diff(p, q, &format!("{path}/{k}"), out),
                    _ => out.push(format!("{path}/{k}")),
                }
            }
        }
        (Value::Array(x), Value::Array(y)) if x.len() == y.len() => {
            for (i, (p, q)) in x.iter().zip(y.iter()).enumerate() {
                json_diff(p, q, &format!("{path}/{i}"), out);
            }
        }
        _ => {
            if a != b {
                out.push(path.to_string());
            }
        }
    }
}

// ---------------------------------------------------------------------------------------------
// configuration
// ---------------------------------------------------------------------------------------------

const TABLE: [Target; 23] = [
    Target::PairV120,
    Target::FactoryV11x,
    Target::VaultV113,
    Target::VaultFactoryV109,
    Target::PairV110,
    Target::PairV120,
    Target::FactoryV108,
    Target::VaultV113,
    Target::PairBump,
    Target::FactoryV11x,
    Target::PairV120,
    Target::VaultBump,
    Target::VaultV113,
    Target::PairV104,
    Target::FactoryV108,
    Target::VaultFactoryV109,
    Target::PairV120,
    Target::VaultV113,
    Target::FactoryV11x,
    Target::FactoryBump,
    Target::HubCollector,
    Target::HubLair,
    Target::HubDistributor,
];

fn pick_s(rng: &mut Rng, xs: &[&str]) -> String {
    xs[rng.idx(xs.len())].to_string()
}

fn version_for(rng: &mut Rng, t: Target) -> String {
    match t {
        Target::PairV120 => "1.2.0".into(),
        Target::PairV110 | Target::PairV110True => "1.1.0".into(),
        Target::PairV104 => pick_s(rng, &["1.0.4", "1.0.4", "1.0.0", "1.0.2"]),
        Target::PairBump => pick_s(rng, &["1.3.0", "1.3.5", "1.3.7", "1.2.1"]),
        Target::FactoryV11x => pick_s(rng, &["1.1.0", "1.1.1", "1.0.9", "1.1.9"]),
        Target::FactoryV108 => pick_s(rng, &["1.0.8", "1.0.8", "1.0.0", "1.0.5"]),
        Target::FactoryBump => pick_s(rng, &["1.2.0", "1.2.3"]),
        Target::VaultV113 => pick_s(rng, &["1.1.3", "1.1.3", "1.1.0", "1.0.5", "1.1.2"]),
        Target::VaultBump => pick_s(rng, &["1.1.4", "1.2.0", "1.2.6"]),
        Target::VaultFactoryV109 => pick_s(rng, &["1.0.9", "1.0.9", "1.0.0", "1.0.8"]),
        Target::VaultFactoryBump => pick_s(rng, &["1.1.0", "1.1.3"]),
        Target::HubCollector => pick_s(rng, &["1.1.3", "1.0.5", "1.1.0", "1.1.9"]),
        Target::HubLair => pick_s(rng, &["0.8.0", "0.8.9", "0.1.0"]),
        Target::HubDistributor => pick_s(rng, &["0.8.0", "0.8.9", "0.8.4"]),
    }
}

fn gen_cfg_impl(rng: &mut Rng, idx: u64) -> Cfg {
    let slot = (idx % TABLE.len() as u64) as usize;
    let round = idx / TABLE.len() as u64;
    let mut target = TABLE[slot];
    if target == Target::PairV110 && round % 2 == 1 {
        target = Target::PairV110True;
    }
    if target == Target::FactoryBump && round % 2 == 1 {
        target = Target::VaultFactoryBump;
    }
    let enum_bits = ((round + slot as u64) % 8) as u8;
    let version = version_for(rng, target);
    let decimals = [6u8, *rng.pick(&[6u8, 6, 8]), 6, *rng.pick(&[6u8, 8]), *rng.pick(&[6u8, 8, 18])];

    // pairs: a chain over a random permutation of the assets (gives multi-hop routes), optionally closed
    let mut perm: Vec<usize> = (0..N_ASSETS).collect();
    rng.shuffle(&mut perm);
    let n_chain = rng.range(2, 4) as usize;
    let mut ab: Vec<(usize, usize)> = (0..n_chain).map(|k| (perm[k], perm[k + 1])).collect();
    if rng.chance(1, 3) {
        ab.push((perm[0], perm[2]));
    }
    let which_pair = rng.idx(ab.len());
    let legacy_factory = matches!(target, Target::FactoryV11x | Target::FactoryV108);
    let legacy_pair_cfg = matches!(target, Target::PairV110 | Target::PairV110True | Target::PairV104);
    let mut pairs = vec![];
    for (i, (a, b)) in ab.iter().enumerate() {
        let (a, b) = if rng.chance(1, 2) { (*a, *b) } else { (*b, *a) };
        let is_target = target.is_pair() && i == which_pair;
        let stable_ok = !legacy_factory && !(is_target && target != Target::PairBump);
        let amp = if stable_ok && rng.chance(1, 3) { Some(*rng.pick(&[10u64, 85, 100, 1000])) } else { None };
        let burn = if is_target && legacy_pair_cfg { "0".to_string() } else { pick_s(rng, &["0", "0", "0.001", "0.005"]) };
        let fees = [pick_s(rng, &["0", "0.001", "0.002", "0.01"]), pick_s(rng, &["0", "0.003", "0.01", "0.05"]), burn];
        let liq = if amp.is_some() {
            let base = rng.range128(1_000_000, 10_000_000) * 10u128.pow(rng.below(4) as u32);
            [base * 10u128.pow(decimals[a] as u32 - 6), base * 10u128.pow(decimals[b] as u32 - 6)]
        } else {
            [
                rng.range128(1_000_000, 10_000_000) * 10u128.pow(rng.below(7) as u32),
                rng.range128(1_000_000, 10_000_000) * 10u128.pow(rng.below(7) as u32),
            ]
        };
        let bits = if is_target { enum_bits } else if rng.chance(1, 6) { rng.below(8) as u8 } else { 7 };
        pairs.push(PairCfg { a, b, amp, fees, liq, bits });
    }

    // vaults
    let native_only = target == Target::VaultFactoryV109;
    let mut pool: Vec<usize> = if native_only { vec![0, 1, 2] } else { (0..N_ASSETS).collect() };
    rng.shuffle(&mut pool);
    let n_vaults = rng.range(1, 3) as usize;
    let which_vault = rng.idx(n_vaults);
    let all_vaults = target == Target::VaultV113 && rng.chance(1, 3);
    let mut vaults = vec![];
    for (i, asset) in pool.iter().take(n_vaults).enumerate() {
        let is_target = target.is_vault() && (i == which_vault || all_vaults);
        let burn = if is_target && target == Target::VaultV113 { "0".to_string() } else { pick_s(rng, &["0", "0", "0.001"]) };
        let fees = [pick_s(rng, &["0", "0.001", "0.01"]), pick_s(rng, &["0", "0.002", "0.02"]), burn];
        let deposit = rng.range128(1_000_000, 10_000_000) * 10u128.pow(rng.below(7) as u32);
        let bits = if target.is_vault() && i == which_vault { enum_bits } else if is_target || rng.chance(1, 4) { rng.below(8) as u8 } else { 7 };
        let version = if is_target { version_for(rng, target) } else { String::new() };
        vaults.push(VaultCfg { asset: *asset, fees, deposit, bits, version });
    }

    let n_pre = rng.range(1, 3) as usize;
    let mut pre_swaps = vec![];
    for k in 0..n_pre {
        let p = if k == 0 && target.is_pair() { which_pair } else { rng.idx(pairs.len()) };
        let side = rng.idx(2);
        pre_swaps.push((p, side, (pairs[p].liq[side] / rng.range(20, 1000) as u128).max(1000)));
    }
    let mut pre_loans = vec![];
    for (i, v) in vaults.iter().enumerate() {
        if rng.chance(2, 3) {
            pre_loans.push((i, (v.deposit / rng.range(2, 50) as u128).max(1000)));
        }
    }
    Cfg {
        target,
        version,
        which: if target.is_vault() { which_vault } else { which_pair },
        all_vaults,
        code_id_explicit: rng.chance(1, 2),
        decimals,
        pairs,
        vaults,
        pre_swaps,
        pre_loans,
        pre_steps: rng.below(4) as usize,
        post_steps: rng.range(4, 14) as usize,
    }
}

// ---------------------------------------------------------------------------------------------
// world
// ---------------------------------------------------------------------------------------------

impl Mig {
    fn asset(&self, i: usize, amount: u128) -> Asset {
        Asset { info: self.assets[i].clone(), amount: Uint128::new(amount) }
    }
    fn bal(&self, who: &str, i: usize) -> u128 {
        balance(&self.app, who, &self.assets[i])
    }
    fn is_native(&self, i: usize) -> bool {
        matches!(self.assets[i], AssetInfo::NativeToken { .. })
    }
    fn funds(&self, xs: &[(usize, u128)]) -> Vec<Coin> {
        let mut v: Vec<Coin> = xs.iter().filter(|(i, a)| self.is_native(*i) && *a > 0).map(|(i, a)| coin(*a, asset_id(&self.assets[*i]))).collect();
        v.sort_by(|x, y| x.denom.cmp(&y.denom));
        v
    }
    fn allowance(&self, i: usize, spender: &str, a: u128) -> CosmosMsg {
        wasm_exec(&asset_id(&self.assets[i]), &cw20::Cw20ExecuteMsg::IncreaseAllowance { spender: spender.into(), amount: Uint128::new(a), expires: None }, vec![])
    }
    fn provide_msgs(&self, p: &PairM, amounts: [u128; 2]) -> Vec<CosmosMsg> {
        let mut msgs = vec![];
        for k in 0..2 {
            if !self.is_native(p.assets[k]) {
                msgs.push(self.allowance(p.assets[k], &p.addr, amounts[k]));
            }
        }
        msgs.push(wasm_exec(
            &p.addr,
            &pair::ExecuteMsg::ProvideLiquidity { assets: [self.asset(p.assets[0], amounts[0]), self.asset(p.assets[1], amounts[1])], slippage_tolerance: None, receiver: None },
            self.funds(&[(p.assets[0], amounts[0]), (p.assets[1], amounts[1])]),
        ));
        msgs
    }
    fn swap_msg(&self, p: &PairM, side: usize, amount: u128) -> CosmosMsg {
        let o = p.assets[side];
        if self.is_native(o) {
            wasm_exec(&p.addr, &pair::ExecuteMsg::Swap { offer_asset: self.asset(o, amount), belief_price: None, max_spread: Some(Decimal::percent(50)), to: None }, self.funds(&[(o, amount)]))
        } else {
            wasm_exec(
                &asset_id(&self.assets[o]),
                &cw20::Cw20ExecuteMsg::Send { contract: p.addr.clone(), amount: Uint128::new(amount), msg: to_json_binary(&pair::Cw20HookMsg::Swap { belief_price: None, max_spread: Some(Decimal::percent(50)), to: None }).unwrap() },
                vec![],
            )
        }
    }
    fn deposit_msgs(&self, v: &VaultM, amount: u128) -> Vec<CosmosMsg> {
        let mut msgs = vec![];
        if !self.is_native(v.asset) {
            msgs.push(self.allowance(v.asset, &v.addr, amount));
        }
        msgs.push(wasm_exec(&v.addr, &vault::ExecuteMsg::Deposit { amount: Uint128::new(amount) }, self.funds(&[(v.asset, amount)])));
        msgs
    }
    fn loan_msg(&self, v: &VaultM, amount: u128) -> CosmosMsg {
        let pay = match query::<vault::PaybackAmountResponse, _>(&self.app, &v.addr, &vault::QueryMsg::GetPaybackAmount { amount: Uint128::new(amount) }) {
            Ok(p) => p.payback_amount.u128(),
            Err(_) => amount.saturating_add(amount / 20 + 3),
        };
        wasm_exec(
            &self.borrower,
            &vh::ExecuteMsg::Run { program: vec![Action::Loan { vault: v.addr.clone(), amount: Uint128::new(amount), program: vec![Action::Pay { to: v.addr.clone(), asset: self.assets[v.asset].clone(), amount: Uint128::new(pay) }] }] },
            vec![],
        )
    }
    fn pair_toggle_msg(&self, p: &PairM, bits: u8) -> CosmosMsg {
        wasm_exec(
            &self.pool_factory,
            &factory::ExecuteMsg::UpdatePairConfig { pair_addr: p.addr.clone(), owner: None, fee_collector_addr: None, pool_fees: None, feature_toggle: Some(pair::FeatureToggle { deposits_enabled: bits & 1 != 0, withdrawals_enabled: bits & 2 != 0, swaps_enabled: bits & 4 != 0 }) },
            vec![],
        )
    }
    fn vault_toggle_msg(&self, v: &VaultM, d: Option<bool>, w: Option<bool>, f: Option<bool>) -> CosmosMsg {
        wasm_exec(
            &self.vault_factory,
            &vault_factory::ExecuteMsg::UpdateVaultConfig { vault_addr: v.addr.clone(), params: vault::UpdateConfigParams { flash_loan_enabled: f, deposit_enabled: d, withdraw_enabled: w, new_owner: None, new_vault_fees: None, new_fee_collector_addr: None } },
            vec![],
        )
    }
    fn pair_flags(&self, p: &PairM) -> Result<u8, String> {
        query::<pair::ConfigResponse, _>(&self.app, &p.addr, &pair::QueryMsg::Config {}).map(|c| (c.feature_toggle.deposits_enabled as u8) | (c.feature_toggle.withdrawals_enabled as u8) << 1 | (c.feature_toggle.swaps_enabled as u8) << 2)
    }
    fn vault_flags(&self, v: &VaultM) -> Result<u8, String> {
        query::<vault::Config, _>(&self.app, &v.addr, &vault::QueryMsg::Config {}).map(|c| (c.deposit_enabled as u8) | (c.withdraw_enabled as u8) << 1 | (c.flash_loan_enabled as u8) << 2)
    }
    fn reserves(&self, p: &PairM) -> Option<[u128; 2]> {
        let r: pair::PoolResponse = query(&self.app, &p.addr, &pair::QueryMsg::Pool {}).ok()?;
        let get = |i: usize| r.assets.iter().find(|a| a.info == self.assets[i]).map(|a| a.amount.u128());
        Some([get(p.assets[0])?, get(p.assets[1])?])
    }
    fn pending(&self, p: &PairM, i: usize) -> Option<u128> {
        let r: pair::ProtocolFeesResponse = query(&self.app, &p.addr, &pair::QueryMsg::ProtocolFees { asset_id: None, all_time: None }).ok()?;
        r.fees.iter().find(|a| a.info == self.assets[i]).map(|a| a.amount.u128())
    }
    fn is_target_pair(&self, i: usize) -> bool {
        self.cfg.target.is_pair() && i == self.cfg.which
    }
    fn is_target_vault(&self, i: usize) -> bool {
        self.cfg.target.is_vault() && (i == self.cfg.which || (self.cfg.all_vaults && self.cfg.target == Target::VaultV113))
    }

    /// The observable state S (everything the migrations promise to keep).
    fn snapshot(&self) -> Value {
        let app = &self.app;
        let mut pairs = vec![];
        for p in &self.pairs {
            let mut sims = vec![];
            for side in 0..2 {
                for a in [1_000u128, 777_777, 1_000_000_000] {
                    sims.push(qv(app, &p.addr, &pair::QueryMsg::Simulation { offer_asset: self.asset(p.assets[side], a) }));
                    sims.push(qv(app, &p.addr, &pair::QueryMsg::ReverseSimulation { ask_asset: self.asset(p.assets[side], a) }));
                }
            }
            pairs.push(json!({
                "pair": qv(app, &p.addr, &pair::QueryMsg::Pair {}),
                "config": qv(app, &p.addr, &pair::QueryMsg::Config {}),
                "pool": qv(app, &p.addr, &pair::QueryMsg::Pool {}),
                "fees": qv(app, &p.addr, &pair::QueryMsg::ProtocolFees { asset_id: None, all_time: None }),
                "fees_all_time": qv(app, &p.addr, &pair::QueryMsg::ProtocolFees { asset_id: None, all_time: Some(true) }),
                "burned": qv(app, &p.addr, &pair::QueryMsg::BurnedFees { asset_id: None }),
                "quotes": sims,
                "lp_supply": cw20_supply_opt(app, &p.lp),
            }));
        }
        let mut reg = vec![];
        for p in &self.pairs {
            let infos = [self.assets[p.assets[0]].clone(), self.assets[p.assets[1]].clone()];
            let rev = [infos[1].clone(), infos[0].clone()];
            reg.push(json!({
                "fwd": qv(app, &self.pool_factory, &factory::QueryMsg::Pair { asset_infos: infos }),
                "rev": qv(app, &self.pool_factory, &factory::QueryMsg::Pair { asset_infos: rev }),
            }));
        }
        let mut decs = vec![];
        for d in NATIVES {
            decs.push(qv(app, &self.pool_factory, &factory::QueryMsg::NativeTokenDecimals { denom: d.to_string() }));
        }
        let mut vaults = vec![];
        for v in &self.vaults {
            vaults.push(json!({
                "config": qv(app, &v.addr, &vault::QueryMsg::Config {}),
                "fees": qv(app, &v.addr, &vault::QueryMsg::ProtocolFees { all_time: false }),
                "fees_all_time": qv(app, &v.addr, &vault::QueryMsg::ProtocolFees { all_time: true }),
                "burned": qv(app, &v.addr, &vault::QueryMsg::BurnedFees {}),
                "share": qv(app, &v.addr, &vault::QueryMsg::Share { amount: Uint128::new(12_345) }),
                "payback": qv(app, &v.addr, &vault::QueryMsg::GetPaybackAmount { amount: Uint128::new(1_000_000) }),
                "lp_supply": cw20_supply_opt(app, &v.lp),
                "registry": qv(app, &self.vault_factory, &vault_factory::QueryMsg::Vault { asset_info: self.assets[v.asset].clone() }),
            }));
        }
        let mut bals = BTreeMap::new();
        let mut holders: Vec<String> = vec![OWNER.into(), USERS[0].into(), USERS[1].into(), STRANGER.into(), COLLECTOR.into(), self.pool_factory.clone(), self.router.clone(), self.vault_factory.clone(), self.borrower.clone()];
        for p in &self.pairs {
            holders.push(p.addr.clone());
            holders.push(p.lp.clone());
        }
        for v in &self.vaults {
            holders.push(v.addr.clone());
        }
        for h in holders {
            let b: Vec<String> = (0..N_ASSETS).map(|i| self.bal(&h, i).to_string()).collect();
            bals.insert(h, b);
        }
        json!({
            "factory": {
                "config": qv(app, &self.pool_factory, &factory::QueryMsg::Config {}),
                "pairs": reg,
                "listing": qv(app, &self.pool_factory, &factory::QueryMsg::Pairs { start_after: None, limit: Some(30) }),
                "native_decimals": decs,
            },
            "pairs": pairs,
            "vault_factory": {
                "config": qv(app, &self.vault_factory, &vault_factory::QueryMsg::Config {}),
                "listing": qv(app, &self.vault_factory, &vault_factory::QueryMsg::Vaults { start_after: None, limit: Some(30) }),
            },
            "vaults": vaults,
            "router": qv(app, &self.router, &router::QueryMsg::Config {}),
            "balances": bals,
        })
    }
}

fn cw20_supply_opt(app: &SimApp, tok: &str) -> Value {
    match query::<cw20::TokenInfoResponse, _>(app, tok, &cw20::Cw20QueryMsg::TokenInfo {}) {
        Ok(t) => json!(t.total_supply.to_string()),
        Err(e) => json!({"err": e}),
    }
}

fn build_world(cfg: &Cfg, ctx: &mut Ctx) -> Mig {
    let big = 10u128.pow(32);
    let natives = |_: &str| -> Vec<Coin> { NATIVES.iter().map(|d| coin(big, *d)).collect() };
    let mut app = new_app(&[(OWNER, natives(OWNER)), (USERS[0], natives("")), (USERS[1], natives("")), (STRANGER, natives(""))]);
    let token_code = app.store_code(code::token());
    let pair_code = app.store_code(code::pair());
    let trio_code = app.store_code(code::trio());
    let pf_code = app.store_code(code::pool_factory());
    let rt_code = app.store_code(code::pool_router());
    let vault_code = app.store_code(code::vault());
    let vf_code = app.store_code(code::vault_factory());
    let b_code = app.store_code(vh::borrower_code());
    let holders: Vec<(&str, u128)> = vec![(OWNER, big), (USERS[0], big), (USERS[1], big), (STRANGER, big)];
    let tka = new_cw20(&mut app, token_code, "TKA", cfg.decimals[3], OWNER, &holders);
    let tkb = new_cw20(&mut app, token_code, "TKB", cfg.decimals[4], OWNER, &holders);
    let assets = vec![native(NATIVES[0]), native(NATIVES[1]), native(NATIVES[2]), token(&tka), token(&tkb)];

    // both factories are instantiated with a wasm admin we control
    let pool_factory = must_instantiate(&mut app, pf_code, OWNER, &factory::InstantiateMsg { pair_code_id: pair_code, trio_code_id: trio_code, token_code_id: token_code, fee_collector_addr: COLLECTOR.into() }, "pool_factory", Some(OWNER));
    for (i, d) in NATIVES.iter().enumerate() {
        must_exec(&mut app, OWNER, &pool_factory, &factory::ExecuteMsg::AddNativeTokenDecimals { denom: d.to_string(), decimals: cfg.decimals[i] }, vec![coin(1, *d)]);
    }
    let router = must_instantiate(&mut app, rt_code, OWNER, &router::InstantiateMsg { terraswap_factory: pool_factory.clone() }, "router", Some(OWNER));
    let vault_factory = must_instantiate(&mut app, vf_code, OWNER, &vault_factory::InstantiateMsg { owner: OWNER.into(), vault_id: vault_code, token_id: token_code, fee_collector_addr: COLLECTOR.into() }, "vault_factory", Some(OWNER));
    let borrower = must_instantiate(&mut app, b_code, OWNER, &cosmwasm_std::Empty {}, "borrower", None);

    let mut s = Mig {
        cfg: cfg.clone(),
        app,
        assets,
        pool_factory,
        router,
        vault_factory,
        borrower,
        codes: Codes { pair: pair_code, pool_factory: pf_code, vault: vault_code, vault_factory: vf_code },
        hub: None,
        hub_lair: String::new(),
        pairs: vec![],
        vaults: vec![],
        migrated: false,
        migrate_done: false,
        todo: VecDeque::new(),
        pre_left: cfg.pre_steps,
        post_left: cfg.post_steps,
    };
    // the borrower pays the loan fees out of its own pocket
    for i in 0..N_ASSETS {
        let m = if s.is_native(i) { bank_send(&s.borrower, 10u128.pow(28), &asset_id(&s.assets[i])) } else { wasm_exec(&asset_id(&s.assets[i]), &cw20::Cw20ExecuteMsg::Transfer { recipient: s.borrower.clone(), amount: Uint128::new(10u128.pow(28)) }, vec![]) };
        let r = tx(&mut s.app, OWNER, vec![m], Fault::None);
        assert!(r.outcome.is_ok(), "harness: funding the borrower failed: {}", r.outcome.err_text());
    }

    // pairs through the factory
    for pc in &cfg.pairs {
        let infos = [s.assets[pc.a].clone(), s.assets[pc.b].clone()];
        let pair_type = match pc.amp {
            Some(amp) => PairType::StableSwap { amp },
            None => PairType::ConstantProduct,
        };
        must_exec(&mut s.app, OWNER, &s.pool_factory.clone(), &factory::ExecuteMsg::CreatePair { asset_infos: infos.clone(), pool_fees: pair::PoolFee { protocol_fee: fee(&pc.fees[0]), swap_fee: fee(&pc.fees[1]), burn_fee: fee(&pc.fees[2]) }, pair_type, token_factory_lp: false }, vec![]);
        let pi: PairInfo = query(&s.app, &s.pool_factory, &factory::QueryMsg::Pair { asset_infos: infos }).expect("harness: pair not registered");
        let pm = PairM { addr: pi.contract_addr.clone(), lp: asset_id(&pi.liquidity_token), assets: [pc.a, pc.b], bits: 7, stable: pc.amp.is_some() };
        let msgs = s.provide_msgs(&pm, pc.liq);
        let r = tx(&mut s.app, USERS[0], msgs, Fault::None);
        assert!(r.outcome.is_ok(), "harness: initial liquidity failed: {}", r.outcome.err_text());
        s.pairs.push(pm);
    }
    // vaults through the vault factory
    for vc in &cfg.vaults {
        must_exec(&mut s.app, OWNER, &s.vault_factory.clone(), &vault_factory::ExecuteMsg::CreateVault { asset_info: s.assets[vc.asset].clone(), fees: VaultFee { protocol_fee: fee(&vc.fees[0]), flash_loan_fee: fee(&vc.fees[1]), burn_fee: fee(&vc.fees[2]) }, token_factory_lp: false }, vec![]);
        let addr: Option<String> = query(&s.app, &s.vault_factory, &vault_factory::QueryMsg::Vault { asset_info: s.assets[vc.asset].clone() }).expect("harness: vault query");
        let addr = addr.expect("harness: vault not registered");
        let c: vault::Config = query(&s.app, &addr, &vault::QueryMsg::Config {}).expect("harness: vault config");
        let vm = VaultM { addr, lp: asset_id(&c.lp_asset), asset: vc.asset, bits: 7 };
        let msgs = s.deposit_msgs(&vm, vc.deposit);
        let r = tx(&mut s.app, USERS[0], msgs, Fault::None);
        assert!(r.outcome.is_ok(), "harness: initial vault deposit failed: {}", r.outcome.err_text());
        // bobby holds shares as well
        let msgs = s.deposit_msgs(&vm, vc.deposit / 3 + 1000);
        let r = tx(&mut s.app, USERS[1], msgs, Fault::None);
        assert!(r.outcome.is_ok(), "harness: second vault deposit failed: {}", r.outcome.err_text());
        s.vaults.push(vm);
    }
    // bobby holds LP of every pair as well
    for i in 0..s.pairs.len() {
        let p = s.pairs[i].clone();
        let a = [cfg.pairs[i].liq[0] / 5 + 10, cfg.pairs[i].liq[1] / 5 + 10];
        let msgs = s.provide_msgs(&p, a);
        let _ = tx(&mut s.app, USERS[1], msgs, Fault::None);
    }
    // traffic that leaves protocol fees pending
    for (p, side, amount) in &cfg.pre_swaps {
        if let Some(pm) = s.pairs.get(*p).cloned() {
            let m = s.swap_msg(&pm, *side % 2, *amount);
            let r = tx(&mut s.app, USERS[1], vec![m], Fault::None);
            ctx.op("setup_swap", r.outcome.kind());
        }
    }
    for (v, amount) in &cfg.pre_loans {
        if let Some(vm) = s.vaults.get(*v).cloned() {
            let m = s.loan_msg(&vm, *amount);
            let r = tx(&mut s.app, USERS[1], vec![m], Fault::None);
            ctx.op("setup_loan", r.outcome.kind());
        }
    }
    // pause switches set by the operator
    for i in 0..s.pairs.len() {
        let bits = cfg.pairs[i].bits & 7;
        if bits != 7 {
            let m = s.pair_toggle_msg(&s.pairs[i], bits);
            let r = tx(&mut s.app, OWNER, vec![m], Fault::None);
            assert!(r.outcome.is_ok(), "harness: setting pair toggles failed: {}", r.outcome.err_text());
            s.pairs[i].bits = bits;
        }
    }
    for i in 0..s.vaults.len() {
        let bits = cfg.vaults[i].bits & 7;
        if bits != 7 {
            let m = s.vault_toggle_msg(&s.vaults[i], Some(bits & 1 != 0), Some(bits & 2 != 0), Some(bits & 4 != 0));
            let r = tx(&mut s.app, OWNER, vec![m], Fault::None);
            assert!(r.outcome.is_ok(), "harness: setting vault toggles failed: {}", r.outcome.err_text());
            s.vaults[i].bits = bits;
        }
    }
    if cfg.target.is_hub() {
        build_hub(&mut s);
    }
    s
}

/// The hub contract of the Hub* targets (only built in those runs).
fn build_hub(s: &mut Mig) {
    use white_whale_std::{fee_collector as fc, fee_distributor as fd, whale_lair as wl};
    let lair_code = s.app.store_code(code::whale_lair());
    let lair = must_instantiate(&mut s.app, lair_code, OWNER, &wl::InstantiateMsg { unbonding_period: cosmwasm_std::Uint64::new(86_400_000_000_000 * (1 + s.cfg.which as u64)), growth_rate: dec("0.000000001"), bonding_assets: vec![native(NATIVES[0]), native(NATIVES[1])] }, "lair", Some(OWNER));
    s.hub_lair = lair.clone();
    match s.cfg.target {
        Target::HubLair => s.hub = Some((lair, lair_code, "white_whale-whale_lair")),
        Target::HubCollector => {
            let c = s.app.store_code(code::fee_collector());
            let a = must_instantiate(&mut s.app, c, OWNER, &fc::InstantiateMsg {}, "collector", Some(OWNER));
            must_exec(&mut s.app, OWNER, &a, &fc::ExecuteMsg::UpdateConfig { owner: None, pool_router: Some(s.router.clone()), fee_distributor: Some("distributor".into()), pool_factory: Some(s.pool_factory.clone()), vault_factory: Some(s.vault_factory.clone()), take_rate: None, take_rate_dao_address: None, is_take_rate_active: None }, vec![]);
            s.hub = Some((a, c, "white_whale-fee_collector"));
        }
        _ => {
            let c = s.app.store_code(code::fee_distributor());
            let a = must_instantiate(&mut s.app, c, OWNER, &fd::InstantiateMsg { bonding_contract_addr: lair.clone(), fee_collector_addr: COLLECTOR.into(), grace_period: cosmwasm_std::Uint64::new(3), epoch_config: white_whale_std::epoch_manager::epoch_manager::EpochConfig { duration: cosmwasm_std::Uint64::new(86_400_000_000_000), genesis_epoch: cosmwasm_std::Uint64::new(GENESIS_TIME_NS) }, distribution_asset: native(NATIVES[0]) }, "distributor", Some(OWNER));
            // the lair has seen bonding: a non-trivial global index (written directly, the epochs below are synthetic too)
            let k = s.cfg.pre_swaps.first().map(|x| x.2).unwrap_or(1234);
            let mut ld = dump(&s.app, &lair);
            set_item(&mut ld, "global", &json!({"bonded_amount": (k * 3).to_string(), "bonded_assets": [{"info": {"native_token": {"denom": NATIVES[0]}}, "amount": (k * 3).to_string()}], "timestamp": (GENESIS_TIME_NS - 1000).to_string(), "weight": (k * 7).to_string()}));
            restore(&mut s.app, &lair, &ld);
            // 2..4 epochs in the current layout, each with the global index of its own creation time
            let mut d = dump(&s.app, &a);
            let n = 2 + (s.cfg.which as u64 % 3);
            for id in 1..=n {
                let tot = k + id as u128 * 1000;
                let claimed = tot / (id as u128 + 1);
                let whale = |x: u128| json!([{"info": {"native_token": {"denom": NATIVES[0]}}, "amount": x.to_string()}]);
                let mut key = lp(b"epochs");
                key.extend_from_slice(&id.to_be_bytes());
                d.insert(key, serde_json::to_vec(&json!({
                    "id": id.to_string(),
                    "start_time": (GENESIS_TIME_NS - (n - id + 1) * 86_400_000_000_000).to_string(),
                    "total": whale(tot), "available": whale(tot - claimed), "claimed": whale(claimed),
                    "global_index": {"bonded_amount": (k * id as u128).to_string(), "bonded_assets": [{"info": {"native_token": {"denom": NATIVES[0]}}, "amount": (k * id as u128).to_string()}], "timestamp": (GENESIS_TIME_NS - (n - id + 1) * 86_400_000_000_000).to_string(), "weight": (k * id as u128 * 2).to_string()},
                })).unwrap());
            }
            restore(&mut s.app, &a, &d);
            s.hub = Some((a, c, "white_whale-fee_distributor"));
        }
    }
}

fn legacy_hub(d: &Dump, t: Target, name: &str, version: &str) -> Result<Dump, String> {
    let mut out = d.clone();
    let c = item(d, "config").ok_or("no config")?;
    match t {
        Target::HubCollector => set_item(&mut out, "config", &json!({"owner": c["owner"], "pool_router": c["pool_router"], "fee_distributor": c["fee_distributor"], "pool_factory": c["pool_factory"], "vault_factory": c["vault_factory"]})),
        Target::HubLair => set_item(&mut out, "config", &json!({"owner": c["owner"], "unbonding_period": c["unbonding_period"], "growth_rate": c["growth_rate"], "bonding_assets": c["bonding_assets"]})),
        _ => {
            let p = lp(b"epochs");
            for (k, v) in d {
                if k.starts_with(&p) {
                    let e: Value = serde_json::from_slice(v).map_err(|e| format!("epoch: {e}"))?;
                    out.insert(k.clone(), serde_json::to_vec(&json!({"id": e["id"], "start_time": e["start_time"], "total": e["total"], "available": e["available"], "claimed": e["claimed"]})).unwrap());
                }
            }
        }
    }
    set_version(&mut out, name, version);
    Ok(out)
}

impl Mig {
    fn hub_view(&self) -> Value {
        use white_whale_std::{fee_collector as fc, fee_distributor as fd, whale_lair as wl};
        let Some((a, _, _)) = &self.hub else { return Value::Null };
        match self.cfg.target {
            Target::HubCollector => json!({"config": qv(&self.app, a, &fc::QueryMsg::Config {})}),
            Target::HubLair => json!({"config": qv(&self.app, a, &wl::QueryMsg::Config {}), "global": qv(&self.app, a, &wl::QueryMsg::GlobalIndex {})}),
            _ => {
                let mut eps = vec![];
                for id in 1..=5u64 {
                    eps.push(qv(&self.app, a, &fd::QueryMsg::Epoch { id: cosmwasm_std::Uint64::new(id) }));
                }
                json!({"config": qv(&self.app, a, &fd::QueryMsg::Config {}), "current": qv(&self.app, a, &fd::QueryMsg::CurrentEpoch {}), "claimable": qv(&self.app, a, &fd::QueryMsg::ClaimableEpochs {}), "epochs": eps})
            }
        }
    }

    /// The state-converting migrations of the fee collector, the whale lair and the fee distributor. They are
    /// outside C14 / C17 / C19; their checks report under the diagnostic id "MIG".
    fn do_migrate_hub(&mut self, ctx: &mut Ctx) {
        let t = self.cfg.target;
        let Some((addr, code_id, name)) = self.hub.clone() else { return };
        let world_before = self.snapshot();
        let before = self.hub_view();
        let cur = dump(&self.app, &addr);
        let legacy = legacy_hub(&cur, t, name, &self.cfg.version).unwrap_or_else(|e| panic!("harness: legacy layout of {addr}: {e}"));
        restore(&mut self.app, &addr, &legacy);
        let fp_legacy = fingerprint(&self.app);
        let r = tx(&mut self.app, OWNER, vec![migrate_msg(&addr, code_id)], Fault::None);
        let opname = format!("migrate/{t:?}");
        ctx.op(&opname, r.outcome.kind());
        ctx.trace(&format!("{opname}:{}:{}", self.cfg.version, r.outcome.kind()));
        if !r.outcome.is_ok() {
            if fingerprint(&self.app) != fp_legacy {
                ctx.fail("MIG", "refused_migration_no_effect", &format!("{t:?}"), None, "migration failed but the chain state changed".into());
            }
            ctx.fail("MIG", "supported_migration_succeeds", &format!("{t:?}"), None, format!("migration from {} failed: {}", self.cfg.version, r.outcome.err_text()));
            restore(&mut self.app, &addr, &cur);
            return;
        }
        self.migrated = true;
        ctx.probe(match t {
            Target::HubCollector => "fee_collector_migrated_from_below_v1_2_0",
            Target::HubLair => "whale_lair_migrated_from_below_v0_9_0",
            _ => "fee_distributor_migrated_from_below_v0_9_0",
        });
        let after = self.hub_view();
        let mut diff = vec![];
        json_diff(&before, &after, "", &mut diff);
        if t == Target::HubDistributor {
            // every epoch gets the lair's CURRENT global index (documented in migrate_to_v090); the rest is kept
            let g = qv(&self.app, &self.hub_lair, &white_whale_std::whale_lair::QueryMsg::GlobalIndex {});
            let mut n = 0;
            for (i, e) in after["epochs"].as_array().cloned().unwrap_or_default().iter().enumerate() {
                if let Some(ep) = e.get("ok") {
                    // Epoch {id} answers a default epoch (id 0) for an id that does not exist
                    if ep["epoch"]["id"] != json!((i + 1).to_string()) {
                        continue;
                    }
                    n += 1;
                    if Some(&ep["epoch"]["global_index"]) != g.get("ok") {
                        ctx.fail("MIG", "documented_default", "epoch_global_index", None, format!("epoch {} has global index {} after the migration, the lair reports {g}", i + 1, ep["epoch"]["global_index"]));
                    }
                }
            }
            if n >= 2 {
                ctx.probe("distributor_epochs_converted");
            }
            diff.retain(|p| !p.contains("/global_index"));
        }
        if t == Target::HubDistributor {
            // C20: ids and start times of the epochs (and with them the due time of the next one) survive
            // the conversion of the stored epochs
            ctx.eval("C20");
            let clock: Vec<&String> = diff.iter().filter(|p| p.contains("/start_time") || p.ends_with("/id") || p.contains("/epoch_config")).collect();
            if !clock.is_empty() {
                ctx.fail("C20", "epoch_clock_survives_migration", "distributor", None, format!("after migrating the fee distributor from {} the epoch clock changed: {clock:?}: {} -> {}", self.cfg.version, before["epochs"], after["epochs"]));
            }
        }
        if !diff.is_empty() {
            ctx.fail("MIG", "observable_state_preserved", &format!("{t:?}"), None, format!("changed: {diff:?}: {before} -> {after}"));
        }
        if t != Target::HubDistributor {
            let d = dump_diff(&cur, &dump(&self.app, &addr));
            if d.is_empty() {
                ctx.probe("raw_storage_identical_after_roundtrip");
            } else {
                ctx.fail("MIG", "raw_roundtrip", &format!("{t:?}"), None, format!("{addr}: storage items differ from the pre-legacy state: {d:?}"));
            }
        }
        // nothing else on the chain was touched
        let mut wd = vec![];
        json_diff(&world_before, &self.snapshot(), "", &mut wd);
        if !wd.is_empty() {
            ctx.fail("MIG", "observable_state_preserved", "rest_of_the_world", None, format!("changed: {:?}", &wd[..wd.len().min(6)]));
        }
        if t == Target::HubCollector {
            // the migrated collector still collects the pools' pending protocol fees
            use white_whale_std::fee_collector as fc;
            let m = wasm_exec(&addr, &fc::ExecuteMsg::CollectFees { collect_fees_for: fc::FeesFor::Factory { factory_addr: self.pool_factory.clone(), factory_type: fc::FactoryType::Pool { start_after: None, limit: Some(30) } } }, vec![]);
            let r = tx(&mut self.app, OWNER, vec![m], Fault::None);
            ctx.op("collector_collect_fees", r.outcome.kind());
            if !r.outcome.is_ok() {
                ctx.fail("MIG", "migrated_collector_works", "collect_fees", None, r.outcome.err_text());
            }
        }
    }
}

// ---------------------------------------------------------------------------------------------
// oracles that do not change the state
// ---------------------------------------------------------------------------------------------

fn same_set(x: &[AssetInfo; 2], y: &[AssetInfo; 2]) -> bool {
    (x[0] == y[0] && x[1] == y[1]) || (x[0] == y[1] && x[1] == y[0])
}

fn pair_info_diff(reg: &PairInfo, child: &PairInfo) -> Option<&'static str> {
    if reg.contract_addr != child.contract_addr {
        Some("address")
    } else if reg.asset_infos != child.asset_infos {
        Some("assets")
    } else if reg.asset_decimals != child.asset_decimals {
        Some("decimals")
    } else if reg.pair_type != child.pair_type {
        Some("pair_type")
    } else if reg.liquidity_token != child.liquidity_token {
        Some("lp_token")
    } else {
        None
    }
}

impl Mig {
    /// C19: every registry entry equals what the child reports, in both asset orders; the paginated
    /// listing returns every registered pair exactly once.
    fn check_registry(&self, ctx: &mut Ctx, limit: Option<u32>, when: &str) {
        ctx.eval("C19");
        let mut children: Vec<Option<PairInfo>> = vec![];
        for (i, p) in self.pairs.iter().enumerate() {
            let child: Result<PairInfo, String> = query(&self.app, &p.addr, &pair::QueryMsg::Pair {});
            let infos = [self.assets[p.assets[0]].clone(), self.assets[p.assets[1]].clone()];
            match &child {
                Err(e) => ctx.fail("C19", "registry_eq_child", "child_query_failed", None, format!("{when}: pair {i} ({}) does not answer Pair {{}}: {e}", p.addr)),
                Ok(c) => {
                    // the child is the contract registered for this asset set: it reports its own address
                    if c.contract_addr != p.addr {
                        ctx.fail("C19", "registry_eq_child", "child_reports_foreign_address", None, format!("{when}: pair {i} at {} reports contract_addr {}", p.addr, c.contract_addr));
                    }
                    for (name, order) in [("fwd", infos.clone()), ("rev", [infos[1].clone(), infos[0].clone()])] {
                        match query::<PairInfo, _>(&self.app, &self.pool_factory, &factory::QueryMsg::Pair { asset_infos: order }) {
                            Err(e) => ctx.fail("C19", "registry_lookup", "registered_pair_not_found", None, format!("{when}: factory Pair({name}) for pair {i} failed: {e}")),
                            Ok(r) => {
                                if let Some(f) = pair_info_diff(&r, c) {
                                    ctx.fail("C19", "registry_eq_child", f, None, format!("{when}: factory entry ({name}) {r:?} != child report {c:?}"));
                                }
                            }
                        }
                    }
                }
            }
            children.push(child.ok());
        }
        // paginated walk
        let mut seen: Vec<PairInfo> = vec![];
        let mut cursor: Option<[AssetInfo; 2]> = None;
        for _ in 0..64 {
            let page: Result<factory::PairsResponse, String> = query(&self.app, &self.pool_factory, &factory::QueryMsg::Pairs { start_after: cursor.clone(), limit });
            match page {
                Err(e) => {
                    ctx.fail("C19", "pagination", "listing_failed", None, format!("{when}: Pairs(start_after {cursor:?}, limit {limit:?}) failed: {e}"));
                    return;
                }
                Ok(pg) => {
                    if pg.pairs.is_empty() {
                        break;
                    }
                    cursor = pg.pairs.last().map(|p| p.asset_infos.clone());
                    let n = pg.pairs.len();
                    seen.extend(pg.pairs);
                    if n < limit.unwrap_or(10).min(30) as usize {
                        break;
                    }
                }
            }
        }
        for (i, p) in self.pairs.iter().enumerate() {
            let infos = [self.assets[p.assets[0]].clone(), self.assets[p.assets[1]].clone()];
            let hits: Vec<&PairInfo> = seen.iter().filter(|x| same_set(&x.asset_infos, &infos)).collect();
            if hits.len() != 1 {
                ctx.fail("C19", "pagination", if hits.is_empty() { "entry_missing" } else { "entry_repeated" }, None, format!("{when}: pair {i} appears {} times in the listing walked with limit {limit:?}", hits.len()));
            } else if let Some(c) = &children[i] {
                if let Some(f) = pair_info_diff(hits[0], c) {
                    ctx.fail("C19", "listing_eq_child", f, None, format!("{when}: listed entry {:?} != child report {c:?}", hits[0]));
                }
            }
        }
        if seen.len() != self.pairs.len() {
            ctx.fail("C19", "pagination", "unexpected_entries", None, format!("{when}: listing has {} entries, {} pairs are registered", seen.len(), self.pairs.len()));
        }
    }

    /// C19 for the vault factory: one vault per asset, the entry names the vault whose Config reports that asset
    fn check_vault_registry(&self, ctx: &mut Ctx, limit: Option<u32>, when: &str) {
        ctx.eval("C19");
        let mut seen: Vec<vault_factory::VaultInfo> = vec![];
        let mut cursor: Option<Vec<u8>> = None;
        for _ in 0..64 {
            let page: Result<vault_factory::VaultsResponse, String> = query(&self.app, &self.vault_factory, &vault_factory::QueryMsg::Vaults { start_after: cursor.clone(), limit });
            match page {
                Err(e) => {
                    ctx.fail("C19", "vault_pagination", "listing_failed", None, format!("{when}: Vaults(limit {limit:?}) failed: {e}"));
                    return;
                }
                Ok(pg) => {
                    if pg.vaults.is_empty() {
                        break;
                    }
                    cursor = pg.vaults.last().map(|v| v.asset_info_reference.clone());
                    let n = pg.vaults.len();
                    seen.extend(pg.vaults);
                    if n < limit.unwrap_or(10).min(30) as usize {
                        break;
                    }
                }
            }
        }
        for (i, v) in self.vaults.iter().enumerate() {
            let info = self.assets[v.asset].clone();
            match query::<Option<String>, _>(&self.app, &self.vault_factory, &vault_factory::QueryMsg::Vault { asset_info: info.clone() }) {
                Ok(Some(a)) if a == v.addr => {}
                other => ctx.fail("C19", "vault_registry_lookup", "wrong_or_missing", None, format!("{when}: Vault({info:?}) = {other:?}, the vault is {}", v.addr)),
            }
            let child: Result<vault::Config, String> = query(&self.app, &v.addr, &vault::QueryMsg::Config {});
            let hits: Vec<&vault_factory::VaultInfo> = seen.iter().filter(|x| x.vault == v.addr).collect();
            if hits.len() != 1 {
                ctx.fail("C19", "vault_pagination", if hits.is_empty() { "entry_missing" } else { "entry_repeated" }, None, format!("{when}: vault {i} appears {} times in the listing (limit {limit:?})", hits.len()));
            } else {
                match child {
                    Ok(c) => {
                        if hits[0].asset_info != c.asset_info {
                            ctx.fail("C19", "vault_registry_eq_child", "asset", None, format!("{when}: listed asset {:?} but the vault reports {:?}", hits[0].asset_info, c.asset_info));
                        }
                    }
                    Err(e) => ctx.fail("C19", "vault_registry_eq_child", "child_query_failed", None, format!("{when}: vault {i} Config failed: {e}")),
                }
            }
        }
        if seen.len() != self.vaults.len() {
            ctx.fail("C19", "vault_pagination", "unexpected_entries", None, format!("{when}: listing has {} entries, {} vaults are registered", seen.len(), self.vaults.len()));
        }
    }

    /// C17: every switch reads what the operator last set
    fn check_flags(&self, ctx: &mut Ctx, when: &str) {
        ctx.eval("C17");
        const NAMES: [&str; 3] = ["deposit_switch", "withdraw_switch", "swap_or_loan_switch"];
        for (i, p) in self.pairs.iter().enumerate() {
            match self.pair_flags(p) {
                Ok(f) => {
                    for b in 0..3 {
                        if (f >> b) & 1 != (p.bits >> b) & 1 {
                            ctx.fail("C17", "pair_switch_as_set", NAMES[b], None, format!("{when}: pair {i} reports switches {f:03b}, the operator set {:03b}", p.bits));
                        }
                    }
                }
                Err(e) => ctx.fail("C17", "pair_switch_as_set", "config_query_failed", None, format!("{when}: pair {i}: {e}")),
            }
        }
        for (i, v) in self.vaults.iter().enumerate() {
            match self.vault_flags(v) {
                Ok(f) => {
                    for b in 0..3 {
                        if (f >> b) & 1 != (v.bits >> b) & 1 {
                            ctx.fail("C17", "vault_switch_as_set", NAMES[b], None, format!("{when}: vault {i} reports switches {f:03b} (bit0 deposit, bit1 withdraw, bit2 flash loan), the operator set {:03b}", v.bits));
                        }
                    }
                }
                Err(e) => ctx.fail("C17", "vault_switch_as_set", "config_query_failed", None, format!("{when}: vault {i}: {e}")),
            }
        }
    }
}

// ---------------------------------------------------------------------------------------------
// the migration itself
// ---------------------------------------------------------------------------------------------

fn migrate_msg(contract: &str, code_id: u64) -> CosmosMsg {
    CosmosMsg::Wasm(WasmMsg::Migrate { contract_addr: contract.to_string(), new_code_id: code_id, msg: to_json_binary(&cosmwasm_std::Empty {}).unwrap() })
}

impl Mig {
    fn do_migrate(&mut self, ctx: &mut Ctx) {
        if self.migrate_done {
            return;
        }
        self.migrate_done = true;
        let t = self.cfg.target;
        if t.is_hub() {
            self.do_migrate_hub(ctx);
            return;
        }
        let before = self.snapshot();
        // which contracts are rewritten
        let subjects: Vec<(String, String)> = match t {
            _ if t.is_pair() => self.pairs.get(self.cfg.which).map(|p| vec![(p.addr.clone(), self.cfg.version.clone())]).unwrap_or_default(),
            _ if t.is_factory() => vec![(self.pool_factory.clone(), self.cfg.version.clone())],
            _ if t.is_vault() => (0..self.vaults.len()).filter(|i| self.is_target_vault(*i)).map(|i| (self.vaults[i].addr.clone(), self.cfg.vaults[i].version.clone())).collect(),
            _ => vec![(self.vault_factory.clone(), self.cfg.version.clone())],
        };
        if subjects.is_empty() {
            return;
        }
        let mut backups: Vec<(String, Dump)> = vec![];
        for (addr, version) in &subjects {
            let cur = dump(&self.app, addr);
            let legacy = if t.is_pair() {
                legacy_pair(&cur, t, version)
            } else if t.is_factory() {
                legacy_factory(&cur, t, version)
            } else if t.is_vault() {
                legacy_vault(&cur, t, version)
            } else {
                legacy_vault_factory(&cur, t, version)
            };
            let legacy = match legacy {
                Ok(l) => l,
                Err(e) => panic!("harness: cannot write the legacy layout of {addr}: {e}"),
            };
            restore(&mut self.app, addr, &legacy);
            backups.push((addr.clone(), cur));
        }
        let fp_legacy = fingerprint(&self.app);
        let legacy_dumps: Vec<Dump> = subjects.iter().map(|(a, _)| dump(&self.app, a)).collect();

        // the real migration, sent by the wasm admin
        let (sender, msgs): (String, Vec<CosmosMsg>) = match t {
            Target::PairBump => (
                OWNER.into(),
                vec![wasm_exec(&self.pool_factory, &factory::ExecuteMsg::MigratePair { contract: subjects[0].0.clone(), code_id: if self.cfg.code_id_explicit { Some(self.codes.pair) } else { None } }, vec![])],
            ),
            // the factory's MigratePair first asks the pair for Pool {}, which only the pair's OLD code could
            // answer on its old layout; the factory is the wasm admin, so its WasmMsg::Migrate is sent directly
            _ if t.is_pair() => (self.pool_factory.clone(), vec![migrate_msg(&subjects[0].0, self.codes.pair)]),
            _ if t.is_factory() => (OWNER.into(), vec![migrate_msg(&self.pool_factory, self.codes.pool_factory)]),
            _ if t.is_vault() => {
                let all = self.cfg.all_vaults && subjects.len() == self.vaults.len();
                let msgs = if all {
                    vec![wasm_exec(&self.vault_factory, &vault_factory::ExecuteMsg::MigrateVaults { vault_addr: None, vault_code_id: self.codes.vault }, vec![])]
                } else {
                    subjects.iter().map(|(a, _)| wasm_exec(&self.vault_factory, &vault_factory::ExecuteMsg::MigrateVaults { vault_addr: Some(a.clone()), vault_code_id: self.codes.vault }, vec![])).collect()
                };
                (OWNER.into(), msgs)
            }
            _ => (OWNER.into(), vec![migrate_msg(&self.vault_factory, self.codes.vault_factory)]),
        };
        let r = tx(&mut self.app, &sender, msgs, Fault::None);
        let opname = format!("migrate/{t:?}");
        ctx.op(&opname, r.outcome.kind());
        ctx.trace(&format!("{opname}:{}:{}", self.cfg.version, r.outcome.kind()));

        let undo = |s: &mut Mig| {
            for (a, d) in &backups {
                restore(&mut s.app, a, d);
            }
        };

        if !r.outcome.is_ok() {
            let e = r.outcome.err_text();
            // a refused migration must leave everything as it was
            if fingerprint(&self.app) != fp_legacy {
                ctx.fail("MIG", "refused_migration_no_effect", &format!("{t:?}"), None, format!("migration failed ({e}) but the chain state changed"));
            }
            if t == Target::PairV110True {
                // migrate_to_v120 loads pair_info with the CURRENT struct: a genuine 1.1.0 pair cannot be migrated
                ctx.probe("pair_true_v1_1_0_layout_migration_refused");
            } else {
                ctx.probe(&format!("migration_refused/{t:?}"));
                ctx.fail("MIG", "supported_migration_succeeds", &format!("{t:?}"), None, format!("migration from {} failed: {e}", self.cfg.version));
            }
            undo(self);
            return;
        }

        let after_dumps: Vec<Dump> = subjects.iter().map(|(a, _)| dump(&self.app, a)).collect();
        match t {
            Target::PairV104 => {
                // only the casing step runs: the record must now be the snake_case four-field record with the same
                // values; the pair is left in the 1.1.0 layout under the current version number (unusable), so the
                // harness puts the current layout back afterwards
                ctx.probe("pair_migrated_from_v1_0_x_casing_only");
                let want = item(&backups[0].1, "pair_info").and_then(|c| old_pair_info(&c, false).ok());
                let got = item(&after_dumps[0], "pair_info");
                if want != got {
                    ctx.fail("MIG", "pair_v110_casing", "pair_info_values", None, format!("after migrate_to_v110 pair_info = {got:?}, expected {want:?}"));
                }
                let d = dump_diff(&legacy_dumps[0], &after_dumps[0]);
                if d.iter().any(|k| k != "~pair_info" && k != "~contract_info") {
                    ctx.fail("MIG", "pair_v110_casing", "other_items_touched", None, format!("items changed: {d:?}"));
                }
                if query::<PairInfo, _>(&self.app, &subjects[0].0, &pair::QueryMsg::Pair {}).is_err() {
                    ctx.probe("pair_after_v1_0_x_migration_unusable_until_restored");
                }
                undo(self);
                return;
            }
            Target::PairV110True => {
                ctx.probe("pair_true_v1_1_0_layout_migration_accepted");
                if query::<PairInfo, _>(&self.app, &subjects[0].0, &pair::QueryMsg::Pair {}).is_err() {
                    ctx.probe("pair_after_true_v1_1_0_migration_unusable_until_restored");
                    undo(self);
                    return;
                }
            }
            _ => {}
        }
        self.migrated = true;
        ctx.probe(&match t {
            Target::PairV120 => "pair_migrated_from_v1_2_0".to_string(),
            Target::PairV110 | Target::PairV110True => "pair_migrated_from_v1_1_0".to_string(),
            Target::PairBump => "pair_version_only_migration_via_factory".to_string(),
            Target::FactoryV11x => "factory_migrated_from_v1_1_x".to_string(),
            Target::FactoryV108 => "factory_migrated_from_v1_0_x".to_string(),
            Target::FactoryBump => "factory_version_only_migration".to_string(),
            Target::VaultV113 => if self.cfg.vaults.iter().any(|v| v.version == "1.1.3") { "vault_migrated_from_v1_1_3".to_string() } else { "vault_migrated_from_below_v1_1_3".to_string() },
            Target::VaultBump => "vault_version_only_migration".to_string(),
            Target::VaultFactoryV109 => "vault_factory_migrated_from_v1_0_9_or_below".to_string(),
            Target::VaultFactoryBump => "vault_factory_version_only_migration".to_string(),
            _ => unreachable!(),
        });
        if t == Target::VaultV113 {
            ctx.probe(if subjects.len() > 1 { "several_vaults_migrated_at_once" } else { "single_vault_migrated" });
            for i in 0..self.vaults.len() {
                if self.is_target_vault(i) {
                    ctx.probe(&format!("vault_migrated_with_switches_{:03b}", self.vaults[i].bits));
                }
            }
        }

        // raw storage: the migration must be the exact inverse of the legacy writer (documented defaults aside)
        for (k, (addr, _)) in subjects.iter().enumerate() {
            let mut d = dump_diff(&backups[k].1, &after_dumps[k]);
            d.retain(|x| match t {
                Target::FactoryV11x | Target::FactoryV108 => x != "~config",
                Target::VaultFactoryV109 => x != "-tmp_vault_asset",
                _ => true,
            });
            if d.is_empty() {
                ctx.probe("raw_storage_identical_after_roundtrip");
            } else {
                ctx.probe("raw_storage_differs_after_roundtrip");
                ctx.fail("MIG", "raw_roundtrip", &format!("{t:?}"), None, format!("{addr}: storage items differ from the pre-legacy state: {d:?}"));
            }
        }

        // observable state: everything is what it was; new fields take the documented defaults
        let after = self.snapshot();
        let mut diff = vec![];
        json_diff(&before, &after, "", &mut diff);
        if matches!(t, Target::FactoryV11x | Target::FactoryV108) {
            diff.retain(|p| p != "/factory/config/ok/trio_code_id");
            let tc = after["factory"]["config"]["ok"]["trio_code_id"].clone();
            if tc != json!(0) {
                ctx.fail("MIG", "documented_default", "trio_code_id", None, format!("trio_code_id after the 1.2.0 migration is {tc}, documented default 0"));
            }
        }
        if !diff.is_empty() {
            let show: Vec<String> = diff.iter().take(6).map(|p| {
                let get = |v: &Value| { let mut c = v; for k in p.split('/').skip(1) { c = match c { Value::Array(a) => k.parse::<usize>().ok().and_then(|i| a.get(i)).unwrap_or(&Value::Null), _ => c.get(k).unwrap_or(&Value::Null) }; } c.to_string() };
                format!("{p}: {} -> {}", get(&before), get(&after))
            }).collect();
            ctx.fail("MIG", "observable_state_preserved", &format!("{t:?}"), None, format!("{} observables changed: {show:?}", diff.len()));
            // attribute the parts the three properties speak about
            if diff.iter().any(|p| p.starts_with("/factory/pairs") || p.starts_with("/factory/listing")) {
                ctx.probe("registry_answers_changed_by_migration");
            }
        }
        ctx.state_of(&format!("{t:?}:{}:{:?}:{:?}", self.cfg.version, self.pairs.iter().map(|p| p.bits).collect::<Vec<_>>(), self.vaults.iter().map(|v| v.bits).collect::<Vec<_>>()));
        // property oracles right after the migration
        self.check_registry(ctx, Some(30), "after migration");
        self.check_vault_registry(ctx, Some(30), "after migration");
        self.check_flags(ctx, "after migration");
    }
}

// ---------------------------------------------------------------------------------------------
// operations with their oracles
// ---------------------------------------------------------------------------------------------

impl Mig {
    /// C17 verdict of one operation that needs the switches `need` of the contract whose switches are `bits`
    #[allow(clippy::too_many_arguments)]
    fn judge_toggle(&self, ctx: &mut Ctx, r: &TxResult, enabled: bool, safe: bool, fp0: [u8; 32], opname: &str, bits: u8) -> bool {
        ctx.eval("C17");
        let e = r.outcome.err_text();
        if !enabled {
            ctx.probe(if self.migrated { "disabled_op_attempted_after_migration" } else { "disabled_op_attempted" });
            if r.outcome.is_ok() {
                ctx.fail("C17", "disabled_op_rejected", opname, None, format!("{opname} succeeded although its operation is disabled (switches {bits:03b}, migrated {})", self.migrated));
            } else if fingerprint(&self.app) != fp0 {
                ctx.fail("C17", "disabled_op_no_effect", opname, None, format!("{opname} was rejected but the chain state changed"));
            }
            return false;
        }
        if !r.outcome.is_ok() {
            if is_disabled_error(&e) {
                ctx.fail("C17", "enabled_op_not_refused_as_disabled", opname, None, format!("{opname} refused as disabled although its switch is on (switches {bits:03b}, migrated {}): {e}", self.migrated));
            } else if safe && !e.contains("Spread limit exceeded") {
                ctx.fail("C17", "other_ops_keep_working", opname, None, format!("{opname} failed with its switch on (switches {bits:03b}, migrated {}): {e}", self.migrated));
            } else {
                ctx.probe(&format!("{opname}_failed_for_other_reason"));
            }
            return false;
        }
        ctx.probe(if self.migrated { "enabled_op_succeeded_after_migration" } else { "enabled_op_succeeded" });
        true
    }

    fn do_swap(&mut self, ctx: &mut Ctx, pi: usize, side: usize, amount: u128, ui: usize) {
        let Some(p) = self.pairs.get(pi).cloned() else { return };
        let side = side % 2;
        let (o, a) = (p.assets[side], p.assets[1 - side]);
        let who = USERS[ui % 2];
        let enabled = p.bits & 4 != 0;
        let res = self.reserves(&p);
        let safe = !p.stable && res.map(|r| amount >= 1000 && amount <= r[side] / 40 && r[1 - side] >= 100_000).unwrap_or(false) && amount <= self.bal(who, o);
        let quote: Result<pair::SimulationResponse, String> = query(&self.app, &p.addr, &pair::QueryMsg::Simulation { offer_asset: self.asset(o, amount) });
        let pend0 = [self.pending(&p, o), self.pending(&p, a)];
        let b0 = [self.bal(who, o), self.bal(who, a), self.bal(&p.addr, o), self.bal(&p.addr, a)];
        let fp0 = fingerprint(&self.app);
        let m = self.swap_msg(&p, side, amount);
        let r = tx(&mut self.app, who, vec![m], Fault::None);
        let opname = if self.is_native(o) { "pair_swap_native" } else { "pair_swap_cw20_hook" };
        ctx.op(opname, r.outcome.kind());
        ctx.trace(&format!("{opname}:{pi}:{side}:{amount}:{}", r.outcome.kind()));
        if !self.judge_toggle(ctx, &r, enabled, safe, fp0, opname, p.bits) {
            return;
        }
        // ---- C14: the quote is what the swap did
        ctx.eval("C14");
        if self.migrated && (self.is_target_pair(pi) || self.cfg.target.is_factory()) {
            ctx.probe("swap_vs_simulation_after_migration");
        }
        let q = match quote {
            Ok(q) => q,
            Err(e) => {
                ctx.fail("C14", "quote_exists", "swap_ok_but_simulation_fails", None, format!("pair {pi} ({}): swap of {amount} of side {side} succeeded but Simulation failed: {e} (migrated {})", p.addr, self.migrated));
                return;
            }
        };
        let at = |k: &str| r.outcome.attr(k).and_then(|x| x.parse::<u128>().ok());
        for (k, v) in [
            ("return_amount", q.return_amount.u128()),
            ("spread_amount", q.spread_amount.u128()),
            ("swap_fee_amount", q.swap_fee_amount.u128()),
            ("protocol_fee_amount", q.protocol_fee_amount.u128()),
            ("burn_fee_amount", q.burn_fee_amount.u128()),
        ] {
            if at(k) != Some(v) {
                ctx.fail("C14", "sim_eq_exec_attrs", k, None, format!("pair {pi}: swap of {amount} (side {side}): executed {k} = {:?}, Simulation said {v} (migrated {})", at(k), self.migrated));
            }
        }
        let (ret, burn, prot) = (q.return_amount.u128(), q.burn_fee_amount.u128(), q.protocol_fee_amount.u128());
        let b1 = [self.bal(who, o), self.bal(who, a), self.bal(&p.addr, o), self.bal(&p.addr, a)];
        if b0[0].saturating_sub(b1[0]) != amount || b1[1].saturating_sub(b0[1]) != ret {
            ctx.fail("C14", "sim_eq_exec_transfers", "user_deltas", None, format!("pair {pi}: swap of {amount}: trader paid {} and received {}, Simulation said {ret} (migrated {})", b0[0].saturating_sub(b1[0]), b1[1].saturating_sub(b0[1]), self.migrated));
        }
        if b1[2].saturating_sub(b0[2]) != amount || b0[3].saturating_sub(b1[3]) != ret.saturating_add(burn) {
            ctx.fail("C14", "sim_eq_exec_transfers", "pool_deltas", None, format!("pair {pi}: pool received {} and paid {}, offer {amount}, quoted return {ret} + burn {burn}", b1[2].saturating_sub(b0[2]), b0[3].saturating_sub(b1[3])));
        }
        let pend1 = [self.pending(&p, o), self.pending(&p, a)];
        if let (Some(x0), Some(y0), Some(x1), Some(y1)) = (pend0[0], pend0[1], pend1[0], pend1[1]) {
            if x1 != x0 || y1 != y0.saturating_add(prot) {
                ctx.fail("C14", "sim_eq_exec_ledger", "protocol_fee_recorded", None, format!("pair {pi}: pending fees ({x0},{y0}) -> ({x1},{y1}), quoted protocol fee {prot}"));
            }
        }
        ctx.state_of(&format!("swap:{pi}:{:?}:{:?}", self.reserves(&p), pend1));
    }

    fn do_route(&mut self, ctx: &mut Ctx, hops: &[(usize, usize)], amount: u128, ui: usize) {
        if hops.is_empty() || hops.len() > 3 {
            return;
        }
        let who = USERS[ui % 2];
        let mut ops = vec![];
        let mut enabled = true;
        let mut safe = true;
        let mut cur: Option<usize> = None;
        let mut min_bits = 7u8;
        for (pi, side) in hops {
            let Some(p) = self.pairs.get(*pi) else { return };
            let (o, a) = (p.assets[side % 2], p.assets[1 - side % 2]);
            if let Some(c) = cur {
                if c != o {
                    return;
                }
            }
            cur = Some(a);
            if p.bits & 4 == 0 {
                enabled = false;
                min_bits &= p.bits;
            }
            if p.stable {
                safe = false;
            }
            match self.reserves(p) {
                Some(r) => {
                    if r[0] < 1_000_000 || r[1] < 1_000_000 {
                        safe = false;
                    }
                }
                None => safe = false,
            }
            ops.push(SwapOperation::TerraSwap { offer_asset_info: self.assets[o].clone(), ask_asset_info: self.assets[a].clone() });
        }
        let first = self.pairs[hops[0].0].assets[hops[0].1 % 2];
        let last = cur.unwrap();
        // a multi-hop route is only "constructed to succeed" when the first hop is small; later hops may
        // meet shallow pools, so only single hops count as must-succeed
        let r0 = self.reserves(&self.pairs[hops[0].0]).map(|r| r[hops[0].1 % 2]).unwrap_or(0);
        let safe = safe && hops.len() == 1 && amount >= 1000 && amount <= r0 / 40 && amount <= self.bal(who, first);
        let quote: Result<router::SimulateSwapOperationsResponse, String> = query(&self.app, &self.router, &router::QueryMsg::SimulateSwapOperations { offer_amount: Uint128::new(amount), operations: ops.clone() });
        let b0 = self.bal(who, last);
        let rb0: Vec<u128> = (0..N_ASSETS).map(|i| self.bal(&self.router, i)).collect();
        let fp0 = fingerprint(&self.app);
        let m = if self.is_native(first) {
            wasm_exec(&self.router, &router::ExecuteMsg::ExecuteSwapOperations { operations: ops, minimum_receive: None, to: None, max_spread: Some(Decimal::percent(50)) }, self.funds(&[(first, amount)]))
        } else {
            wasm_exec(
                &asset_id(&self.assets[first]),
                &cw20::Cw20ExecuteMsg::Send { contract: self.router.clone(), amount: Uint128::new(amount), msg: to_json_binary(&router::Cw20HookMsg::ExecuteSwapOperations { operations: ops, minimum_receive: None, to: None, max_spread: Some(Decimal::percent(50)) }).unwrap() },
                vec![],
            )
        };
        let r = tx(&mut self.app, who, vec![m], Fault::None);
        let opname = if self.is_native(first) { "router_swap_native" } else { "router_swap_cw20_hook" };
        ctx.op(opname, r.outcome.kind());
        ctx.trace(&format!("{opname}:{hops:?}:{amount}:{}", r.outcome.kind()));
        if !self.judge_toggle(ctx, &r, enabled, safe, fp0, opname, min_bits) {
            return;
        }
        ctx.eval("C14");
        if self.migrated {
            ctx.probe("router_swap_vs_simulation_after_migration");
        }
        let mut prev = b0;
        if last == first {
            prev = prev.saturating_sub(amount);
        }
        let delta = self.bal(who, last).saturating_sub(prev);
        match quote {
            Ok(q) => {
                if q.amount.u128() != delta {
                    ctx.fail("C14", "router_sim_eq_exec", "receiver_delta", None, format!("route {hops:?} offer {amount}: SimulateSwapOperations said {} but the receiver got {delta} (migrated {})", q.amount, self.migrated));
                }
            }
            Err(e) => ctx.fail("C14", "router_sim_eq_exec", "sim_failed_exec_ok", None, format!("route {hops:?} offer {amount}: simulation failed ({e}) but execution succeeded (migrated {})", self.migrated)),
        }
        let rb1: Vec<u128> = (0..N_ASSETS).map(|i| self.bal(&self.router, i)).collect();
        if rb1 != rb0 {
            ctx.fail("C14", "router_keeps_nothing", "after", None, format!("router balances {rb0:?} -> {rb1:?} after a swap"));
        }
        ctx.state_of(&format!("route:{hops:?}:{delta}"));
    }

    /// A stranger sends both pool assets to an address that has nothing to do with the pool's reserves.
    fn do_park(&mut self, ctx: &mut Ctx, pi: usize, place: u8, amounts: [u128; 2]) {
        let Some(p) = self.pairs.get(pi).cloned() else { return };
        let to = match place % 4 {
            0 => p.lp.clone(),
            1 => BYSTANDER.to_string(),
            2 => self.pool_factory.clone(),
            _ => self.vault_factory.clone(),
        };
        let pool0 = qv(&self.app, &p.addr, &pair::QueryMsg::Pool {});
        let mut msgs = vec![];
        for k in 0..2 {
            if amounts[k] == 0 {
                continue;
            }
            let i = p.assets[k];
            msgs.push(if self.is_native(i) { bank_send(&to, amounts[k], &asset_id(&self.assets[i])) } else { wasm_exec(&asset_id(&self.assets[i]), &cw20::Cw20ExecuteMsg::Transfer { recipient: to.clone(), amount: Uint128::new(amounts[k]) }, vec![]) });
        }
        if msgs.is_empty() {
            return;
        }
        let r = tx(&mut self.app, STRANGER, msgs, Fault::None);
        ctx.op("stranger_parks_coins", r.outcome.kind());
        ctx.trace(&format!("park:{pi}:{place}:{}", r.outcome.kind()));
        if r.outcome.is_ok() {
            ctx.probe(match place % 4 { 0 => "coins_parked_at_lp_token_address", 1 => "coins_parked_at_bystander", 2 => "coins_parked_at_pool_factory", _ => "coins_parked_at_vault_factory" });
            // the reserves the pool reports are its own balances, not somebody else's
            let pool1 = qv(&self.app, &p.addr, &pair::QueryMsg::Pool {});
            if pool0 != pool1 {
                ctx.fail("MIG", "pool_answer_independent_of_foreign_balances", "pool", None, format!("Pool {{}} of pair {pi} changed from {pool0} to {pool1} when coins were sent to {to}"));
            }
        }
    }

    fn do_provide(&mut self, ctx: &mut Ctx, pi: usize, amounts: [u128; 2], ui: usize) {
        let Some(p) = self.pairs.get(pi).cloned() else { return };
        let who = USERS[ui % 2];
        let enabled = p.bits & 1 != 0;
        let safe = !p.stable && self.reserves(&p).map(|r| r[0] >= 1_000_000 && r[1] >= 1_000_000 && amounts[0] >= r[0] / 1000 && amounts[1] >= r[1] / 1000).unwrap_or(false);
        let fp0 = fingerprint(&self.app);
        let lp0 = balance(&self.app, who, &token(&p.lp));
        let msgs = self.provide_msgs(&p, amounts);
        let r = tx(&mut self.app, who, msgs, Fault::None);
        ctx.op("pair_provide", r.outcome.kind());
        ctx.trace(&format!("provide:{pi}:{amounts:?}:{}", r.outcome.kind()));
        if self.judge_toggle(ctx, &r, enabled, safe, fp0, "pair_provide", p.bits) {
            let lp1 = balance(&self.app, who, &token(&p.lp));
            ctx.state_of(&format!("provide:{pi}:{}", lp1.saturating_sub(lp0)));
        }
    }

    fn do_withdraw(&mut self, ctx: &mut Ctx, pi: usize, amount: u128, ui: usize) {
        let Some(p) = self.pairs.get(pi).cloned() else { return };
        let who = USERS[ui % 2];
        let enabled = p.bits & 2 != 0;
        let have = balance(&self.app, who, &token(&p.lp));
        let safe = amount >= 10_000 && amount <= have;
        let fp0 = fingerprint(&self.app);
        let m = wasm_exec(&p.lp, &cw20::Cw20ExecuteMsg::Send { contract: p.addr.clone(), amount: Uint128::new(amount), msg: to_json_binary(&pair::Cw20HookMsg::WithdrawLiquidity {}).unwrap() }, vec![]);
        let r = tx(&mut self.app, who, vec![m], Fault::None);
        ctx.op("pair_withdraw_cw20_hook", r.outcome.kind());
        ctx.trace(&format!("withdraw:{pi}:{amount}:{}", r.outcome.kind()));
        if self.judge_toggle(ctx, &r, enabled, safe, fp0, "pair_withdraw_cw20_hook", p.bits) {
            ctx.state_of(&format!("withdraw:{pi}:{:?}", self.reserves(&p)));
        }
    }

    fn do_set_pair_toggles(&mut self, ctx: &mut Ctx, pi: usize, bits: u8) {
        let Some(p) = self.pairs.get(pi).cloned() else { return };
        let bits = bits & 7;
        let m = self.pair_toggle_msg(&p, bits);
        let r = tx(&mut self.app, OWNER, vec![m], Fault::None);
        ctx.op("set_pair_toggles", r.outcome.kind());
        ctx.trace(&format!("set_pair_toggles:{pi}:{bits}:{}", r.outcome.kind()));
        ctx.eval("C17");
        if !r.outcome.is_ok() {
            ctx.fail("C17", "toggle_update", "owner_update_failed", None, format!("setting switches {bits:03b} on pair {pi} through the factory failed (migrated {}): {}", self.migrated, r.outcome.err_text()));
            return;
        }
        self.pairs[pi].bits = bits;
        self.check_flags(ctx, "after a switch update");
    }

    fn do_set_vault_toggles(&mut self, ctx: &mut Ctx, vi: usize, bits: u8, partial: bool) {
        let Some(v) = self.vaults.get(vi).cloned() else { return };
        let bits = bits & 7;
        let pick = |b: u8| -> Option<bool> {
            let want = bits & b != 0;
            if partial && (v.bits & b != 0) == want { None } else { Some(want) }
        };
        let m = self.vault_toggle_msg(&v, pick(1), pick(2), pick(4));
        let r = tx(&mut self.app, OWNER, vec![m], Fault::None);
        ctx.op("set_vault_toggles", r.outcome.kind());
        ctx.trace(&format!("set_vault_toggles:{vi}:{bits}:{partial}:{}", r.outcome.kind()));
        ctx.eval("C17");
        if !r.outcome.is_ok() {
            ctx.fail("C17", "toggle_update", "owner_update_failed", None, format!("setting switches {bits:03b} on vault {vi} through the factory failed (migrated {}): {}", self.migrated, r.outcome.err_text()));
            return;
        }
        self.vaults[vi].bits = bits;
        self.check_flags(ctx, "after a switch update");
    }

    /// C19: a second pair for a registered asset set is refused, in either asset order
    fn do_create_dup(&mut self, ctx: &mut Ctx, pi: usize, rev: bool) {
        let Some(p) = self.pairs.get(pi).cloned() else { return };
        let mut infos = [self.assets[p.assets[0]].clone(), self.assets[p.assets[1]].clone()];
        if rev {
            infos.swap(0, 1);
        }
        let fp0 = fingerprint(&self.app);
        let m = wasm_exec(&self.pool_factory, &factory::ExecuteMsg::CreatePair { asset_infos: infos, pool_fees: pair::PoolFee { protocol_fee: fee("0.001"), swap_fee: fee("0.002"), burn_fee: fee("0") }, pair_type: PairType::ConstantProduct, token_factory_lp: false }, vec![]);
        let r = tx(&mut self.app, OWNER, vec![m], Fault::None);
        ctx.op("create_duplicate_pair", r.outcome.kind());
        ctx.trace(&format!("create_dup:{pi}:{rev}:{}", r.outcome.kind()));
        ctx.eval("C19");
        if r.outcome.is_ok() {
            ctx.fail("C19", "one_pair_per_asset_set", "duplicate_accepted", None, format!("a second pair for the assets of pair {pi} (reversed {rev}) was created (migrated {})", self.migrated));
        } else {
            ctx.probe(if self.migrated { "duplicate_pair_refused_after_migration" } else { "duplicate_pair_refused" });
            if fingerprint(&self.app) != fp0 {
                ctx.fail("C19", "refused_creation_no_effect", "state_changed", None, "a refused CreatePair changed the chain state".into());
            }
        }
    }

    fn do_vault_deposit(&mut self, ctx: &mut Ctx, vi: usize, amount: u128, ui: usize) {
        let Some(v) = self.vaults.get(vi).cloned() else { return };
        let who = USERS[ui % 2];
        let enabled = v.bits & 1 != 0;
        let safe = amount >= 1000 && amount <= self.bal(who, v.asset);
        let fp0 = fingerprint(&self.app);
        let msgs = self.deposit_msgs(&v, amount);
        let r = tx(&mut self.app, who, msgs, Fault::None);
        ctx.op("vault_deposit", r.outcome.kind());
        ctx.trace(&format!("vault_deposit:{vi}:{amount}:{}", r.outcome.kind()));
        if self.judge_toggle(ctx, &r, enabled, safe, fp0, "vault_deposit", v.bits) {
            ctx.state_of(&format!("vdep:{vi}:{}:{}", self.bal(&v.addr, v.asset), v.bits));
        }
    }

    fn do_vault_withdraw(&mut self, ctx: &mut Ctx, vi: usize, amount: u128, ui: usize) {
        let Some(v) = self.vaults.get(vi).cloned() else { return };
        let who = USERS[ui % 2];
        let enabled = v.bits & 2 != 0;
        let have = balance(&self.app, who, &token(&v.lp));
        let safe = amount >= 10_000 && amount <= have;
        let quote: Result<Uint128, String> = query(&self.app, &v.addr, &vault::QueryMsg::Share { amount: Uint128::new(amount) });
        let b0 = self.bal(who, v.asset);
        let fp0 = fingerprint(&self.app);
        let m = wasm_exec(&v.lp, &cw20::Cw20ExecuteMsg::Send { contract: v.addr.clone(), amount: Uint128::new(amount), msg: to_json_binary(&vault::Cw20HookMsg::Withdraw {}).unwrap() }, vec![]);
        let r = tx(&mut self.app, who, vec![m], Fault::None);
        ctx.op("vault_withdraw_cw20_hook", r.outcome.kind());
        ctx.trace(&format!("vault_withdraw:{vi}:{amount}:{}", r.outcome.kind()));
        if self.judge_toggle(ctx, &r, enabled, safe, fp0, "vault_withdraw_cw20_hook", v.bits) {
            let paid = self.bal(who, v.asset).saturating_sub(b0);
            ctx.eval("C14");
            match quote {
                Ok(q) if q.u128() == paid => {}
                Ok(q) => ctx.fail("C14", "vault_share_eq_withdraw", "payout", None, format!("vault {vi}: Share({amount}) = {q} but the withdrawal paid {paid} (migrated {})", self.migrated)),
                Err(e) => ctx.fail("C14", "vault_share_eq_withdraw", "query_failed", None, format!("vault {vi}: Share({amount}) failed ({e}) but the withdrawal paid {paid}")),
            }
            ctx.state_of(&format!("vwd:{vi}:{paid}:{}", v.bits));
        }
    }

    fn do_vault_loan(&mut self, ctx: &mut Ctx, vi: usize, amount: u128, ui: usize) {
        let Some(v) = self.vaults.get(vi).cloned() else { return };
        let who = USERS[ui % 2];
        let enabled = v.bits & 4 != 0;
        let held = self.bal(&v.addr, v.asset);
        let safe = amount >= 1000 && amount <= held / 2;
        let fp0 = fingerprint(&self.app);
        let m = self.loan_msg(&v, amount);
        let r = tx(&mut self.app, who, vec![m], Fault::None);
        ctx.op("vault_flash_loan", r.outcome.kind());
        ctx.trace(&format!("vault_loan:{vi}:{amount}:{}", r.outcome.kind()));
        if self.judge_toggle(ctx, &r, enabled, safe, fp0, "vault_flash_loan", v.bits) {
            ctx.state_of(&format!("vloan:{vi}:{}:{}", self.bal(&v.addr, v.asset), v.bits));
        }
    }
}

// ---------------------------------------------------------------------------------------------
// generation
// ---------------------------------------------------------------------------------------------

impl Mig {
    fn target_pair_or_any(&self, rng: &mut Rng) -> usize {
        if self.cfg.target.is_pair() { self.cfg.which.min(self.pairs.len() - 1) } else { rng.idx(self.pairs.len()) }
    }
    fn target_vault_or_any(&self, rng: &mut Rng) -> usize {
        if self.cfg.target.is_vault() { self.cfg.which.min(self.vaults.len() - 1) } else { rng.idx(self.vaults.len()) }
    }
    fn swap_amount(&self, rng: &mut Rng, pi: usize, side: usize) -> u128 {
        let r = self.reserves(&self.pairs[pi]).map(|r| r[side]).unwrap_or(self.cfg.pairs.get(pi).map(|p| p.liq[side]).unwrap_or(1_000_000));
        match rng.below(8) {
            0 => rng.range128(1, 999),
            1 => (r / 3).max(1),
            _ => (r / rng.range(41, 5000) as u128).max(1000),
        }
    }
    fn route_from(&self, rng: &mut Rng, first: usize, side: usize, max_hops: usize) -> Vec<(usize, usize)> {
        let mut hops = vec![(first, side)];
        let mut cur = self.pairs[first].assets[1 - side];
        while hops.len() < max_hops {
            let mut cands = vec![];
            for (j, q) in self.pairs.iter().enumerate() {
                if hops.iter().any(|(h, _)| *h == j) {
                    continue;
                }
                for s in 0..2 {
                    if q.assets[s] == cur {
                        cands.push((j, s));
                    }
                }
            }
            if cands.is_empty() {
                break;
            }
            let (j, s) = cands[rng.idx(cands.len())];
            hops.push((j, s));
            cur = self.pairs[j].assets[1 - s];
        }
        hops
    }

    fn concretise(&mut self, k: Kind, rng: &mut Rng) -> Option<Step> {
        let user = rng.idx(2);
        Some(match k {
            Kind::Migrate => Step::Migrate,
            Kind::SwapTarget(side) => {
                let pair = self.target_pair_or_any(rng);
                Step::Swap { pair, side, amount: self.swap_amount(rng, pair, side), user }
            }
            Kind::SwapAny => {
                let pair = rng.idx(self.pairs.len());
                let side = rng.idx(2);
                Step::Swap { pair, side, amount: self.swap_amount(rng, pair, side), user }
            }
            Kind::ParkLp | Kind::ParkOther => {
                let pair = self.target_pair_or_any(rng);
                let r = self.reserves(&self.pairs[pair]).unwrap_or(self.cfg.pairs[pair].liq);
                let place = if k == Kind::ParkLp { 0 } else { rng.range(1, 3) as u8 };
                let mut amounts = [0u128; 2];
                for s in 0..2 {
                    amounts[s] = match rng.below(4) {
                        0 => r[s] * 2 + 7,
                        1 => rng.range128(1, 5000),
                        _ => (r[s] / rng.range(1, 100) as u128).max(1),
                    };
                }
                if rng.chance(1, 8) {
                    amounts[rng.idx(2)] = 0;
                }
                Step::Park { pair, place, amounts }
            }
            Kind::RouteTarget | Kind::RouteAny => {
                let first = if k == Kind::RouteTarget { self.target_pair_or_any(rng) } else { rng.idx(self.pairs.len()) };
                let side = rng.idx(2);
                let n_hops = rng.range(1, 3) as usize;
                let mut hops = self.route_from(rng, first, side, n_hops);
                if k == Kind::RouteTarget && rng.chance(1, 2) && hops.len() < 3 {
                    // put the target in the middle / at the end: walk backwards from it
                    let back = self.route_from(rng, first, 1 - side, 2);
                    if back.len() == 2 && !hops.iter().any(|(h, _)| *h == back[1].0) {
                        let (j, s) = back[1];
                        hops.insert(0, (j, 1 - s));
                    }
                }
                let (p0, s0) = hops[0];
                Step::Route { amount: self.swap_amount(rng, p0, s0), hops, user }
            }
            Kind::ProvideTarget => {
                let pair = self.target_pair_or_any(rng);
                let r = self.reserves(&self.pairs[pair]).unwrap_or(self.cfg.pairs[pair].liq);
                let d = rng.range(3, 500) as u128;
                Step::Provide { pair, amounts: [(r[0] / d).max(1), (r[1] / d).max(1)], user }
            }
            Kind::WithdrawTarget => {
                let pair = self.target_pair_or_any(rng);
                let have = balance(&self.app, USERS[user], &token(&self.pairs[pair].lp));
                Step::Withdraw { pair, amount: (have / rng.range(2, 200) as u128).max(1), user }
            }
            Kind::PairOpAny => {
                let pair = rng.idx(self.pairs.len());
                if rng.chance(1, 2) {
                    let r = self.reserves(&self.pairs[pair]).unwrap_or(self.cfg.pairs[pair].liq);
                    let d = rng.range(3, 500) as u128;
                    Step::Provide { pair, amounts: [(r[0] / d).max(1), (r[1] / d).max(1)], user }
                } else {
                    let have = balance(&self.app, USERS[user], &token(&self.pairs[pair].lp));
                    Step::Withdraw { pair, amount: (have / rng.range(2, 200) as u128).max(1), user }
                }
            }
            Kind::EnablePairTarget => Step::SetPairToggles { pair: self.target_pair_or_any(rng), bits: 7 },
            Kind::SetPairToggles => Step::SetPairToggles { pair: rng.idx(self.pairs.len()), bits: rng.below(8) as u8 },
            Kind::Registry => Step::Registry { limit: *rng.pick(&[None, Some(1), Some(2), Some(3), Some(30), Some(1000)]) },
            Kind::CreateDup => Step::CreateDup { pair: rng.idx(self.pairs.len()), rev: rng.chance(1, 2) },
            Kind::VaultOpTarget(_) | Kind::VaultOpAny if !self.vaults.is_empty() => {
                let (vault, op) = match k {
                    Kind::VaultOpTarget(op) => (self.target_vault_or_any(rng), op),
                    _ => (rng.idx(self.vaults.len()), rng.below(3) as u8),
                };
                let v = &self.vaults[vault];
                match op {
                    0 => Step::VaultDeposit { vault, amount: rng.range128(1000, 10u128.pow(12)), user },
                    1 => {
                        let have = balance(&self.app, USERS[user], &token(&v.lp));
                        Step::VaultWithdraw { vault, amount: (have / rng.range(2, 100) as u128).max(1), user }
                    }
                    _ => {
                        let held = self.bal(&v.addr, v.asset);
                        Step::VaultLoan { vault, amount: (held / rng.range(2, 100) as u128).max(1), user }
                    }
                }
            }
            Kind::EnableVaultTarget if !self.vaults.is_empty() => Step::SetVaultToggles { vault: self.target_vault_or_any(rng), bits: 7, partial: rng.chance(1, 2) },
            Kind::SetVaultToggles if !self.vaults.is_empty() => Step::SetVaultToggles { vault: rng.idx(self.vaults.len()), bits: rng.below(8) as u8, partial: rng.chance(1, 2) },
            Kind::VaultRegistry => Step::VaultRegistry { limit: *rng.pick(&[None, Some(1), Some(2), Some(30)]) },
            _ => return None,
        })
    }

    fn random_kind(&self, rng: &mut Rng) -> Kind {
        let t = self.cfg.target;
        // weights: SwapAny, SwapTarget, ParkLp, ParkOther, RouteTarget, RouteAny, PairOpAny, ProvideT, WithdrawT, SetPairToggles, Registry, CreateDup, VaultOpTarget, VaultOpAny, SetVaultToggles, VaultRegistry
        let w: [u32; 16] = if t.is_pair() {
            [4, 10, 4, 2, 8, 2, 2, 3, 3, 2, 2, 1, 0, 1, 0, 1]
        } else if t.is_factory() {
            [8, 0, 2, 2, 0, 10, 3, 0, 0, 2, 6, 4, 0, 1, 0, 1]
        } else if t.is_vault() {
            [2, 0, 0, 1, 0, 2, 1, 0, 0, 0, 1, 0, 14, 4, 4, 2]
        } else {
            [2, 0, 0, 1, 0, 2, 1, 0, 0, 0, 1, 0, 0, 10, 3, 6]
        };
        match rng.weighted(&w) {
            0 => Kind::SwapAny,
            1 => Kind::SwapTarget(rng.idx(2)),
            2 => Kind::ParkLp,
            3 => Kind::ParkOther,
            4 => Kind::RouteTarget,
            5 => Kind::RouteAny,
            6 => Kind::PairOpAny,
            7 => Kind::ProvideTarget,
            8 => Kind::WithdrawTarget,
            9 => Kind::SetPairToggles,
            10 => Kind::Registry,
            11 => Kind::CreateDup,
            12 => Kind::VaultOpTarget(rng.below(3) as u8),
            13 => Kind::VaultOpAny,
            14 => Kind::SetVaultToggles,
            _ => Kind::VaultRegistry,
        }
    }

    /// what every run does right after the migration, so that each oracle meets the migrated state
    fn plan_after_migration(&mut self, rng: &mut Rng) {
        let t = self.cfg.target;
        let mut q: Vec<Kind> = vec![];
        if t.is_pair() {
            let s = rng.idx(2);
            // with the switches as they were: every operation once
            q.extend([Kind::SwapTarget(s), Kind::ProvideTarget, Kind::WithdrawTarget, Kind::RouteTarget]);
            if self.pairs.get(self.cfg.which).map(|p| p.bits != 7).unwrap_or(false) {
                q.push(Kind::EnablePairTarget);
                q.extend([Kind::SwapTarget(s), Kind::ProvideTarget, Kind::WithdrawTarget]);
            }
            q.extend([Kind::ParkLp, Kind::SwapTarget(1 - s), Kind::RouteTarget, Kind::Registry]);
        } else if t.is_factory() {
            q.extend([Kind::Registry, Kind::RouteAny, Kind::CreateDup, Kind::SwapAny, Kind::RouteAny, Kind::SetPairToggles]);
        } else if t.is_vault() {
            let mut ops = [0u8, 1, 2];
            rng.shuffle(&mut ops);
            q.extend(ops.iter().map(|o| Kind::VaultOpTarget(*o)));
            if self.vaults.get(self.cfg.which).map(|v| v.bits != 7).unwrap_or(false) {
                q.push(Kind::EnableVaultTarget);
                q.extend(ops.iter().map(|o| Kind::VaultOpTarget(*o)));
            }
            q.push(Kind::VaultRegistry);
        } else {
            q.extend([Kind::VaultRegistry, Kind::VaultOpAny, Kind::VaultOpAny, Kind::SetVaultToggles, Kind::VaultOpAny]);
        }
        self.todo.extend(q);
    }
}

impl Scenario for Mig {
    const NAME: &'static str = "MIGRATE";
    type Cfg = Cfg;
    type Step = Step;

    fn gen_cfg(rng: &mut Rng, prop: &str, _tier: Tier, idx: u64) -> Cfg {
        let mut c = gen_cfg_impl(rng, idx);
        if prop == "C20" {
            // C20 only concerns the fee distributor's epoch clock
            c.target = Target::HubDistributor;
            c.version = version_for(rng, Target::HubDistributor);
        }
        c
    }

    fn max_steps(_cfg: &Cfg) -> usize {
        48
    }

    fn build(cfg: &Cfg, ctx: &mut Ctx) -> Self {
        let s = build_world(cfg, ctx);
        // the world as built satisfies the static oracles (non-vacuous baseline for the comparison)
        s.check_registry(ctx, Some(30), "before migration");
        s.check_vault_registry(ctx, Some(30), "before migration");
        s.check_flags(ctx, "before migration");
        s
    }

    fn gen_step(&mut self, rng: &mut Rng, _ctx: &mut Ctx) -> Option<Step> {
        for _ in 0..8 {
            let kind = if let Some(k) = self.todo.pop_front() {
                k
            } else if self.pre_left > 0 {
                self.pre_left -= 1;
                self.random_kind(rng)
            } else if !self.migrate_done && !self.todo.contains(&Kind::Migrate) {
                self.plan_after_migration(rng);
                Kind::Migrate
            } else if self.post_left > 0 {
                self.post_left -= 1;
                self.random_kind(rng)
            } else {
                return None;
            };
            if let Some(s) = self.concretise(kind, rng) {
                return Some(s);
            }
        }
        None
    }

    fn apply(&mut self, step: &Step, ctx: &mut Ctx) {
        match step {
            Step::Migrate => self.do_migrate(ctx),
            Step::Swap { pair, side, amount, user } => self.do_swap(ctx, *pair, *side, *amount, *user),
            Step::Park { pair, place, amounts } => self.do_park(ctx, *pair, *place, *amounts),
            Step::Route { hops, amount, user } => self.do_route(ctx, hops, *amount, *user),
            Step::Provide { pair, amounts, user } => self.do_provide(ctx, *pair, *amounts, *user),
            Step::Withdraw { pair, amount, user } => self.do_withdraw(ctx, *pair, *amount, *user),
            Step::SetPairToggles { pair, bits } => self.do_set_pair_toggles(ctx, *pair, *bits),
            Step::Registry { limit } => {
                ctx.trace("registry");
                self.check_registry(ctx, *limit, if self.migrated { "after migration" } else { "registry walk" });
                if self.migrated && self.cfg.target.is_factory() {
                    ctx.probe("registry_walk_on_migrated_factory");
                }
            }
            Step::CreateDup { pair, rev } => self.do_create_dup(ctx, *pair, *rev),
            Step::VaultDeposit { vault, amount, user } => self.do_vault_deposit(ctx, *vault, *amount, *user),
            Step::VaultWithdraw { vault, amount, user } => self.do_vault_withdraw(ctx, *vault, *amount, *user),
            Step::VaultLoan { vault, amount, user } => self.do_vault_loan(ctx, *vault, *amount, *user),
            Step::SetVaultToggles { vault, bits, partial } => self.do_set_vault_toggles(ctx, *vault, *bits, *partial),
            Step::VaultRegistry { limit } => {
                ctx.trace("vault_registry");
                self.check_vault_registry(ctx, *limit, if self.migrated { "after migration" } else { "registry walk" });
                if self.migrated && self.cfg.target == Target::VaultFactoryV109 {
                    ctx.probe("vault_registry_walk_on_migrated_factory");
                }
            }
        }
    }

    fn simplify(step: &Step) -> Vec<Step> {
        match step {
            Step::Swap { pair, side, amount, user } if *amount > 1000 => vec![Step::Swap { pair: *pair, side: *side, amount: 1000, user: *user }, Step::Swap { pair: *pair, side: *side, amount: *amount / 2, user: *user }],
            Step::Route { hops, amount, user } if hops.len() > 1 => vec![Step::Route { hops: hops[..hops.len() - 1].to_vec(), amount: *amount, user: *user }, Step::Route { hops: hops[1..].to_vec(), amount: *amount, user: *user }],
            Step::Registry { limit: Some(_) } => vec![Step::Registry { limit: None }],
            _ => vec![],
        }
    }

    fn sim_clock(&self) -> (u64, u64) {
        (0, 0)
    }
}
