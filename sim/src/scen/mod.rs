pub mod pool2;
pub mod pool2_gen;
pub mod pool2_oracle;
pub mod pool2_router;
pub mod stable2;
pub mod vault;
pub mod vault_helpers;
pub mod pool3;
