//! POOL2: pool factory + two pairs (A,B) and (B,C) + swap router, real contracts, >=3 users.
//! Serves C01 C02 C03 C07 C14 C15 (pair part). Oracles are in `pool2_oracle.rs`.

use cosmwasm_std::{coin, to_json_binary, Coin, CosmosMsg, Decimal, Uint128};
use serde::{Deserialize, Serialize};
use std::str::FromStr;

use white_whale_std::fee::Fee;
use white_whale_std::pool_network::asset::{Asset, AssetInfo, PairInfo, PairType};
use white_whale_std::pool_network::pair::{
    self, PoolFee, PoolResponse, ProtocolFeesResponse, SimulationResponse,
};
use white_whale_std::pool_network::router::{self, SwapOperation};
use white_whale_std::pool_network::factory;

use crate::big::*;
use crate::core::{Ctx, Scenario, Tier};
use crate::rng::Rng;
use crate::world::*;

pub const OWNER: &str = "owner";
pub const COLLECTOR: &str = "collector";
/// the address the operator may re-point the fee collection to
pub const COLLECTOR2: &str = "collectorb";
pub const USERS: [&str; 5] = ["alice", "bobby", "carol", "david", "erin0"];

#[derive(Serialize, Deserialize, Clone, Debug, PartialEq)]
#[serde(rename_all = "snake_case")]
pub enum Kind {
    Native,
    Cw20,
}

#[derive(Serialize, Deserialize, Clone, Debug, PartialEq)]
#[serde(rename_all = "snake_case")]
pub enum PType {
    Cp,
    Stable { amp: u64 },
}

#[derive(Serialize, Deserialize, Clone, Debug)]
pub struct Cfg {
    pub kinds: [Kind; 3],
    pub decimals: [u8; 3],
    pub ptype: PType,
    /// protocol, swap, burn — decimal strings
    pub fees: [String; 3],
    /// initial balance of each user per asset
    pub user_funds: [u128; 3],
    pub n_users: usize,
    pub max_steps: usize,
    pub faults: bool,
    /// generate slippage / belief-price / minimum-receive boundary values
    pub boundary: bool,
    /// op weights: provide, withdraw, swap, collect, setfees, donate, roundtrip, depwd, router
    pub weights: [u32; 9],
    /// identifier collision: the native asset of the pair under test carries, as its denom, the address of
    /// the pair's cw20 asset (only when the pair has one asset of each kind)
    #[serde(default)]
    pub alias_denom: bool,
    /// both pool assets are native coins whose denoms differ by letter case only ("uaaa" / "uAAA")
    #[serde(default)]
    pub case_twin: bool,
}

#[derive(Serialize, Deserialize, Clone, Debug, PartialEq)]
#[serde(rename_all = "snake_case")]
pub enum Op {
    Provide {
        amounts: [u128; 2],
        slippage: Option<String>,
        receiver: Option<usize>,
        /// list the assets in the message in the reverse of the pool's order
        #[serde(default)]
        rev: bool,
        /// hostile (6 = less than declared of every coin, 7 = more than declared): 0 = attach the declared native funds, 1 = attach no funds at all, 2 = attach only the
        /// funds of the first native asset
        #[serde(default)]
        funds_mode: u8,
    },
    Withdraw {
        lp: u128,
    },
    Swap {
        side: usize,
        amount: u128,
        belief: Option<String>,
        max_spread: Option<String>,
        to: Option<usize>,
    },
    /// a native-offer swap sent with a stray coin of a foreign denom next to the offer coin (`first`: the stray
    /// denom sorts before every pool denom, else after); the stray coin is not a pool asset
    SwapWithStrayCoin {
        side: usize,
        amount: u128,
        stray: u128,
        first: bool,
    },
    Collect,
    SetFees {
        fees: [String; 3],
    },
    /// the operator re-points the pool's fee collector address (second = to COLLECTOR2, else back to COLLECTOR)
    SetCollector {
        second: bool,
        /// alias: the pool itself is named as its fee collector
        #[serde(default)]
        to_pool: bool,
        /// alias: one of the trading users is named as the fee collector (index into USERS)
        #[serde(default)]
        to_user: Option<usize>,
    },
    Donate {
        side: usize,
        amount: u128,
    },
    /// swap `amount` of side and swap the proceeds straight back (two txs, nothing in between)
    RoundTrip {
        side: usize,
        amount: u128,
    },
    /// deposit and immediately withdraw the minted LP
    DepositWithdraw {
        amounts: [u128; 2],
    },
    /// hostile: the token-factory entry point WithdrawLiquidity {} called directly with `amount`
    /// of some native coin attached (coin 0/1/2 = pool asset denoms uaaa/ubbb/uccc, 3 = ujunk)
    WithdrawDirect {
        coin: usize,
        amount: u128,
    },
    /// multi-hop swap through the router: path over assets 0-1-2 (indices), e.g. [0,1,2]
    Router {
        path: Vec<usize>,
        amount: u128,
        min_receive: Option<u128>,
        to: Option<usize>,
        max_spread: Option<String>,
    },
}

#[derive(Serialize, Deserialize, Clone, Debug, PartialEq)]
pub struct Step {
    pub actor: usize,
    pub op: Op,
    /// 0 = same block, n = n blocks later
    pub adv: u32,
    pub fault: Fault,
}

pub struct Pool2 {
    pub cfg: Cfg,
    pub app: SimApp,
    pub assets: [AssetInfo; 3],
    pub factory: String,
    pub router: String,
    /// pair (A,B) under test and helper pair (B,C)
    pub pair: String,
    pub pair2: String,
    /// helper pair (A,C) so that three-hop routes exist
    pub pair3: String,
    pub lp: String,
    pub lp2: String,
    pub fees_atomics: [u128; 3],
    pub blocks: u64,
    pub model: crate::scen::pool2_oracle::Model,
    /// the fee collector address the pool is configured with right now
    pub collector_now: String,
    /// whether the next ProvideLiquidity message lists its assets in reverse order
    pub rev_next: std::cell::Cell<bool>,
    pub funds_mode_next: std::cell::Cell<u8>,
    /// (amount, sorts first) of the stray coin the next native-offer swap message carries
    pub stray_next: std::cell::Cell<Option<(u128, bool)>>,
    /// generator hint: the next step should be a fee collection (a swap just put the pending fee on a boundary)
    pub want_collect: bool,
    /// scripted steps to emit before anything else (everybody exits, then somebody deposits)
    pub queue: Vec<Step>,
}

pub fn pool_fee(f: &[String; 3]) -> PoolFee {
    PoolFee {
        protocol_fee: Fee {
            share: Decimal::from_str(&f[0]).unwrap(),
        },
        swap_fee: Fee {
            share: Decimal::from_str(&f[1]).unwrap(),
        },
        burn_fee: Fee {
            share: Decimal::from_str(&f[2]).unwrap(),
        },
    }
}

fn gen_fees(rng: &mut Rng) -> [String; 3] {
    let pick = |rng: &mut Rng| -> u128 {
        match rng.below(10) {
            0 => 0,
            1 => 1,                             // 1e-18
            2 => E18 / 1000,                    // 0.1%
            3 => E18 / 100 * 3,                 // 3%
            4 => rng.range128(0, E18 / 10),     // up to 10%
            5 => rng.range128(0, E18 / 3 - 1),  // up to a third
            6 => 2 * E18 / 1000,
            _ => rng.range128(0, E18 / 50),
        }
    };
    let mut f = [pick(rng), pick(rng), pick(rng)];
    if rng.chance(1, 12) {
        // no fees at all: rounding is the only thing between a there-and-back swap and a profit
        f = [0, 0, 0];
    }
    if rng.chance(1, 25) {
        // total just below 100%
        let a = rng.range128(0, E18 - 1);
        let b = rng.range128(0, E18 - 1 - a);
        f = [a, b, E18 - 1 - a - b];
    }
    [atomics_to_dec(f[0]), atomics_to_dec(f[1]), atomics_to_dec(f[2])]
}

impl Pool2 {
    pub fn gen_cfg_fees(rng: &mut Rng) -> [String; 3] {
        gen_fees(rng)
    }
    /// index of the trading user that is currently configured as the pool's fee collector, if any
    pub fn collector_user(&self) -> Option<usize> {
        (0..self.cfg.n_users).find(|i| USERS[*i] == self.collector_now)
    }
    pub fn user(&self, i: usize) -> &'static str {
        USERS[i % self.cfg.n_users]
    }
    pub fn fee_msg(&self) -> PoolFee {
        pool_fee(&self.cfg.fees)
    }
    pub fn asset(&self, i: usize, amount: u128) -> Asset {
        Asset {
            info: self.assets[i].clone(),
            amount: Uint128::new(amount),
        }
    }
    pub fn funds_for(&self, parts: &[(usize, u128)]) -> Vec<Coin> {
        let mut v: Vec<Coin> = vec![];
        for (i, a) in parts {
            if let AssetInfo::NativeToken { denom } = &self.assets[*i] {
                if *a > 0 {
                    v.push(coin(*a, denom));
                }
            }
        }
        v.sort_by(|a, b| a.denom.cmp(&b.denom));
        v
    }
    pub fn allowance_msgs(&self, spender: &str, parts: &[(usize, u128)]) -> Vec<CosmosMsg> {
        let mut v = vec![];
        for (i, a) in parts {
            if let AssetInfo::Token { contract_addr } = &self.assets[*i] {
                if *a > 0 {
                    v.push(wasm_exec(
                        contract_addr,
                        &cw20::Cw20ExecuteMsg::IncreaseAllowance {
                            spender: spender.to_string(),
                            amount: Uint128::new(*a),
                            expires: None,
                        },
                        vec![],
                    ));
                }
            }
        }
        v
    }
    pub fn provide_msgs(
        &self,
        pair: &str,
        idx: [usize; 2],
        amounts: [u128; 2],
        slippage: Option<&str>,
        receiver: Option<&str>,
    ) -> Vec<CosmosMsg> {
        let parts = [(idx[0], amounts[0]), (idx[1], amounts[1])];
        let mut msgs = self.allowance_msgs(pair, &parts);
        let mode = self.funds_mode_next.get();
        let mut a0 = self.asset(idx[0], amounts[0]);
        let mut a1 = self.asset(idx[1], amounts[1]);
        let mut funds = match mode {
            1 | 3 => vec![],
            2 => self.funds_for(&parts).into_iter().take(1).collect(),
            // hostile 6: every native coin is attached, but with less than the declared amount
            6 => self.funds_for(&parts).into_iter().filter_map(|c| { let a = c.amount.u128() / 2; if a > 0 { Some(coin(a, c.denom)) } else { None } }).collect(),
            // hostile 7: every native coin is attached with more than the declared amount
            7 => self.funds_for(&parts).into_iter().map(|c| coin(c.amount.u128().saturating_add(1 + c.amount.u128() / 3), c.denom)).collect(),
            _ => self.funds_for(&parts),
        };
        match mode {
            // hostile 3: every native pool asset is declared as a cw20 token whose "address" is the
            // denom, and no coins are attached
            3 => {
                for a in [&mut a0, &mut a1] {
                    if let AssetInfo::NativeToken { denom } = a.info.clone() {
                        a.info = AssetInfo::Token { contract_addr: denom };
                    }
                }
            }
            // hostile 4: the second declared asset is a foreign native coin (attached) instead of the
            // pool's second asset
            4 => {
                a1.info = AssetInfo::NativeToken { denom: "ujunk".into() };
                funds = self.funds_for(&[(idx[0], amounts[0])]);
                if amounts[1] > 0 {
                    funds.push(cosmwasm_std::coin(amounts[1].min(1_000_000), "ujunk"));
                    a1.amount = cosmwasm_std::Uint128::new(amounts[1].min(1_000_000));
                }
                funds.sort_by(|x, y| x.denom.cmp(&y.denom));
            }
            // hostile 5: the first pool asset is declared twice
            5 => {
                a1 = self.asset(idx[0], amounts[1]);
                funds = self.funds_for(&[(idx[0], amounts[0])]);
            }
            _ => {}
        }
        msgs.push(wasm_exec(
            pair,
            &pair::ExecuteMsg::ProvideLiquidity {
                assets: if self.rev_next.get() { [a1, a0] } else { [a0, a1] },
                slippage_tolerance: slippage.map(|s| Decimal::from_str(s).unwrap()),
                receiver: receiver.map(|s| s.to_string()),
            },
            funds,
        ));
        msgs
    }
    pub fn swap_msg(
        &self,
        pair: &str,
        asset_idx: usize,
        amount: u128,
        belief: Option<&str>,
        max_spread: Option<&str>,
        to: Option<&str>,
    ) -> CosmosMsg {
        let belief = belief.map(|s| Decimal::from_str(s).unwrap());
        let max_spread = max_spread.map(|s| Decimal::from_str(s).unwrap());
        match &self.assets[asset_idx] {
            AssetInfo::NativeToken { denom } => wasm_exec(
                pair,
                &pair::ExecuteMsg::Swap {
                    offer_asset: self.asset(asset_idx, amount),
                    belief_price: belief,
                    max_spread,
                    to: to.map(|s| s.to_string()),
                },
                {
                    let mut f = if amount > 0 { vec![coin(amount, denom)] } else { vec![] };
                    if let Some((x, first)) = self.stray_next.get() {
                        if x > 0 {
                            f.push(coin(x, if first { "a0junk" } else { "zzjunk" }));
                            f.sort_by(|a, b| a.denom.cmp(&b.denom));
                        }
                    }
                    f
                },
            ),
            AssetInfo::Token { contract_addr } => wasm_exec(
                contract_addr,
                &cw20::Cw20ExecuteMsg::Send {
                    contract: pair.to_string(),
                    amount: Uint128::new(amount),
                    msg: to_json_binary(&pair::Cw20HookMsg::Swap {
                        belief_price: belief,
                        max_spread,
                        to: to.map(|s| s.to_string()),
                    })
                    .unwrap(),
                },
                vec![],
            ),
        }
    }
    pub fn withdraw_msg(&self, pair: &str, lp: &str, amount: u128) -> CosmosMsg {
        wasm_exec(
            lp,
            &cw20::Cw20ExecuteMsg::Send {
                contract: pair.to_string(),
                amount: Uint128::new(amount),
                msg: to_json_binary(&pair::Cw20HookMsg::WithdrawLiquidity {}).unwrap(),
            },
            vec![],
        )
    }
    pub fn router_msg(
        &self,
        path: &[usize],
        amount: u128,
        min_receive: Option<u128>,
        to: Option<&str>,
        max_spread: Option<&str>,
    ) -> CosmosMsg {
        let ops: Vec<SwapOperation> = path
            .windows(2)
            .map(|w| SwapOperation::TerraSwap {
                offer_asset_info: self.assets[w[0]].clone(),
                ask_asset_info: self.assets[w[1]].clone(),
            })
            .collect();
        let max_spread = max_spread.map(|s| Decimal::from_str(s).unwrap());
        match &self.assets[path[0]] {
            AssetInfo::NativeToken { denom } => wasm_exec(
                &self.router,
                &router::ExecuteMsg::ExecuteSwapOperations {
                    operations: ops,
                    minimum_receive: min_receive.map(Uint128::new),
                    to: to.map(|s| s.to_string()),
                    max_spread,
                },
                if amount > 0 { vec![coin(amount, denom)] } else { vec![] },
            ),
            AssetInfo::Token { contract_addr } => wasm_exec(
                contract_addr,
                &cw20::Cw20ExecuteMsg::Send {
                    contract: self.router.clone(),
                    amount: Uint128::new(amount),
                    msg: to_json_binary(&router::Cw20HookMsg::ExecuteSwapOperations {
                        operations: ops,
                        minimum_receive: min_receive.map(Uint128::new),
                        to: to.map(|s| s.to_string()),
                        max_spread,
                    })
                    .unwrap(),
                },
                vec![],
            ),
        }
    }
    /// the pair that serves the hop a -> b
    pub fn pair_for(&self, a: usize, b: usize) -> &str {
        match (a.min(b), a.max(b)) {
            (0, 1) => &self.pair,
            (1, 2) => &self.pair2,
            _ => &self.pair3,
        }
    }
    pub fn router_ops(&self, path: &[usize]) -> Vec<SwapOperation> {
        path.windows(2)
            .map(|w| SwapOperation::TerraSwap {
                offer_asset_info: self.assets[w[0]].clone(),
                ask_asset_info: self.assets[w[1]].clone(),
            })
            .collect()
    }
    pub fn simulate(&self, pair: &str, asset_idx: usize, amount: u128) -> Result<SimulationResponse, String> {
        query(
            &self.app,
            pair,
            &pair::QueryMsg::Simulation {
                offer_asset: self.asset(asset_idx, amount),
            },
        )
    }
    pub fn pool(&self, pair: &str) -> Result<PoolResponse, String> {
        query(&self.app, pair, &pair::QueryMsg::Pool {})
    }
    pub fn fees_q(&self, pair: &str, all_time: bool) -> Result<ProtocolFeesResponse, String> {
        query(
            &self.app,
            pair,
            &pair::QueryMsg::ProtocolFees {
                asset_id: None,
                all_time: Some(all_time),
            },
        )
    }
    pub fn burned_q(&self, pair: &str) -> Result<ProtocolFeesResponse, String> {
        query(&self.app, pair, &pair::QueryMsg::BurnedFees { asset_id: None })
    }
    pub fn bal(&self, who: &str, i: usize) -> u128 {
        balance(&self.app, who, &self.assets[i])
    }
    pub fn lp_bal(&self, who: &str) -> u128 {
        balance(&self.app, who, &token(&self.lp))
    }
    pub fn advance(&mut self, blocks: u32) {
        if blocks > 0 {
            let t = now_ns(&self.app) + 6_000_000_000 * blocks as u64;
            let h = height(&self.app) + blocks as u64;
            set_clock(&mut self.app, t, h);
            self.blocks += blocks as u64;
        }
    }
}

impl Scenario for Pool2 {
    const NAME: &'static str = "POOL2";
    type Cfg = Cfg;
    type Step = Step;

    fn gen_cfg(rng: &mut Rng, prop: &str, tier: Tier, _idx: u64) -> Cfg {
        let kind = |rng: &mut Rng| if rng.chance(1, 2) { Kind::Native } else { Kind::Cw20 };
        let kinds = [kind(rng), kind(rng), kind(rng)];
        let stable = prop == "C03" || (matches!(prop, "C07" | "C14" | "C15") && rng.chance(1, 3));
        let (ptype, decimals) = if stable {
            let amp = *rng.pick(&[1u64, 2, 10, 50, 100, 1000, 85, 1_000_000, 7, 400]);
            let d = *rng.pick(&[(6u8, 6u8), (6, 8), (8, 6), (6, 18), (18, 6), (4, 5), (6, 6)]);
            (PType::Stable { amp }, [d.0, d.1, 6])
        } else {
            (PType::Cp, [6, 6, 6])
        };
        // magnitude classes
        let user_funds: [u128; 3] = if stable {
            // at least a few thousand whole tokens per user, up to 2^100 base units
            let whole = match rng.below(4) {
                0 => 10u128.pow(4),
                1 => 10u128.pow(7),
                2 => 10u128.pow(9),
                _ => 10u128.pow(11),
            };
            let cap = 1u128 << 100;
            [
                (whole * 10u128.pow(decimals[0] as u32)).min(cap),
                (whole * 10u128.pow(decimals[1] as u32)).min(cap),
                whole * 10u128.pow(6),
            ]
        } else {
            match rng.below(if tier == Tier::Thorough { 6 } else { 5 }) {
                0 => [20_000_000; 3],
                1 => [10u128.pow(13); 3],
                2 => [10u128.pow(27); 3],
                3 => [1u128 << 124; 3],
                4 => [10u128.pow(30), 10u128.pow(9), 10u128.pow(13)],
                _ => [10u128.pow(9), 1u128 << 123, 10u128.pow(13)],
            }
        };
        let boundary = prop == "C15" || rng.chance(1, 4);
        let mut weights = [14, 10, 40, 6, 3, 3, 6, 5, 8];
        // swarm: switch some op kinds off per run
        for w in weights.iter_mut().skip(3) {
            if rng.chance(1, 4) {
                *w = 0;
            }
        }
        if prop == "C07" {
            weights[3] = 14;
        }
        if prop == "C02" {
            weights[6] = 12;
        }
        let max_steps = {
            // geometric, mean ~25, cap 200 (quick: cap 60)
            let cap = if tier == Tier::Thorough { 200 } else { 60 };
            let mut n = 6;
            while n < cap && !rng.chance(1, 22) {
                n += 1;
            }
            n
        };
        // identifier collision (a native denom spelt like the cw20's address): only in pools that charge no
        // protocol or burn fee and whose fees never change, because with such a fee the unchanged code itself books
        // the fee of one asset under both (its ledgers are keyed by the bare id string); see
        // observations/alias-denom-*.json and DESIGN 11.4 (N12)
        let alias_denom = rng.chance(1, 8) && kinds[0] != kinds[1];
        let case_twin = kinds[0] == Kind::Native && kinds[1] == Kind::Native && rng.chance(1, 4);
        let mut fees = gen_fees(rng);
        let mut weights = weights;
        if alias_denom {
            fees[0] = "0".to_string();
            fees[2] = "0".to_string();
            weights[4] = 0;
        }
        Cfg {
            kinds,
            decimals,
            ptype,
            fees,
            user_funds,
            n_users: rng.range(3, 5) as usize,
            max_steps,
            faults: rng.chance(1, 3),
            boundary,
            weights,
            alias_denom,
            case_twin,
        }
    }

    fn max_steps(cfg: &Cfg) -> usize {
        cfg.max_steps
    }

    fn build(cfg: &Cfg, _ctx: &mut Ctx) -> Self {
        let mut denoms_s = ["uaaa".to_string(), "ubbb".to_string(), "uccc".to_string()];
        let mut alias: Option<(usize, usize)> = None;
        if cfg.case_twin && cfg.kinds[0] == Kind::Native && cfg.kinds[1] == Kind::Native {
            denoms_s[1] = "uAAA".to_string();
        }
        if cfg.alias_denom {
            let nat = (0..2).find(|i| cfg.kinds[*i] == Kind::Native);
            let tok = (0..2).find(|i| cfg.kinds[*i] == Kind::Cw20);
            if let (Some(i), Some(j)) = (nat, tok) {
                // the factory is contract0; the tokens follow in the order of their index
                let k = (0..j).filter(|x| cfg.kinds[*x] == Kind::Cw20).count();
                denoms_s[i] = format!("contract{}", 1 + k);
                alias = Some((i, j));
            }
        }
        let denoms = [denoms_s[0].as_str(), denoms_s[1].as_str(), denoms_s[2].as_str()];
        let n = cfg.n_users;
        // genesis native balances
        let mut bals: Vec<(&str, Vec<Coin>)> = vec![];
        for u in USERS.iter().take(n) {
            let mut cs = vec![coin(1_000_000, "ujunk"), coin(1_000_000, "a0junk"), coin(1_000_000, "zzjunk")];
            for i in 0..3 {
                if cfg.kinds[i] == Kind::Native {
                    cs.push(coin(cfg.user_funds[i], denoms[i]));
                }
            }
            bals.push((u, cs));
        }
        // the factory needs to know native decimals only; owner gets a little for setup of pair2
        let mut owner_cs = vec![];
        for i in 0..3 {
            if cfg.kinds[i] == Kind::Native {
                owner_cs.push(coin(10_000_000, denoms[i]));
            }
        }
        bals.push((OWNER, owner_cs));
        let mut app = new_app(&bals);
        let token_code = app.store_code(code::token());
        let pair_code = app.store_code(code::pair());
        let trio_code = app.store_code(code::trio());
        let factory_code = app.store_code(code::pool_factory());
        let router_code = app.store_code(code::pool_router());

        let factory = must_instantiate(
            &mut app,
            factory_code,
            OWNER,
            &factory::InstantiateMsg {
                pair_code_id: pair_code,
                trio_code_id: trio_code,
                token_code_id: token_code,
                fee_collector_addr: COLLECTOR.to_string(),
            },
            "factory",
            None,
        );
        let mut assets: Vec<AssetInfo> = vec![];
        for i in 0..3 {
            match cfg.kinds[i] {
                Kind::Native => {
                    must_exec(
                        &mut app,
                        OWNER,
                        &factory,
                        &factory::ExecuteMsg::AddNativeTokenDecimals {
                            denom: denoms[i].to_string(),
                            decimals: cfg.decimals[i],
                        },
                        vec![coin(1, denoms[i])],
                    );
                    assets.push(native(denoms[i]));
                }
                Kind::Cw20 => {
                    let mut b: Vec<(&str, u128)> =
                        USERS.iter().take(n).map(|u| (*u, cfg.user_funds[i])).collect();
                    b.push((OWNER, 10_000_000));
                    let t = new_cw20(&mut app, token_code, &format!("TK{}", ["A", "B", "C"][i]), cfg.decimals[i], OWNER, &b);
                    assets.push(token(&t));
                }
            }
        }
        let assets: [AssetInfo; 3] = [assets[0].clone(), assets[1].clone(), assets[2].clone()];
        if let Some((i, j)) = alias {
            assert_eq!(asset_id(&assets[i]), asset_id(&assets[j]), "harness: the aliased denom must equal the token address");
            _ctx.probe("native_denom_equals_cw20_address");
        }
        let router = must_instantiate(
            &mut app,
            router_code,
            OWNER,
            &router::InstantiateMsg {
                terraswap_factory: factory.clone(),
            },
            "router",
            Some(OWNER),
        );
        let pair_type = match cfg.ptype {
            PType::Cp => PairType::ConstantProduct,
            PType::Stable { amp } => PairType::StableSwap { amp },
        };
        must_exec(
            &mut app,
            OWNER,
            &factory,
            &factory::ExecuteMsg::CreatePair {
                asset_infos: [assets[0].clone(), assets[1].clone()],
                pool_fees: pool_fee(&cfg.fees),
                pair_type,
                token_factory_lp: false,
            },
            vec![],
        );
        must_exec(
            &mut app,
            OWNER,
            &factory,
            &factory::ExecuteMsg::CreatePair {
                asset_infos: [assets[1].clone(), assets[2].clone()],
                pool_fees: pool_fee(&["0.001".into(), "0.002".into(), "0".into()]),
                pair_type: PairType::ConstantProduct,
                token_factory_lp: false,
            },
            vec![],
        );
        let p1: PairInfo = query(
            &app,
            &factory,
            &factory::QueryMsg::Pair {
                asset_infos: [assets[0].clone(), assets[1].clone()],
            },
        )
        .expect("harness: pair info");
        let p2: PairInfo = query(
            &app,
            &factory,
            &factory::QueryMsg::Pair {
                asset_infos: [assets[1].clone(), assets[2].clone()],
            },
        )
        .expect("harness: pair2 info");
        must_exec(
            &mut app,
            OWNER,
            &factory,
            &factory::ExecuteMsg::CreatePair {
                asset_infos: [assets[0].clone(), assets[2].clone()],
                pool_fees: pool_fee(&["0.001".into(), "0.001".into(), "0.0005".into()]),
                pair_type: PairType::ConstantProduct,
                token_factory_lp: false,
            },
            vec![],
        );
        let p3: PairInfo = query(
            &app,
            &factory,
            &factory::QueryMsg::Pair {
                asset_infos: [assets[0].clone(), assets[2].clone()],
            },
        )
        .expect("harness: pair3 info");
        let lp = asset_id(&p1.liquidity_token);
        let lp2 = asset_id(&p2.liquidity_token);
        let fees_atomics = [dec_atomics(&cfg.fees[0]), dec_atomics(&cfg.fees[1]), dec_atomics(&cfg.fees[2])];
        let mut s = Pool2 {
            cfg: cfg.clone(),
            app,
            assets,
            factory,
            router,
            pair: p1.contract_addr,
            pair2: p2.contract_addr,
            pair3: p3.contract_addr,
            lp,
            lp2,
            fees_atomics,
            blocks: 0,
            model: Default::default(),
            collector_now: COLLECTOR.to_string(),
            rev_next: std::cell::Cell::new(false),
            funds_mode_next: std::cell::Cell::new(0),
            stray_next: std::cell::Cell::new(None),
            want_collect: false,
            queue: vec![],
        };
        // liquidity for the helper pair (B,C) so that router hops have something to trade against
        let msgs = s.provide_msgs(&s.pair2.clone(), [1, 2], [5_000_000, 5_000_000], None, None);
        let r = tx(&mut s.app, OWNER, msgs, Fault::None);
        if !r.outcome.is_ok() {
            panic!("harness: pair2 liquidity: {}", r.outcome.err_text());
        }
        let msgs = s.provide_msgs(&s.pair3.clone(), [0, 2], [4_000_000, 4_000_000], None, None);
        let r = tx(&mut s.app, OWNER, msgs, Fault::None);
        if !r.outcome.is_ok() {
            panic!("harness: pair3 liquidity: {}", r.outcome.err_text());
        }
        let _ = &s.app.block_info();
        s.model = crate::scen::pool2_oracle::Model::init(&s);
        s
    }

    fn gen_step(&mut self, rng: &mut Rng, ctx: &mut Ctx) -> Option<Step> {
        Some(crate::scen::pool2_gen::gen_step(self, rng, ctx))
    }

    fn apply(&mut self, step: &Step, ctx: &mut Ctx) {
        crate::scen::pool2_oracle::apply(self, step, ctx)
    }

    fn simplify(step: &Step) -> Vec<Step> {
        crate::scen::pool2_gen::simplify(step)
    }

    fn sim_clock(&self) -> (u64, u64) {
        (self.blocks * 6_000_000_000, self.blocks)
    }
}

