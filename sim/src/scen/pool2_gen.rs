//! State-aware step generation for POOL2. What is recorded is the concrete step.

use crate::big::*;
use crate::core::Ctx;
use crate::rng::Rng;
use crate::scen::pool2::*;
use crate::world::Fault;

fn boundary_spread(rng: &mut Rng, realised18: Option<u128>) -> Option<String> {
    let ulp = 1u128;
    let half = E18 / 2;
    let mut cands: Vec<u128> = vec![0, half - ulp, half, half + ulp, E18, 7 * E18, E18 / 100, E18 / 100 - 1, E18 / 100 + 1];
    if let Some(r) = realised18 {
        cands.extend_from_slice(&[r.saturating_sub(1), r, r + 1, r + 2]);
    }
    if rng.chance(1, 8) {
        return None;
    }
    Some(atomics_to_dec(*rng.pick(&cands)))
}

pub fn gen_step(s: &mut Pool2, rng: &mut Rng, ctx: &mut Ctx) -> Step {
    let actor = rng.idx(s.cfg.n_users);
    let who = s.user(actor);
    let adv = if rng.chance(1, 2) { 0 } else { rng.range(1, 3) as u32 };
    let pool = s.pool(&s.pair).ok();
    let (r, supply) = match &pool {
        Some(p) => ([p.assets[0].amount.u128(), p.assets[1].amount.u128()], p.total_share.u128()),
        None => ([0, 0], 0),
    };
    let bal = [s.bal(who, 0), s.bal(who, 1), s.bal(who, 2)];
    let lp_bal = s.lp_bal(who);
    let mut fault = Fault::None;
    if s.cfg.faults && rng.chance(1, 10) {
        fault = match rng.below(3) {
            0 => Fault::SubCall(rng.range(2, 6) as u32),
            1 => Fault::Bank(rng.range(1, 3) as u32),
            _ => Fault::Query(rng.range(1, 4) as u32),
        };
    }

    // empty pool: the first deposit
    if supply == 0 {
        let stable = matches!(s.cfg.ptype, PType::Stable { .. });
        let amounts = if stable {
            // at least one whole token of each; roughly balanced in whole-token terms, sometimes skewed
            let w0 = 10u128.pow(s.cfg.decimals[0] as u32);
            let w1 = 10u128.pow(s.cfg.decimals[1] as u32);
            let whole_max = (bal[0] / w0).min(bal[1] / w1) / 4;
            let whole = rng.range128(1, whole_max.max(1));
            let skew = *rng.pick(&[1u128, 1, 1, 2, 5, 10]);
            if rng.chance(1, 2) {
                [whole * w0, (whole * w1 / skew).max(w1)]
            } else {
                [(whole * w0 / skew).max(w0), whole * w1]
            }
        } else {
            match rng.below(8) {
                // isqrt boundary around MINIMUM_LIQUIDITY
                0 => [1000, 1000],
                1 => [1001, 1001],
                2 => [1, 1_002_001],
                3 => [rng.range128(1, 2000), rng.range128(1, 2000)],
                _ => [rng.edge_amount(bal[0] / 3).max(1), rng.edge_amount(bal[1] / 3).max(1)],
            }
        };
        ctx.probe("first_deposit_generated");
        return Step {
            actor,
            op: Op::Provide {
                amounts,
                slippage: None,
                receiver: None,
                rev: false,
                funds_mode: 0,
            },
            adv,
            fault: Fault::None,
        };
    }

    // a swap just put the pending protocol fee on the collection threshold: collect now
    if !s.queue.is_empty() {
        return s.queue.remove(0);
    }
    // everybody leaves: every user withdraws all its LP so that only the locked minimum liquidity is
    // left (backed by whatever fees and donations accrued), then somebody deposits again
    if supply > 0 && rng.chance(1, 40) {
        let mut q = vec![];
        for u in 0..s.cfg.n_users {
            let l = s.lp_bal(s.user(u));
            if l > 0 {
                q.push(Step { actor: u, op: Op::Withdraw { lp: l }, adv: 0, fault: Fault::None });
            }
        }
        if !q.is_empty() {
            ctx.probe("exit_all_then_deposit_scripted");
            let d0 = match rng.below(4) { 0 => 1, 1 => 1000, _ => rng.edge_amount(bal[0] / 2).max(1) };
            let d1 = match rng.below(4) { 0 => 1, 1 => d0, _ => rng.edge_amount(bal[1] / 2).max(1) };
            q.push(Step { actor, op: Op::Provide { amounts: [d0, d1], slippage: None, receiver: None, rev: false, funds_mode: 0 }, adv: 0, fault: Fault::None });
            s.queue = q;
            return s.queue.remove(0);
        }
    }
    if s.want_collect {
        s.want_collect = false;
        return Step { actor, op: Op::Collect, adv: 0, fault: Fault::None };
    }
    // now and then: a swap sized so that the pending protocol fee of the ask asset lands exactly on
    // 999 / 1000 / 1001 (the minimum collectable balance), followed by a collection
    if s.cfg.weights[3] > 0 && s.fees_atomics[0] > 0 && rng.chance(1, 14) {
        let side = rng.idx(2);
        let ask = 1 - side;
        let pending = s.fees_q(&s.pair, false).ok().and_then(|f| f.fees.iter().find(|a| a.info == s.assets[ask]).map(|a| a.amount.u128())).unwrap_or(0);
        let target = *rng.pick(&[999u128, 1000, 1000, 1001]);
        if pending < target {
            let want = target - pending;
            // protocol fee is monotone in the offer: bisection over Simulation
            let (mut lo, mut hi) = (1u128, bal[side].min(r[side].saturating_mul(50)).max(1));
            let fee_at = |s: &Pool2, x: u128| s.simulate(&s.pair, side, x).ok().map(|q| q.protocol_fee_amount.u128());
            if fee_at(s, hi).map(|f| f >= want).unwrap_or(false) {
                for _ in 0..130 {
                    if lo >= hi { break; }
                    let mid = lo + (hi - lo) / 2;
                    match fee_at(s, mid) {
                        Some(f) if f >= want => hi = mid,
                        _ => lo = mid + 1,
                    }
                }
                if fee_at(s, lo) == Some(want) {
                    ctx.probe("swap_sized_for_fee_threshold");
                    s.want_collect = true;
                    return Step { actor, op: Op::Swap { side, amount: lo, belief: None, max_spread: Some("0.5".into()), to: None }, adv, fault: Fault::None };
                }
            }
        }
    }
    let kind = rng.weighted(&s.cfg.weights);
    let op = match kind {
        0 => {
            // provide: balanced, skewed, tiny
            let d0 = rng.edge_amount(bal[0] / 2);
            let amounts = match rng.below(6) {
                0 | 1 | 2 => {
                    // proportional (+- a little)
                    let d1 = muldiv128(d0, r[1], r[0].max(1)).unwrap_or(bal[1]).min(bal[1]);
                    [d0.max(1), d1.max(1)]
                }
                3 => [d0.max(1), 1],
                4 => [1, rng.edge_amount(bal[1] / 2).max(1)],
                _ => [d0.max(1), rng.edge_amount(bal[1] / 2).max(1)],
            };
            let slippage = if rng.chance(1, 3) || s.cfg.boundary {
                // values around the realised deviation
                let dev = match &s.cfg.ptype {
                    PType::Cp => deposit_deviation18(amounts, r),
                    PType::Stable { amp } => crate::scen::stable2::predicted_mint(*amp, r, amounts, supply).and_then(|m| {
                        // smallest t with (sum_p/S)(1-t) <= sum_d/m  =>  t = 1 - sum_d*S/(sum_p*m)
                        let num = (u512(amounts[0]) + u512(amounts[1])) * u512(supply) * u512(E18);
                        let den = (u512(r[0]) + u512(r[1])) * u512(m.max(1));
                        let q = to_u128_512(num / den.max(u512(1)))?;
                        Some(E18.saturating_sub(q))
                    }),
                };
                let mut c = vec![0u128, E18 / 100, E18 / 2, E18, E18 + 1, 2 * E18];
                if let Some(d) = dev {
                    c.extend_from_slice(&[d.saturating_sub(2), d.saturating_sub(1), d, d + 1, d + 2, d + 3]);
                }
                if rng.chance(1, 6) { None } else { Some(atomics_to_dec(*rng.pick(&c))) }
            } else {
                None
            };
            let receiver = if rng.chance(1, 5) { Some(rng.idx(s.cfg.n_users)) } else { None };
            // 1, 2: native funds missing; 3: native assets mislabelled as cw20; 4: a foreign coin as second asset; 5: first asset twice
            let funds_mode = if rng.chance(1, 9) { rng.range(1, 7) as u8 } else { 0 };
            Op::Provide { amounts, slippage, receiver, rev: rng.chance(1, 3), funds_mode }
        }
        1 if rng.chance(1, 8) => {
            let coin = rng.idx(4);
            Op::WithdrawDirect { coin, amount: *rng.pick(&[1u128, 500, 1000, 1001, 999_999]) }
        }
        1 => {
            if lp_bal == 0 {
                Op::Withdraw { lp: rng.range128(0, 10) }
            } else {
                Op::Withdraw { lp: match rng.below(4) { 0 => lp_bal, 1 => 1, _ => rng.edge_amount(lp_bal) } }
            }
        }
        2 => {
            let side = rng.idx(2);
            let amount = match rng.below(12) {
                0 => 0,
                1 => bal[side].saturating_add(1),
                2 => rng.range128(1, r[side].max(1)).min(bal[side]).max(1),
                3 => r[side].saturating_mul(3).min(bal[side]).max(1),
                _ => rng.edge_amount(bal[side]).max(1),
            };
            let (belief, max_spread) = if s.cfg.boundary {
                let sim = s.simulate(&s.pair, side, amount).ok();
                let realised = sim.as_ref().and_then(|q| {
                    let g = crate::scen::pool2_oracle::gross_of(q);
                    let sp = q.spread_amount.u128();
                    if g == 0 && sp == 0 { None } else { to_u128_256(u256(sp) * u256(E18) / (u256(g) + u256(sp))) }
                });
                let ms = boundary_spread(rng, realised);
                let belief = if rng.chance(1, 2) {
                    // p around offer/G
                    sim.as_ref().and_then(|q| {
                        let g = crate::scen::pool2_oracle::gross_of(q);
                        if g == 0 || amount == 0 { return None; }
                        let p = to_u128_256(u256(amount) * u256(E18) / u256(g))?;
                        let c = [p.saturating_sub(1), p, p.saturating_add(1), p / 2, p.saturating_mul(2), 1, 0, E18, p / 100 * 99, (p / 100).saturating_mul(101)];
                        Some(atomics_to_dec(*rng.pick(&c)))
                    })
                } else { None };
                (belief, ms)
            } else {
                let ms = match rng.below(5) {
                    0 => None,
                    1 => Some("0.5".to_string()),
                    2 => Some("0.01".to_string()),
                    _ => Some("0.5".to_string()),
                };
                (None, ms)
            };
            let to = if rng.chance(1, 6) { Some(rng.idx(s.cfg.n_users)) } else { None };
            if s.cfg.kinds[side] == Kind::Native && rng.chance(1, 12) {
                Op::SwapWithStrayCoin { side, amount, stray: *rng.pick(&[1u128, 7, 1000, 999_999]), first: rng.chance(2, 3) }
            } else {
                Op::Swap { side, amount, belief, max_spread, to }
            }
        }
        3 => Op::Collect,
        4 if rng.chance(1, 4) => Op::SetCollector { second: rng.chance(1, 2), to_pool: rng.chance(1, 4), to_user: if rng.chance(1, 3) { Some(rng.idx(5)) } else { None } },
        4 => {
            // reuse the fee generator through a scratch cfg
            let mut r2 = Rng::new(rng.next_u64());
            let f = crate::scen::pool2::Pool2::gen_cfg_fees(&mut r2);
            // every third change re-splits the same total between the three fees
            if rng.chance(1, 3) {
                let c = &s.cfg.fees;
                Op::SetFees { fees: if rng.chance(1, 2) { [c[1].clone(), c[2].clone(), c[0].clone()] } else { [c[2].clone(), c[0].clone(), c[1].clone()] } }
            } else {
                Op::SetFees { fees: f }
            }
        }
        5 => {
            let side = rng.idx(2);
            Op::Donate { side, amount: rng.edge_amount(bal[side] / 4).max(1) }
        }
        6 => {
            let side = rng.idx(2);
            Op::RoundTrip { side, amount: rng.edge_amount(bal[side] / 2).max(1) }
        }
        7 => {
            let d0 = rng.edge_amount(bal[0] / 2).max(1);
            let d1 = if rng.chance(2, 3) {
                muldiv128(d0, r[1], r[0].max(1)).unwrap_or(bal[1]).min(bal[1]).max(1)
            } else {
                rng.edge_amount(bal[1] / 2).max(1)
            };
            Op::DepositWithdraw { amounts: [d0, d1] }
        }
        _ => {
            let path = match rng.below(10) {
                0 => vec![0, 1],
                1 => vec![1, 0],
                2 => vec![0, 1, 2],
                3 => vec![2, 1, 0],
                4 => vec![1, 2],
                5 => vec![2, 1],
                // three hops over the three pairs
                6 => vec![1, 0, 2, 1],
                7 => vec![0, 2, 1, 0],
                8 => vec![2, 0, 1, 2],
                _ => vec![2, 0, 1],
            };
            let amount = rng.edge_amount(bal[path[0]] / 2).max(1);
            let to = if rng.chance(1, 3) { Some(rng.idx(s.cfg.n_users)) } else { None };
            let min_receive = if s.cfg.boundary || rng.chance(1, 2) {
                let q: Result<white_whale_std::pool_network::router::SimulateSwapOperationsResponse, _> = crate::world::query(
                    &s.app,
                    &s.router,
                    &white_whale_std::pool_network::router::QueryMsg::SimulateSwapOperations {
                        offer_amount: cosmwasm_std::Uint128::new(amount),
                        operations: s.router_ops(&path),
                    },
                );
                match q {
                    Ok(q) => {
                        let d = q.amount.u128();
                        Some(*rng.pick(&[d.saturating_sub(1), d, d + 1, 0, d / 2]))
                    }
                    Err(_) => Some(rng.range128(0, 1000)),
                }
            } else {
                None
            };
            let max_spread = Some(if rng.chance(1, 4) { "0.01".to_string() } else { "0.5".to_string() });
            Op::Router { path, amount, min_receive, to, max_spread }
        }
    };
    // faults only on ops with sub-messages
    let fault = match op {
        Op::SetFees { .. } | Op::SetCollector { .. } | Op::Donate { .. } | Op::RoundTrip { .. } | Op::DepositWithdraw { .. } => Fault::None,
        _ => fault,
    };
    Step { actor, op, adv, fault }
}

/// |1 - (d0/d1)/(r0/r1)| style deviation used to put slippage tolerances on the boundary:
/// the smallest t (18 decimals) with (d0/d1)(1-t) <= r0/r1 and (d1/d0)(1-t) <= r1/r0
pub fn deposit_deviation18(d: [u128; 2], r: [u128; 2]) -> Option<u128> {
    if d[0] == 0 || d[1] == 0 || r[0] == 0 || r[1] == 0 {
        return None;
    }
    // t >= 1 - (r0 d1)/(r1 d0)  and t >= 1 - (r1 d0)/(r0 d1)
    let a = u512(r[0]) * u512(d[1]);
    let b = u512(r[1]) * u512(d[0]);
    let (lo, hi) = if a < b { (a, b) } else { (b, a) };
    let q = lo * u512(E18) / hi; // floor((lo/hi)*1e18)
    let q = to_u128_512(q)?;
    Some(E18 - q)
}

pub fn simplify(step: &Step) -> Vec<Step> {
    let mut out = vec![];
    let mut push = |op: Op, adv: u32, fault: Fault| {
        out.push(Step { actor: step.actor, op, adv, fault });
    };
    if step.fault != Fault::None {
        push(step.op.clone(), step.adv, Fault::None);
    }
    if step.adv != 0 {
        push(step.op.clone(), 0, step.fault);
    }
    let shr = |x: u128| -> Vec<u128> {
        let mut v = vec![];
        if x > 1 {
            v.push(x / 2);
            let mut p = 1u128;
            while p * 10 <= x {
                p *= 10;
            }
            if p != x {
                v.push(p);
            }
            v.push(x - 1);
        }
        v
    };
    match &step.op {
        Op::Provide { amounts, slippage, receiver, rev, funds_mode } => {
            if receiver.is_some() {
                push(Op::Provide { amounts: *amounts, slippage: slippage.clone(), receiver: None, rev: *rev, funds_mode: *funds_mode }, step.adv, step.fault);
            }
            if slippage.is_some() {
                push(Op::Provide { amounts: *amounts, slippage: None, receiver: *receiver, rev: *rev, funds_mode: *funds_mode }, step.adv, step.fault);
            }
            if *rev {
                push(Op::Provide { amounts: *amounts, slippage: slippage.clone(), receiver: *receiver, rev: false, funds_mode: *funds_mode }, step.adv, step.fault);
            }
            for a in shr(amounts[0]) {
                push(Op::Provide { amounts: [a, amounts[1]], slippage: slippage.clone(), receiver: *receiver, rev: *rev, funds_mode: *funds_mode }, step.adv, step.fault);
            }
            for a in shr(amounts[1]) {
                push(Op::Provide { amounts: [amounts[0], a], slippage: slippage.clone(), receiver: *receiver, rev: *rev, funds_mode: *funds_mode }, step.adv, step.fault);
            }
        }
        Op::Withdraw { lp } => {
            for a in shr(*lp) {
                push(Op::Withdraw { lp: a }, step.adv, step.fault);
            }
        }
        Op::Swap { side, amount, belief, max_spread, to } => {
            if to.is_some() {
                push(Op::Swap { side: *side, amount: *amount, belief: belief.clone(), max_spread: max_spread.clone(), to: None }, step.adv, step.fault);
            }
            if belief.is_some() {
                push(Op::Swap { side: *side, amount: *amount, belief: None, max_spread: max_spread.clone(), to: *to }, step.adv, step.fault);
            }
            for a in shr(*amount) {
                push(Op::Swap { side: *side, amount: a, belief: belief.clone(), max_spread: max_spread.clone(), to: *to }, step.adv, step.fault);
            }
        }
        Op::Donate { side, amount } => {
            for a in shr(*amount) {
                push(Op::Donate { side: *side, amount: a }, step.adv, step.fault);
            }
        }
        Op::RoundTrip { side, amount } => {
            for a in shr(*amount) {
                push(Op::RoundTrip { side: *side, amount: a }, step.adv, step.fault);
            }
        }
        Op::DepositWithdraw { amounts } => {
            for a in shr(amounts[0]) {
                push(Op::DepositWithdraw { amounts: [a, amounts[1]] }, step.adv, step.fault);
            }
            for a in shr(amounts[1]) {
                push(Op::DepositWithdraw { amounts: [amounts[0], a] }, step.adv, step.fault);
            }
        }
        Op::Router { path, amount, min_receive, to, max_spread } => {
            if to.is_some() {
                push(Op::Router { path: path.clone(), amount: *amount, min_receive: *min_receive, to: None, max_spread: max_spread.clone() }, step.adv, step.fault);
            }
            for a in shr(*amount) {
                push(Op::Router { path: path.clone(), amount: a, min_receive: *min_receive, to: *to, max_spread: max_spread.clone() }, step.adv, step.fault);
            }
        }
        Op::SetFees { fees } => {
            if fees.iter().any(|f| f != "0") {
                push(Op::SetFees { fees: ["0".into(), "0".into(), "0".into()] }, step.adv, step.fault);
            }
        }
        Op::SwapWithStrayCoin { side, amount, stray, first } => {
            for a in shr(*amount) {
                push(Op::SwapWithStrayCoin { side: *side, amount: a, stray: *stray, first: *first }, step.adv, step.fault);
            }
        }
        Op::Collect | Op::WithdrawDirect { .. } | Op::SetCollector { .. } => {}
    }
    out
}
