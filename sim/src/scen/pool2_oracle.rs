//! Execution + oracles for POOL2 (C01 C02 C03 C07 C14 C15).

use crate::big::*;
use crate::core::Ctx;
use crate::scen::pool2::*;
use crate::scen::stable2;
use crate::world::*;

#[derive(Default, Clone, Debug)]
pub struct Model {
    /// sum of protocol fees charged per asset of pair (A,B)
    pub charged: [u128; 2],
    /// sum actually received by the collector from the pair
    pub received: [u128; 2],
    /// sum of burn fees charged
    pub burned: [u128; 2],
    /// bug-compatible part of D5: pending amounts that were zeroed without a transfer
    pub d5_dropped: [u128; 2],
    pub seeded: bool,
    pub min_lp_locked: u128,
}

impl Model {
    pub fn init(_s: &Pool2) -> Self {
        Model::default()
    }
}

#[derive(Clone, Debug)]
pub struct Obs {
    pub reserves: [u128; 2],
    pub share: u128,
    pub pending: [u128; 2],
    pub all_time: [u128; 2],
    pub burned: [u128; 2],
    pub pair_bal: [u128; 3],
    /// balances of the fee collector the pool is configured with
    pub collector: [u128; 3],
    /// balances of the other collector address (configured earlier, or never)
    pub other_collector: Vec<[u128; 3]>,
    pub users: Vec<[u128; 3]>,
    pub users_lp: Vec<u128>,
    pub lp_pair: u128,
    pub supply: [u128; 3],
    pub router_bal: [u128; 3],
}

pub fn observe(s: &Pool2) -> Result<Obs, String> {
    let p = s.pool(&s.pair).map_err(|e| format!("Pool query failed: {e}"))?;
    let f = s.fees_q(&s.pair, false).map_err(|e| format!("ProtocolFees query failed: {e}"))?;
    let fa = s.fees_q(&s.pair, true).map_err(|e| format!("ProtocolFees(all_time) query failed: {e}"))?;
    let fb = s.burned_q(&s.pair).map_err(|e| format!("BurnedFees query failed: {e}"))?;
    let pick = |v: &Vec<white_whale_std::pool_network::asset::Asset>, i: usize| -> u128 {
        v.iter()
            .find(|a| a.info == s.assets[i])
            .map(|a| a.amount.u128())
            .unwrap_or(0)
    };
    let n = s.cfg.n_users;
    let three = |who: &str| [s.bal(who, 0), s.bal(who, 1), s.bal(who, 2)];
    Ok(Obs {
        reserves: [pick(&p.assets, 0), pick(&p.assets, 1)],
        share: p.total_share.u128(),
        pending: [pick(&f.fees, 0), pick(&f.fees, 1)],
        all_time: [pick(&fa.fees, 0), pick(&fa.fees, 1)],
        burned: [pick(&fb.fees, 0), pick(&fb.fees, 1)],
        pair_bal: three(&s.pair),
        // (when the pool is its own collector there is no separate collector account to watch)
        // (likewise when a trading user is the collector: that account is watched as a user)
        collector: if s.collector_now == s.pair || s.collector_user().is_some() { [0; 3] } else { three(&s.collector_now) },
        other_collector: [COLLECTOR, COLLECTOR2].iter().filter(|c| **c != s.collector_now).map(|c| three(c)).collect(),
        users: (0..n).map(|i| three(USERS[i])).collect(),
        users_lp: (0..n).map(|i| s.lp_bal(USERS[i])).collect(),
        lp_pair: s.lp_bal(&s.pair),
        supply: [
            supply(&s.app, &s.assets[0]),
            supply(&s.app, &s.assets[1]),
            supply(&s.app, &s.assets[2]),
        ],
        router_bal: three(&s.router),
    })
}

fn obs_key(o: &Obs) -> String {
    format!("{:?}{}{:?}{:?}{:?}", o.reserves, o.share, o.pending, o.users_lp, o.pair_bal)
}

/// exact constant-product model of one swap
#[derive(Debug, Clone, PartialEq)]
pub struct CpSwap {
    pub gross: u128,
    pub fees: [u128; 3], // protocol, swap, burn
    pub ret: u128,
    /// floor(offer*ask/offer_pool) - gross
    pub spread_ideal: u128,
    /// what 18-decimal fixed point arithmetic gives: floor(offer*floor18(ask/offer_pool)) - gross, may be negative
    pub spread_fixed: Option<u128>,
    pub spread_fixed_negative: bool,
    pub fits: bool,
}

pub fn cp_model(offer_pool: u128, ask_pool: u128, offer: u128, fee18: [u128; 3]) -> CpSwap {
    let gross_w = u256(ask_pool) * u256(offer) / (u256(offer_pool) + u256(offer));
    let gross = to_u128_256(gross_w).expect("gross <= ask");
    let fees = [fee_of(fee18[0], gross), fee_of(fee18[1], gross), fee_of(fee18[2], gross)];
    let ret = gross - fees[0] - fees[1] - fees[2];
    let ideal_w = u256(offer) * u256(ask_pool) / u256(offer_pool);
    let rate18 = u512(ask_pool) * u512(E18) / u512(offer_pool);
    let fixed_w = u512(offer) * rate18 / u512(E18);
    let gross512 = u512(gross);
    let (spread_fixed, neg, fits_fixed) = if fixed_w >= gross512 {
        match to_u128_512(fixed_w - gross512) {
            Some(x) => (Some(x), false, true),
            None => (None, false, false),
        }
    } else {
        (None, true, true)
    };
    let spread_ideal = to_u128_256(ideal_w - gross_w);
    CpSwap {
        gross,
        fees,
        ret,
        spread_ideal: spread_ideal.unwrap_or(u128::MAX),
        spread_fixed,
        spread_fixed_negative: neg,
        fits: fits_fixed,
    }
}

/// effective max spread in atomics
fn s_eff18(max_spread: &Option<String>) -> u128 {
    let s = max_spread.as_ref().map(|x| dec_atomics(x)).unwrap_or(E18 / 100);
    s.min(E18 / 2)
}

#[derive(Debug, PartialEq, Clone, Copy)]
pub enum Slip {
    MustAccept,
    MustReject,
    /// inside the rounding band or undefined
    Either,
}

/// Slippage verdict from the exact rational bound. `g` gross return, `sp` reported spread.
pub fn swap_slippage_verdict(offer: u128, g: u128, sp: u128, belief: &Option<String>, max_spread: &Option<String>) -> Slip {
    let s18 = s_eff18(max_spread);
    match belief {
        None => {
            if g == 0 && sp == 0 {
                // nothing is returned and nothing is lost to spread: within any limit
                return Slip::MustAccept;
            }
            let lhs = u512(sp) * u512(E18);
            let den = u512(g) + u512(sp);
            if lhs <= u512(s18) * den {
                Slip::MustAccept
            } else if lhs >= (u512(s18) + u512(1)) * den {
                Slip::MustReject
            } else {
                Slip::Either
            }
        }
        Some(p) => {
            let p18 = dec_atomics(p);
            if p18 == 0 {
                return Slip::MustReject;
            }
            // exact expectation offer/p as rational: offer*1e18/p18
            let num = u512(offer) * u512(E18); // divided by p18
            // accept for sure when g >= ceil(E_exact * (1-s))  <=> g*p18*1e18 >= num*(1e18 - s18)
            let one_minus = u512(E18 - s18);
            let (lhs, o1) = (u1024(g) * u1024(p18)).overflowing_mul(u1024(E18));
            assert!(!o1);
            let rhs = widen(num) * widen(one_minus);
            if lhs >= rhs {
                return Slip::MustAccept;
            }
            // must reject when g + 1 < E_lo*(1 - s - 1e-18) with E_lo = offer*(1/p - 1e-18) - 1
            // i.e. even the most generous quantisation of 1/p cannot explain acceptance
            let inv_lo = (u512(E18) * u512(E18) / u512(p18)).saturating_sub(u512(1)); // floor(1e36/p18) - 1, in 1e-18 units
            let e_lo = (u512(offer) * inv_lo / u512(E18)).saturating_sub(u512(1));
            if e_lo == U512::ZERO {
                return Slip::Either;
            }
            let bound = widen(e_lo) * widen(u512(E18 - s18).saturating_sub(u512(1))) / u1024(E18);
            if u1024(g) + u1024(1) < bound {
                Slip::MustReject
            } else {
                Slip::Either
            }
        }
    }
}

fn widen(x: U512) -> U1024 {
    let d = x.digits();
    let mut out = [0u64; 16];
    out[..8].copy_from_slice(d);
    U1024::from_digits(out)
}

/// R0'*R1'*S^2 >= R0*R1*S'^2
pub fn lp_value_not_lower(before: &Obs, after: &Obs) -> bool {
    let l = u1024(after.reserves[0]) * u1024(after.reserves[1]) * u1024(before.share) * u1024(before.share);
    let r = u1024(before.reserves[0]) * u1024(before.reserves[1]) * u1024(after.share) * u1024(after.share);
    l >= r
}

fn is_injected(e: &str) -> bool {
    e.contains("injected fault")
}

/// invariants evaluated after every step, whatever the op
fn global_invariants(s: &mut Pool2, ctx: &mut Ctx, before: &Obs, after: &Obs, ok: bool, opname: &str) {
    // C01 (i): solvency
    ctx.eval("C01");
    for i in 0..2 {
        let need = u256(after.reserves[i]) + u256(after.pending[i]);
        if need > u256(after.pair_bal[i]) {
            ctx.fail("C01", "solvency", "reserve_plus_fees_gt_balance", None,
                format!("{opname}: asset {i}: reserve {} + pending {} > balance {}", after.reserves[i], after.pending[i], after.pair_bal[i]));
        }
    }
    // C01 (iv): minimum liquidity locked forever
    if s.model.seeded {
        if after.lp_pair < s.model.min_lp_locked || after.lp_pair < before.lp_pair.min(s.model.min_lp_locked) {
            ctx.fail("C01", "min_liquidity_locked", "lp_of_pair_decreased", None,
                format!("{opname}: LP held by pair {} < locked {}", after.lp_pair, s.model.min_lp_locked));
        }
        if after.share < s.model.min_lp_locked {
            ctx.fail("C01", "min_liquidity_locked", "supply_below_min", None,
                format!("{opname}: LP supply {} < {}", after.share, s.model.min_lp_locked));
        }
    }
    // C01 (ii): LP value monotone, constant product only
    if ok && s.cfg.ptype == PType::Cp && before.share > 0 && after.share > 0 {
        if !lp_value_not_lower(before, after) {
            ctx.fail("C01", "lp_value_monotone", opname, None,
                format!("{opname}: R {:?} S {} -> R {:?} S {}", before.reserves, before.share, after.reserves, after.share));
        }
    }
    // C07: what the ledger says is owed to the collector is really held by the pool
    ctx.eval("C07");
    for i in 0..2 {
        if after.pending[i] > after.pair_bal[i] {
            ctx.fail("C07", "pending_fees_held", "pending_gt_balance", None,
                format!("{opname}: asset {i}: the pool owes {} of protocol fees but holds only {}", after.pending[i], after.pair_bal[i]));
        }
    }
    // C07 ledger model
    for i in 0..2 {
        // (a changed contract may hand the collector more than was ever charged: keep the model arithmetic defined)
        let expect = s.model.charged[i].saturating_sub(s.model.received[i]);
        if after.pending[i] != expect || s.model.received[i] > s.model.charged[i] {
            // bug-compatible explanation: D5 dropped amounts
            let known = if after.pending[i].saturating_add(s.model.d5_dropped[i]) == expect && s.model.received[i] <= s.model.charged[i] { Some("D5") } else { None };
            ctx.fail("C07", "pending_ledger", "pending_ne_charged_minus_received", known,
                format!("{opname}: asset {i}: pending {} != charged {} - received {}", after.pending[i], s.model.charged[i], s.model.received[i]));
            if known.is_some() {
                // resynchronise: the dropped amount stays in the pool as reserve
                s.model.received[i] += s.model.d5_dropped[i];
                s.model.d5_dropped[i] = 0;
            }
        }
        if after.all_time[i] != s.model.charged[i] {
            ctx.fail("C07", "all_time_collected", "ne_sum_of_charges", None,
                format!("{opname}: asset {i}: all_time {} != sum charged {}", after.all_time[i], s.model.charged[i]));
        }
        if after.burned[i] != s.model.burned[i] {
            ctx.fail("C07", "all_time_burned", "ne_sum_of_burns", None,
                format!("{opname}: asset {i}: burned counter {} != sum burn charges {}", after.burned[i], s.model.burned[i]));
        }
        if after.all_time[i] < before.all_time[i] || after.burned[i] < before.burned[i] {
            ctx.fail("C07", "counters_monotone", "decreased", None, format!("{opname}: asset {i}"));
        }
    }
    if !ok {
        // failed tx: nothing moved (cheap projection of the full-state check)
        if obs_key(before) != obs_key(after) || before.supply != after.supply {
            ctx.fail("C01", "failed_tx_no_effect", opname, None, format!("{opname}: state changed by a failed tx"));
        }
    }
}

/// everybody except `touched` user indices keeps their balances; collector unchanged unless allowed
fn others_untouched(ctx: &mut Ctx, prop: &str, before: &Obs, after: &Obs, touched: &[usize], collector_may_change: bool, opname: &str) {
    for u in 0..before.users.len() {
        if touched.contains(&u) {
            continue;
        }
        if before.users[u] != after.users[u] || before.users_lp[u] != after.users_lp[u] {
            ctx.fail(prop, "third_party_untouched", opname, None,
                format!("{opname}: user {u} balances changed {:?}/{} -> {:?}/{}", before.users[u], before.users_lp[u], after.users[u], after.users_lp[u]));
        }
    }
    if !collector_may_change && before.collector != after.collector {
        ctx.fail(prop, "third_party_untouched", "collector", None, format!("{opname}: collector balances changed"));
    }
    if before.other_collector != after.other_collector {
        ctx.fail("C07", "nothing_else_moves", "unconfigured_collector_paid", None, format!("{opname}: the balances of a collector address the pool is not configured with changed {:?} -> {:?}", before.other_collector, after.other_collector));
    }
}

pub struct SwapDone {
    pub ret: u128,
}

/// One swap on pair (A,B) with all swap oracles. Returns the proceeds when it succeeded.
#[allow(clippy::too_many_arguments)]
pub fn do_swap(
    s: &mut Pool2,
    ctx: &mut Ctx,
    actor: usize,
    side: usize,
    amount: u128,
    belief: &Option<String>,
    max_spread: &Option<String>,
    to: Option<usize>,
    fault: Fault,
    opname: &str,
) -> Option<SwapDone> {
    let who = s.user(actor);
    let recv = to.unwrap_or(actor) % s.cfg.n_users;
    let ask = 1 - side;
    let before = match observe(s) {
        Ok(o) => o,
        Err(e) => {
            ctx.fail("C01", "solvency", "queries_fail", None, e);
            return None;
        }
    };
    let quote = s.simulate(&s.pair, side, amount);
    let cp = s.cfg.ptype == PType::Cp;
    let have_liq = before.reserves[0] >= 1 && before.reserves[1] >= 1;
    let model = if cp && have_liq { Some(cp_model(before.reserves[side], before.reserves[ask], amount, s.fees_atomics)) } else { None };

    // ---- C02: totality + exactness of the quote
    if let (Some(m), true) = (&model, amount >= 1) {
        ctx.eval("C02");
        if m.gross > 0 && before.reserves[side] / before.reserves[ask].max(1) >= E18 {
            ctx.probe("ratio_gt_1e18");
        }
        match &quote {
            Err(e) => {
                if m.fits {
                    let known = if m.spread_fixed_negative && e.contains("PANIC") { Some("D1") } else { None };
                    ctx.fail("C02", "swap_total", "simulation_aborts", known,
                        format!("Simulation(offer {amount} of side {side}) with reserves {:?} fees {:?} failed: {e}", before.reserves, s.cfg.fees));
                }
            }
            Ok(q) => {
                let qf = [q.protocol_fee_amount.u128(), q.swap_fee_amount.u128(), q.burn_fee_amount.u128()];
                let qsum = u256(q.return_amount.u128()) + u256(qf[0]) + u256(qf[1]) + u256(qf[2]);
                if qsum != u256(m.gross) {
                    ctx.fail("C02", "gross_exact", "proceeds_plus_fees_ne_floor", None,
                        format!("reserves {:?} offer {amount} side {side}: return {} + fees {:?} != floor(ask*offer/(pool+offer)) = {}", before.reserves, q.return_amount, qf, m.gross));
                } else if qf != m.fees {
                    ctx.fail("C02", "fee_exact", "fee_ne_floor_share_gross", None,
                        format!("reserves {:?} offer {amount}: fees {:?} expected {:?} (gross {})", before.reserves, qf, m.fees, m.gross));
                }
                if q.return_amount.u128() >= before.reserves[ask] {
                    ctx.fail("C02", "return_lt_reserve", "proceeds_ge_ask_reserve", None,
                        format!("return {} >= ask reserve {}", q.return_amount, before.reserves[ask]));
                }
            }
        }
    }
    // ---- C03: stableswap quote against the independent curve
    if let (PType::Stable { amp }, Ok(q), true) = (&s.cfg.ptype, &quote, amount >= 1) {
        stable2::check_swap_quote(s, ctx, *amp, &before, side, amount, q);
    }
    // ---- C15: the reported spread means what the documentation says (constant product)
    if let (Some(m), Ok(q)) = (&model, &quote) {
        if ctx.on("C15") && amount >= 1 {
            ctx.eval("C15");
            let sp = q.spread_amount.u128();
            // fixed-point rate floors: reported <= ideal, and not lower than ideal - offer*1e-18 - 1
            let slack = amount / E18 + 2;
            if sp > m.spread_ideal || sp.saturating_add(slack) < m.spread_ideal {
                let known = if m.spread_fixed_negative { Some("D1") } else { None };
                ctx.fail("C15", "spread_meaning", "reported_spread_off", known,
                    format!("reserves {:?} offer {amount}: reported spread {sp}, exact offer*ask/pool - gross = {}", before.reserves, m.spread_ideal));
            }
        }
    }

    // ---- execute
    let to_s = to.map(|t| USERS[t % s.cfg.n_users]);
    let msg = s.swap_msg(&s.pair.clone(), side, amount, belief.as_deref(), max_spread.as_deref(), to_s);
    let r = tx(&mut s.app, who, vec![msg], fault);
    ctx.op(opname, r.outcome.kind());
    if r.fault_fired {
        ctx.fault(match fault { Fault::SubCall(_) => "F1_subcall", Fault::Bank(_) => "F2_bank", _ => "F3_query" });
    }
    let after = match observe(s) {
        Ok(o) => o,
        Err(e) => {
            ctx.fail("C01", "solvency", "queries_fail", None, format!("after {opname}: {e}"));
            return None;
        }
    };
    ctx.trace(&format!("{opname}:{}:{}:{:?}", r.outcome.kind(), amount, after.reserves));
    let funded = amount <= before.users[actor][side];
    let verdict = quote.as_ref().ok().map(|q| {
        let g = gross_of(q);
        (g, q.spread_amount.u128(), swap_slippage_verdict(amount, g, q.spread_amount.u128(), belief, max_spread))
    });

    match &r.outcome {
        Outcome::Ok(_) => {
            if r.fault_fired {
                ctx.fail("C01", "fault_swallowed", opname, None, "swap succeeded although one of its sub-calls failed".into());
            }
            // the quote must have existed
            let Some(q) = quote.as_ref().ok() else {
                ctx.fail("C14", "quote_exists", "swap_ok_but_simulation_fails", None,
                    format!("swap of {amount} succeeded but Simulation failed: {}", quote.as_ref().err().unwrap()));
                global_invariants(s, ctx, &before, &after, true, opname);
                return None;
            };
            let (g, sp, v) = verdict.unwrap();
            // ---- C14: attributes and realised deltas equal the quote
            ctx.eval("C14");
            let at = |k: &str| r.outcome.attr(k).and_then(|x| x.parse::<u128>().ok());
            let fields = [
                ("return_amount", q.return_amount.u128()),
                ("spread_amount", q.spread_amount.u128()),
                ("swap_fee_amount", q.swap_fee_amount.u128()),
                ("protocol_fee_amount", q.protocol_fee_amount.u128()),
                ("burn_fee_amount", q.burn_fee_amount.u128()),
            ];
            for (k, v) in fields {
                if at(k) != Some(v) {
                    ctx.fail("C14", "sim_eq_exec_attrs", k, None, format!("swap attr {k} = {:?}, Simulation said {v}", at(k)));
                }
            }
            let ret = q.return_amount.u128();
            let burn = q.burn_fee_amount.u128();
            let prot = q.protocol_fee_amount.u128();
            // receiver got exactly `ret` of the ask asset, sender paid exactly `amount`
            let mut exp_users = before.users.clone();
            exp_users[actor][side] -= amount.min(exp_users[actor][side]);
            exp_users[recv][ask] += ret;
            if exp_users != after.users {
                ctx.fail("C14", "sim_eq_exec_transfers", "user_deltas", None,
                    format!("swap {amount} side {side} by {actor} to {recv}: balances {:?} expected {:?} (quote return {ret})", after.users, exp_users));
            }
            if after.pair_bal[side] != before.pair_bal[side] + amount
                || after.pair_bal[ask] + ret + burn != before.pair_bal[ask]
            {
                ctx.fail("C14", "sim_eq_exec_transfers", "pool_deltas", None,
                    format!("pool balances {:?} -> {:?}, offer {amount}, return {ret}, burn {burn}", before.pair_bal, after.pair_bal));
            }
            if after.pending[ask] != before.pending[ask] + prot || after.pending[side] != before.pending[side] {
                ctx.fail("C14", "sim_eq_exec_ledger", "protocol_fee_recorded", None,
                    format!("pending {:?} -> {:?}, quoted protocol fee {prot}", before.pending, after.pending));
            }
            // ---- C07: charge bookkeeping, burn leaves circulation
            s.model.charged[ask] += prot;
            s.model.burned[ask] += burn;
            ctx.eval("C07");
            if after.supply[ask] + burn != before.supply[ask] || after.supply[side] != before.supply[side] {
                ctx.fail("C07", "burn_leaves_circulation", "supply_delta", None,
                    format!("supply {:?} -> {:?} with burn fee {burn} of asset {ask}", before.supply, after.supply));
            }
            if before.collector != after.collector {
                ctx.fail("C07", "nothing_else_moves", "collector_paid_by_swap", None, "collector balance changed during a swap".into());
            }
            // ---- C02 on the execution: exact amounts (constant product)
            if let Some(m) = &model {
                ctx.eval("C02");
                if u256(ret) + u256(prot) + u256(burn) + u256(q.swap_fee_amount.u128()) != u256(m.gross) {
                    ctx.fail("C02", "gross_exact", "executed", None, format!("executed swap: parts != gross {}", m.gross));
                }
                if before.pair_bal[ask] - after.pair_bal[ask] != m.ret + m.fees[2] {
                    ctx.fail("C02", "gross_exact", "executed_transfer", None,
                        format!("pool paid {} but model return {} + burn {}", before.pair_bal[ask] - after.pair_bal[ask], m.ret, m.fees[2]));
                }
            }
            // ---- C15: accepted => bound
            if amount >= 1 {
                ctx.eval("C15");
                if v == Slip::MustReject {
                    ctx.fail("C15", "swap_accepted_beyond_limit", if belief.is_some() { "belief" } else { "spread" }, None,
                        format!("swap accepted: offer {amount} gross {g} spread {sp} belief {belief:?} max_spread {max_spread:?}"));
                }
                if v == Slip::Either { ctx.probe("slippage_in_rounding_band"); }
            }
            if let PType::Stable { amp } = &s.cfg.ptype {
                if amount >= 1 {
                    stable2::check_swap_executed(s, ctx, *amp, &before, &after, side, amount);
                }
            }
            ctx.state_of(&obs_key(&after));
            global_invariants(s, ctx, &before, &after, true, opname);
            others_untouched(ctx, "C14", &before, &after, &[actor, recv], false, opname);
            Some(SwapDone { ret })
        }
        o => {
            let e = o.err_text();
            if let Outcome::Panic(p) = o {
                let short: String = p.chars().take(70).collect();
                ctx.probe(&format!("panic: {short}"));
                if std::env::var("WWSIM_DEBUG_PANIC").is_ok() {
                    let p = ctx.prop.clone();
                    ctx.fail(&p, "debug_panic", "debug", None, format!("swap {amount} side {side} belief {belief:?} ms {max_spread:?} reserves {:?} quote {:?}: {e}", before.reserves, quote));
                }
            }
            let slippage_err = e.contains("Spread limit exceeded");
            if let Some((g, sp, v)) = verdict {
                if slippage_err {
                    ctx.eval("C15");
                    ctx.probe("swap_rejected_for_slippage");
                    if v == Slip::MustAccept {
                        ctx.fail("C15", "swap_rejected_within_limit", if belief.is_some() { "belief" } else { "spread" }, None,
                            format!("swap rejected for slippage: offer {amount} gross {g} spread {sp} belief {belief:?} max_spread {max_spread:?}"));
                    }
                }
                // ---- C02 totality of the execution
                if model.is_some() && amount >= 1 && funded && !r.fault_fired && belief.is_none() && v == Slip::MustAccept && !slippage_err {
                    ctx.eval("C02");
                    let m = model.as_ref().unwrap();
                    let known = if m.spread_fixed_negative { Some("D1") } else { None };
                    ctx.fail("C02", "swap_total", "execution_aborts", known,
                        format!("swap of {amount} (side {side}) with reserves {:?} was quoted but execution failed: {e}", before.reserves));
                }
            } else if let Some(m) = &model {
                // quote failed as well: already reported by simulation_aborts; the execution is the same defect
                if amount >= 1 && funded && m.fits && !r.fault_fired && belief.is_none() {
                    ctx.eval("C02");
                    let known = if m.spread_fixed_negative { Some("D1") } else { None };
                    ctx.fail("C02", "swap_total", "execution_aborts", known,
                        format!("swap of {amount} (side {side}) with reserves {:?} aborts: {e}", before.reserves));
                }
            }
            if r.fault_fired && !is_injected(&e) && !e.contains("PANIC") {
                ctx.probe("fault_masked_by_other_error");
            }
            global_invariants(s, ctx, &before, &after, false, opname);
            None
        }
    }
}

pub fn apply(s: &mut Pool2, step: &Step, ctx: &mut Ctx) {
    s.advance(step.adv);
    let actor = step.actor % s.cfg.n_users;
    let who = s.user(actor);
    match &step.op {
        Op::Swap { side, amount, belief, max_spread, to } => {
            do_swap(s, ctx, actor, *side % 2, *amount, belief, max_spread, *to, step.fault, "swap");
        }
        Op::SwapWithStrayCoin { side, amount, stray, first } => {
            ctx.probe("swap_with_a_stray_coin_attached");
            // (never more than the sender still holds of the stray denom: a bank failure for lack of the stray
            // coin would be the harness's doing, not the pool's)
            let have = s.app.wrap().query_balance(who, if *first { "a0junk" } else { "zzjunk" }).map(|c| c.amount.u128()).unwrap_or(0);
            s.stray_next.set(Some(((*stray).min(have), *first)));
            do_swap(s, ctx, actor, *side % 2, *amount, &None, &Some("0.5".to_string()), None, step.fault, "swap_with_stray_coin");
            s.stray_next.set(None);
        }
        Op::RoundTrip { side, amount } => {
            let side = *side % 2;
            // generous spread so that slippage does not stop the experiment
            let ms = Some("0.5".to_string());
            let b0 = s.bal(who, side);
            if let Some(d1) = do_swap(s, ctx, actor, side, *amount, &None, &ms, None, Fault::None, "roundtrip_out") {
                if ctx.stopped() || d1.ret == 0 {
                    return;
                }
                if let Some(d2) = do_swap(s, ctx, actor, 1 - side, d1.ret, &None, &ms, None, Fault::None, "roundtrip_back") {
                    let prop = if s.cfg.ptype == PType::Cp { "C02" } else { "C03" };
                    ctx.eval(prop);
                    ctx.probe("roundtrip_completed");
                    let b2 = s.bal(who, side);
                    if d2.ret > *amount || b2 > b0 {
                        if s.cfg.ptype == PType::Cp {
                            ctx.fail("C02", "there_and_back", "profit", None,
                                format!("swapped {amount} of side {side} for {} and back for {} (> {amount}); fees {:?}", d1.ret, d2.ret, s.cfg.fees));
                        } else {
                            stable2::roundtrip_profit(s, ctx, *amount, d1.ret, d2.ret);
                        }
                    }
                }
            }
        }
        Op::Provide { amounts, slippage, receiver, rev, funds_mode } => {
            s.funds_mode_next.set(*funds_mode);
            if *funds_mode != 0 { ctx.probe("provide_with_missing_native_funds"); }
            if *funds_mode >= 3 { ctx.probe("provide_with_mislabelled_assets"); }
            s.rev_next.set(*rev);
            if *rev { ctx.probe("provide_assets_listed_in_reverse_order"); }
            do_provide(s, ctx, actor, *amounts, slippage, *receiver, step.fault, "provide");
            s.rev_next.set(false);
            s.funds_mode_next.set(0);
        }
        Op::DepositWithdraw { amounts } => {
            let lp0 = s.lp_bal(who);
            let b0 = [s.bal(who, 0), s.bal(who, 1)];
            if do_provide(s, ctx, actor, *amounts, &None, None, Fault::None, "depwd_deposit").is_some() {
                if ctx.stopped() {
                    return;
                }
                let minted = s.lp_bal(who) - lp0;
                if minted == 0 {
                    return;
                }
                if do_withdraw(s, ctx, actor, minted, Fault::None, "depwd_withdraw") {
                    let b2 = [s.bal(who, 0), s.bal(who, 1)];
                    ctx.eval("C01");
                    ctx.probe("deposit_withdraw_completed");
                    if s.cfg.ptype == PType::Cp {
                        for i in 0..2 {
                            if b2[i] > b0[i] {
                                ctx.fail("C01", "deposit_then_withdraw", "returns_more_than_deposited", None,
                                    format!("deposit {:?} then withdraw {minted} LP: asset {i} balance {} -> {}", amounts, b0[i], b2[i]));
                            }
                        }
                    } else {
                        stable2::deposit_withdraw_value(s, ctx, b0, b2, *amounts);
                    }
                }
            }
        }
        Op::Withdraw { lp } => {
            do_withdraw(s, ctx, actor, *lp, step.fault, "withdraw");
        }
        Op::Collect => do_collect(s, ctx, actor, step.fault),
        Op::SetFees { fees } => {
            let before = match observe(s) { Ok(o) => o, Err(e) => { ctx.fail("C01", "solvency", "queries_fail", None, e); return; } };
            let msg = wasm_exec(
                &s.factory,
                &white_whale_std::pool_network::factory::ExecuteMsg::UpdatePairConfig {
                    pair_addr: s.pair.clone(),
                    owner: None,
                    fee_collector_addr: None,
                    pool_fees: Some(pool_fee(fees)),
                    feature_toggle: None,
                },
                vec![],
            );
            let r = tx(&mut s.app, OWNER, vec![msg], Fault::None);
            ctx.op("set_fees", r.outcome.kind());
            if r.outcome.is_ok() {
                s.cfg.fees = fees.clone();
                s.fees_atomics = [dec_atomics(&fees[0]), dec_atomics(&fees[1]), dec_atomics(&fees[2])];
            }
            let after = match observe(s) { Ok(o) => o, Err(e) => { ctx.fail("C01", "solvency", "queries_fail", None, e); return; } };
            ctx.trace(&format!("set_fees:{}", r.outcome.kind()));
            global_invariants(s, ctx, &before, &after, r.outcome.is_ok(), "set_fees");
            others_untouched(ctx, "C01", &before, &after, &[], false, "set_fees");
        }
        Op::SetCollector { second, to_pool, to_user } => {
            let before = match observe(s) { Ok(o) => o, Err(e) => { ctx.fail("C01", "solvency", "queries_fail", None, e); return; } };
            let target = if *to_pool { s.pair.clone() } else if let Some(u) = to_user { s.user(*u).to_string() } else if *second { COLLECTOR2.to_string() } else { COLLECTOR.to_string() };
            let ext = |s: &Pool2| [[s.bal(COLLECTOR, 0), s.bal(COLLECTOR, 1), s.bal(COLLECTOR, 2)], [s.bal(COLLECTOR2, 0), s.bal(COLLECTOR2, 1), s.bal(COLLECTOR2, 2)]];
            let ext0 = ext(s);
            let msg = wasm_exec(
                &s.factory,
                &white_whale_std::pool_network::factory::ExecuteMsg::UpdatePairConfig { pair_addr: s.pair.clone(), owner: None, fee_collector_addr: Some(target.clone()), pool_fees: None, feature_toggle: None },
                vec![],
            );
            let r = tx(&mut s.app, OWNER, vec![msg], Fault::None);
            ctx.op("set_collector", r.outcome.kind());
            ctx.trace(&format!("set_collector:{target}:{}", r.outcome.kind()));
            if r.outcome.is_ok() {
                s.collector_now = target;
                ctx.probe(if *to_pool { "collector_is_the_pool_itself" } else if to_user.is_some() { "collector_is_a_trading_user" } else { "collector_repointed" });
            }
            let after = match observe(s) { Ok(o) => o, Err(e) => { ctx.fail("C01", "solvency", "queries_fail", None, e); return; } };
            // re-pointing the collector moves nothing
            ctx.eval("C07");
            if ext(s) != ext0 || after.pair_bal != before.pair_bal || after.pending != before.pending || after.reserves != before.reserves {
                ctx.fail("C07", "nothing_else_moves", "set_collector_moved_funds", None, format!("re-pointing the fee collector changed balances or ledgers: pending {:?} -> {:?}, pool {:?} -> {:?}", before.pending, after.pending, before.pair_bal, after.pair_bal));
            }
            if !r.outcome.is_ok() {
                ctx.fail("C07", "collector_update", "owner_update_refused", None, format!("the owner's fee collector update failed: {}", r.outcome.err_text()));
            }
        }
        Op::Donate { side, amount } => {
            let side = *side % 2;
            let before = match observe(s) { Ok(o) => o, Err(e) => { ctx.fail("C01", "solvency", "queries_fail", None, e); return; } };
            let msg = match &s.assets[side] {
                white_whale_std::pool_network::asset::AssetInfo::NativeToken { denom } => bank_send(&s.pair, *amount, denom),
                white_whale_std::pool_network::asset::AssetInfo::Token { contract_addr } => wasm_exec(
                    contract_addr,
                    &cw20::Cw20ExecuteMsg::Transfer { recipient: s.pair.clone(), amount: cosmwasm_std::Uint128::new(*amount) },
                    vec![],
                ),
            };
            let r = tx(&mut s.app, who, vec![msg], Fault::None);
            ctx.op("donate", r.outcome.kind());
            let after = match observe(s) { Ok(o) => o, Err(e) => { ctx.fail("C01", "solvency", "queries_fail", None, e); return; } };
            ctx.trace(&format!("donate:{}:{:?}", r.outcome.kind(), after.reserves));
            global_invariants(s, ctx, &before, &after, r.outcome.is_ok(), "donate");
        }
        Op::WithdrawDirect { coin, amount } => {
            let denom = ["uaaa", "ubbb", "uccc", "ujunk"][*coin % 4];
            let before = match observe(s) { Ok(o) => o, Err(e) => { ctx.fail("C01", "solvency", "queries_fail", None, e); return; } };
            let msg = wasm_exec(&s.pair, &white_whale_std::pool_network::pair::ExecuteMsg::WithdrawLiquidity {}, vec![cosmwasm_std::coin(*amount, denom)]);
            let r = tx(&mut s.app, who, vec![msg], Fault::None);
            ctx.op("withdraw_direct_with_coin", r.outcome.kind());
            let after = match observe(s) { Ok(o) => o, Err(e) => { ctx.fail("C01", "solvency", "queries_fail", None, e); return; } };
            ctx.trace(&format!("withdraw_direct:{}:{:?}", r.outcome.kind(), after.reserves));
            if r.outcome.is_ok() {
                // the LP token of these pools is a cw20: no native coin is an LP token, so nothing may be paid out
                ctx.eval("C01");
                ctx.fail("C01", "withdraw_needs_lp", "native_coin_accepted_as_lp", None,
                    format!("WithdrawLiquidity {{}} with {amount}{denom} attached succeeded on a pool whose LP token is a cw20; reserves {:?} -> {:?}, LP held by pool {} -> {}", before.reserves, after.reserves, before.lp_pair, after.lp_pair));
            }
            global_invariants(s, ctx, &before, &after, r.outcome.is_ok(), "withdraw_direct_with_coin");
        }
        Op::Router { path, amount, min_receive, to, max_spread } => {
            crate::scen::pool2_router::do_router(s, ctx, actor, path, *amount, *min_receive, *to, max_spread, step.fault);
        }
    }
}

#[allow(clippy::too_many_arguments)]
fn do_provide(
    s: &mut Pool2,
    ctx: &mut Ctx,
    actor: usize,
    amounts: [u128; 2],
    slippage: &Option<String>,
    receiver: Option<usize>,
    fault: Fault,
    opname: &str,
) -> Option<u128> {
    let who = s.user(actor);
    let recv = receiver.unwrap_or(actor) % s.cfg.n_users;
    let before = match observe(s) { Ok(o) => o, Err(e) => { ctx.fail("C01", "solvency", "queries_fail", None, e); return None; } };
    let recv_s = receiver.map(|r| USERS[r % s.cfg.n_users]);
    let msgs = s.provide_msgs(&s.pair.clone(), [0, 1], amounts, slippage.as_deref(), recv_s);
    let r = tx(&mut s.app, who, msgs, fault);
    ctx.op(opname, r.outcome.kind());
    if r.fault_fired {
        ctx.fault(match fault { Fault::SubCall(_) => "F1_subcall", Fault::Bank(_) => "F2_bank", _ => "F3_query" });
    }
    let after = match observe(s) { Ok(o) => o, Err(e) => { ctx.fail("C01", "solvency", "queries_fail", None, format!("after {opname}: {e}")); return None; } };
    ctx.trace(&format!("{opname}:{}:{:?}:{}", r.outcome.kind(), after.reserves, after.share));
    let first = before.share == 0;
    let cp = s.cfg.ptype == PType::Cp;
    // slippage verdict (constant product): exact rationals with the 2e-18 band
    let slip = slippage.as_ref().map(|t| deposit_slippage_verdict(&s.cfg.ptype, amounts, before.reserves, dec_atomics(t)));
    match &r.outcome {
        Outcome::Ok(_) => {
            if r.fault_fired {
                ctx.fail("C01", "fault_swallowed", opname, None, "deposit succeeded although one of its sub-calls failed".into());
            }
            let minted_total = after.share - before.share;
            let minted_user = after.users_lp[recv] - before.users_lp[recv];
            ctx.eval("C01");
            // tokens really received
            let mut exp_users = before.users.clone();
            exp_users[actor][0] -= amounts[0].min(exp_users[actor][0]);
            exp_users[actor][1] -= amounts[1].min(exp_users[actor][1]);
            // (a deposit sent with more than it declares, funds_mode 7: what the pool keeps beyond the credited
            // amount is the sender's loss, not the pool's; only "received less than credited" is reported)
            let surplus_mode = s.funds_mode_next.get() == 7;
            let short = u256(after.pair_bal[0]) < u256(before.pair_bal[0]) + u256(amounts[0]) || u256(after.pair_bal[1]) < u256(before.pair_bal[1]) + u256(amounts[1]);
            if short || (!surplus_mode && (exp_users != after.users || u256(after.pair_bal[0]) != u256(before.pair_bal[0]) + u256(amounts[0]) || u256(after.pair_bal[1]) != u256(before.pair_bal[1]) + u256(amounts[1]))) {
                ctx.fail("C01", "deposit_funds_received", opname, None,
                    format!("deposit {:?}: pool balances {:?} -> {:?}", amounts, before.pair_bal, after.pair_bal));
            }
            if first {
                let locked = after.lp_pair - before.lp_pair;
                let min_lock = 1000u128;
                if locked < min_lock {
                    ctx.fail("C01", "min_liquidity_locked", "first_deposit_lock", None,
                        format!("first deposit {:?} locked only {locked} LP in the pool", amounts));
                }
                if cp {
                    // sqrt(d0*d1) total
                    let root = to_u128_256(isqrt_u256(u256(amounts[0]) * u256(amounts[1]))).unwrap();
                    if minted_total > root {
                        ctx.fail("C01", "deposit_share", "first_deposit_over_mint", None,
                            format!("first deposit {:?} minted {minted_total} > isqrt = {root}", amounts));
                    }
                    if root == 1000 || root == 1001 { ctx.probe("first_deposit_isqrt_boundary"); }
                }
                s.model.seeded = true;
                s.model.min_lp_locked = locked.min(after.lp_pair);
                ctx.probe("first_deposit_done");
            } else {
                if minted_user != minted_total {
                    ctx.fail("C01", "deposit_share", "minted_ne_credited", None,
                        format!("LP supply +{minted_total} but receiver +{minted_user}"));
                }
                if cp {
                    let cap0 = muldiv(amounts[0], before.share, before.reserves[0].max(1));
                    let cap1 = muldiv(amounts[1], before.share, before.reserves[1].max(1));
                    let cap = cap0.min(cap1);
                    if u256(minted_total) > cap {
                        ctx.fail("C01", "deposit_share", "over_mint", None,
                            format!("deposit {:?} into R {:?} S {} minted {minted_total} > pro-rata {cap}", amounts, before.reserves, before.share));
                    }
                    // C07: owed protocol fees are not LP reserves on any path. The documented mint is
                    // min_i floor(deposit_i * S / reserve_i) over the reserves net of owed fees; a mint that
                    // differs from it and is exactly what the same formula gives when the owed fees of one
                    // or both assets are counted as reserves means a collection would change the price
                    // deposits are minted at
                    if before.pending[0] > 0 || before.pending[1] > 0 {
                        ctx.eval("C07");
                        ctx.probe("deposit_with_fees_pending");
                        if u256(minted_total) != cap {
                            for mask in 1..4u8 {
                                let r0 = before.reserves[0].saturating_add(if mask & 1 != 0 { before.pending[0] } else { 0 });
                                let r1 = before.reserves[1].saturating_add(if mask & 2 != 0 { before.pending[1] } else { 0 });
                                let alt = muldiv(amounts[0], before.share, r0.max(1)).min(muldiv(amounts[1], before.share, r1.max(1)));
                                if u256(minted_total) == alt {
                                    ctx.fail("C07", "deposit_priced_on_reserves_net_of_fees", "owed_fees_counted_as_reserves", None,
                                        format!("deposit {:?} into R {:?} (owed fees {:?}) S {} minted {minted_total}: the reserves net of owed fees give {cap}, counting the owed fees (mask {mask}) as reserves gives exactly {alt}", amounts, before.reserves, before.pending, before.share));
                                    break;
                                }
                            }
                        }
                    }
                } else if let PType::Stable { amp } = s.cfg.ptype {
                    stable2::check_deposit(s, ctx, amp, &before, &after, amounts, minted_total);
                }
            }
            // C15: accepted => bound
            let slip = match (&s.cfg.ptype, slippage, first) {
                (PType::Stable { .. }, Some(t), false) => Some(stable_deposit_verdict(u256(before.reserves[0]) + u256(before.reserves[1]), before.share, u256(amounts[0]) + u256(amounts[1]), minted_total, dec_atomics(t))),
                _ => slip,
            };
            if let (Some(v), false) = (slip, first) {
                ctx.eval("C15");
                if v == Slip::MustReject {
                    ctx.fail("C15", "deposit_accepted_beyond_tolerance", "deposit", None,
                        format!("deposit {:?} into R {:?} accepted with slippage_tolerance {:?}", amounts, before.reserves, slippage));
                }
            }
            ctx.state_of(&obs_key(&after));
            global_invariants(s, ctx, &before, &after, true, opname);
            others_untouched(ctx, "C01", &before, &after, &[actor, recv], false, opname);
            Some(minted_user)
        }
        o => {
            let e = o.err_text();
            if e.contains("slippage_tolerance cannot bigger than 1") && !first {
                if let Some(t) = slippage {
                    if dec_atomics(t) <= E18 {
                        ctx.eval("C15");
                        ctx.fail("C15", "deposit_rejected_within_tolerance", "valid_tolerance_refused_as_out_of_range", None, format!("deposit with slippage_tolerance {t} (<= 1) was refused as 'cannot bigger than 1'"));
                    }
                }
            }
            if e.contains("Slippage tolerance exceeded") {
                let slip = match (&s.cfg.ptype, slippage, first) {
                    (PType::Stable { amp }, Some(t), false) => stable2::predicted_mint(*amp, before.reserves, amounts, before.share).map(|m| {
                        let sp = u256(before.reserves[0]) + u256(before.reserves[1]);
                        let sd = u256(amounts[0]) + u256(amounts[1]);
                        let vs = [m.saturating_sub(1).max(1), m, m.saturating_add(1)].map(|mm| stable_deposit_verdict(sp, before.share, sd, mm, dec_atomics(t)));
                        if vs.iter().all(|v| *v == Slip::MustAccept) { Slip::MustAccept } else { Slip::Either }
                    }),
                    _ => slip,
                };
                if let (Some(v), false) = (slip, first) {
                    ctx.eval("C15");
                    ctx.probe("deposit_rejected_for_slippage");
                    let too_big = slippage.as_ref().map(|t| dec_atomics(t) > E18).unwrap_or(false);
                    if v == Slip::MustAccept && !too_big {
                        ctx.fail("C15", "deposit_rejected_within_tolerance", "deposit", None,
                            format!("deposit {:?} into R {:?} rejected with slippage_tolerance {:?}: {e}", amounts, before.reserves, slippage));
                    }
                }
            }
            global_invariants(s, ctx, &before, &after, false, opname);
            None
        }
    }
}

/// exact verdict for the documented deposit bound
pub fn deposit_slippage_verdict(pt: &PType, d: [u128; 2], r: [u128; 2], t18: u128) -> Slip {
    if t18 > E18 {
        return Slip::MustReject;
    }
    if d[0] == 0 || d[1] == 0 || r[0] == 0 || r[1] == 0 {
        return Slip::Either;
    }
    match pt {
        PType::Cp => {
            // bound: (d0/d1)(1-t) <= r0/r1 and (d1/d0)(1-t) <= r1/r0
            let om = u512(E18 - t18);
            // compare (d_a/d_b)*(1-t) with r_a/r_b:  d_a*om*r_b  vs  r_a*d_b*1e18
            let side = |a: usize, b: usize| -> (bool, bool) {
                let lhs = widen(u512(d[a]) * om) * widen(u512(r[b]));
                let rhs = widen(u512(r[a]) * u512(E18)) * widen(u512(d[b]));
                // within by a 1e-18 margin:  lhs/(d_b r_b 1e18) <= rhs/(..) - 1e-18
                let unit = widen(u512(d[b]) * u512(r[b])); // 1e-18 in these units (x 1e18 / 1e18)
                let surely_ok = lhs + unit <= rhs;
                let surely_bad = lhs > rhs + unit + unit;
                (surely_ok, surely_bad)
            };
            let (ok0, bad0) = side(0, 1);
            let (ok1, bad1) = side(1, 0);
            if ok0 && ok1 {
                Slip::MustAccept
            } else if bad0 || bad1 {
                Slip::MustReject
            } else {
                Slip::Either
            }
        }
        PType::Stable { .. } => Slip::Either,
    }
}

/// Documented bound for stableswap deposits (pair and 3-pool):
/// (sum of reserves / LP supply) * (1 - t) <= (sum of deposits / LP minted), 18-decimal fixed point
pub fn stable_deposit_verdict(sum_p: U256, share: u128, sum_d: U256, minted: u128, t18: u128) -> Slip {
    if t18 > E18 {
        return Slip::MustReject;
    }
    if minted == 0 || share == 0 {
        return Slip::Either;
    }
    let wide = |x: U256| -> U1024 {
        let d = x.digits();
        let mut out = [0u64; 16];
        out[..4].copy_from_slice(d);
        U1024::from_digits(out)
    };
    let lhs = wide(sum_p) * u1024(E18 - t18) * u1024(minted);
    let rhs = wide(sum_d) * u1024(share) * u1024(E18);
    let unit = u1024(share) * u1024(minted);
    if lhs + unit <= rhs {
        Slip::MustAccept
    } else if lhs > rhs + unit + unit {
        Slip::MustReject
    } else {
        Slip::Either
    }
}

fn do_withdraw(s: &mut Pool2, ctx: &mut Ctx, actor: usize, lp: u128, fault: Fault, opname: &str) -> bool {
    let who = s.user(actor);
    let before = match observe(s) { Ok(o) => o, Err(e) => { ctx.fail("C01", "solvency", "queries_fail", None, e); return false; } };
    let msg = s.withdraw_msg(&s.pair.clone(), &s.lp.clone(), lp);
    let r = tx(&mut s.app, who, vec![msg], fault);
    ctx.op(opname, r.outcome.kind());
    if r.fault_fired {
        ctx.fault(match fault { Fault::SubCall(_) => "F1_subcall", Fault::Bank(_) => "F2_bank", _ => "F3_query" });
    }
    let after = match observe(s) { Ok(o) => o, Err(e) => { ctx.fail("C01", "solvency", "queries_fail", None, format!("after {opname}: {e}")); return false; } };
    ctx.trace(&format!("{opname}:{}:{:?}:{}", r.outcome.kind(), after.reserves, after.share));
    match &r.outcome {
        Outcome::Ok(_) => {
            if r.fault_fired {
                ctx.fail("C01", "fault_swallowed", opname, None, "withdrawal succeeded although one of its sub-calls failed".into());
            }
            ctx.eval("C01");
            if before.share - after.share != lp || before.users_lp[actor] - after.users_lp[actor] != lp {
                ctx.fail("C01", "withdraw_burns_lp", opname, None,
                    format!("withdraw {lp}: supply {} -> {}, user LP {} -> {}", before.share, after.share, before.users_lp[actor], after.users_lp[actor]));
            }
            for i in 0..2 {
                let paid = after.users[actor][i] - before.users[actor][i];
                let cap = muldiv(before.reserves[i], lp, before.share.max(1));
                if u256(paid) > cap {
                    ctx.fail("C01", "withdraw_pro_rata", "over_pay", None,
                        format!("withdraw {lp} of {} from R {:?}: asset {i} paid {paid} > pro-rata {cap}", before.share, before.reserves));
                }
                // C07: owed protocol fees are not LP reserves on the withdrawal path either. A payout
                // above the share of (balance - owed fees of THIS asset) that stays within the share of
                // the whole balance was paid out of what is owed to the collector
                if before.pending[0] > 0 || before.pending[1] > 0 {
                    ctx.eval("C07");
                    ctx.probe("withdraw_with_fees_pending");
                    let cap_all = muldiv(before.pair_bal[i], lp, before.share.max(1));
                    if u256(paid) > cap && u256(paid) <= cap_all {
                        ctx.fail("C07", "withdraw_paid_from_reserves_net_of_fees", "owed_fees_paid_out_to_lp", None,
                            format!("withdraw {lp} of {}: asset {i} paid {paid}; balance {} owed fees {}: the share of the reserves is {cap}, the share of the whole balance {cap_all}", before.share, before.pair_bal[i], before.pending[i]));
                    }
                }
                if before.pair_bal[i] - after.pair_bal[i] != paid {
                    ctx.fail("C01", "withdraw_pro_rata", "pool_paid_ne_user_received", None,
                        format!("asset {i}: pool -{} user +{paid}", before.pair_bal[i] - after.pair_bal[i]));
                }
            }
            if lp == before.share - s.model.min_lp_locked.min(before.share) { ctx.probe("withdraw_everything_withdrawable"); }
            if let PType::Stable { amp } = s.cfg.ptype {
                stable2::check_withdraw(s, ctx, amp, &before, &after);
            }
            ctx.state_of(&obs_key(&after));
            global_invariants(s, ctx, &before, &after, true, opname);
            others_untouched(ctx, "C01", &before, &after, &[actor], false, opname);
            true
        }
        _ => {
            global_invariants(s, ctx, &before, &after, false, opname);
            false
        }
    }
}

fn do_collect(s: &mut Pool2, ctx: &mut Ctx, actor: usize, fault: Fault) {
    let who = s.user(actor);
    let before = match observe(s) { Ok(o) => o, Err(e) => { ctx.fail("C01", "solvency", "queries_fail", None, e); return; } };
    let msg = wasm_exec(&s.pair, &white_whale_std::pool_network::pair::ExecuteMsg::CollectProtocolFees {}, vec![]);
    let r = tx(&mut s.app, who, vec![msg], fault);
    ctx.op("collect", r.outcome.kind());
    if r.fault_fired {
        ctx.fault(match fault { Fault::SubCall(_) => "F1_subcall", Fault::Bank(_) => "F2_bank", _ => "F3_query" });
    }
    let after = match observe(s) { Ok(o) => o, Err(e) => { ctx.fail("C01", "solvency", "queries_fail", None, format!("after collect: {e}")); return; } };
    ctx.trace(&format!("collect:{}:{:?}", r.outcome.kind(), after.pending));
    if r.outcome.is_ok() {
        if r.fault_fired {
            ctx.fail("C07", "fault_swallowed", "collect", None, "collection succeeded although a transfer failed".into());
        }
        ctx.eval("C07");
        let alias = s.collector_now == s.pair;
        let cu = s.collector_user();
        if cu.is_some() { ctx.probe("collect_into_a_trading_user"); }
        for i in 0..2 {
            if alias {
                // the pool is its own collector: a collection is a transfer to itself; what was owed counts
                // as handed over (ledger reset) and from then on belongs to the pool like any donation
                let p = before.pending[i];
                let handed = p.saturating_sub(after.pending[i]);
                s.model.received[i] += handed;
                let stays_owed = p <= 1000 && handed == 0;
                if after.pair_bal[i] != before.pair_bal[i] || (!stays_owed && handed != p) || after.reserves[i] != before.reserves[i].saturating_add(handed) {
                    ctx.fail("C07", "collect_transfers_pending", "self_collector_ledger", None,
                        format!("collect with the pool as its own collector: asset {i} pending {p} -> {}, pool balance {} -> {}, reserves {} -> {}", after.pending[i], before.pair_bal[i], after.pair_bal[i], before.reserves[i], after.reserves[i]));
                }
                ctx.probe("collect_into_the_pool_itself");
                continue;
            }
            let got = match cu { Some(k) => after.users[k][i].saturating_sub(before.users[k][i]), None => after.collector[i] - before.collector[i] };
            let left = before.pair_bal[i] - after.pair_bal[i];
            s.model.received[i] += got;
            let p = before.pending[i];
            if p == 0 { ctx.probe("collect_pending_zero"); } else if p <= 1000 { ctx.probe("collect_below_threshold"); } else if p == 1001 { ctx.probe("collect_at_1001"); }
            if p == 1000 { ctx.probe("collect_at_1000"); } else { ctx.probe("collect_above_threshold"); }
            // amounts up to the documented minimum collectable balance may stay owed (nothing moves,
            // ledger unchanged); everything else is transferred in full
            let stays_owed = p <= 1000 && got == 0 && left == 0 && after.pending[i] == p;
            if stays_owed && p > 0 { ctx.probe("collect_dust_stays_owed"); }
            if (got != p || left != p) && !stays_owed {
                // D5: amounts <= 1000 are zeroed but not sent
                let d5 = p > 0 && p <= 1000 && got == 0 && left == 0 && after.pending[i] == 0;
                if d5 {
                    s.model.d5_dropped[i] += p;
                }
                ctx.fail("C07", "collect_transfers_pending", "collector_got_ne_pending", if d5 { Some("D5") } else { None },
                    format!("collect: asset {i} pending {p}, collector +{got}, pool -{left}, pending after {}", after.pending[i]));
            }
            if after.reserves[i] != before.reserves[i] {
                let d5 = p > 0 && p <= 1000 && after.reserves[i] == before.reserves[i] + p;
                ctx.fail("C07", "collect_keeps_reserves", "reserves_changed", if d5 { Some("D5") } else { None },
                    format!("collect: asset {i} reserves {} -> {}", before.reserves[i], after.reserves[i]));
            }
        }
        if after.share != before.share || after.supply != before.supply {
            ctx.fail("C07", "nothing_else_moves", "collect_changed_supply", None, "collect changed LP or asset supply".into());
        }
        ctx.state_of(&obs_key(&after));
        global_invariants(s, ctx, &before, &after, true, "collect");
        others_untouched(ctx, "C07", &before, &after, &cu.map(|k| vec![k]).unwrap_or_default(), true, "collect");
    } else {
        global_invariants(s, ctx, &before, &after, false, "collect");
    }
}

pub fn post_router_invariants(s: &mut Pool2, ctx: &mut Ctx, before: &Obs, after: &Obs, ok: bool) {
    global_invariants(s, ctx, before, after, ok, "router_swap");
}

pub fn gross_of(q: &white_whale_std::pool_network::pair::SimulationResponse) -> u128 {
    q.return_amount
        .u128()
        .saturating_add(q.swap_fee_amount.u128())
        .saturating_add(q.protocol_fee_amount.u128())
        .saturating_add(q.burn_fee_amount.u128())
}
