//! Multi-hop swaps through the real swap router on POOL2 (C14 router quote, C15 minimum receive).

use cosmwasm_std::Uint128;
use white_whale_std::pool_network::router::{QueryMsg as RouterQuery, SimulateSwapOperationsResponse};

use crate::core::Ctx;
use crate::scen::pool2::*;
use crate::scen::pool2_oracle::observe;
use crate::world::*;

#[allow(clippy::too_many_arguments)]
pub fn do_router(
    s: &mut Pool2,
    ctx: &mut Ctx,
    actor: usize,
    path: &[usize],
    amount: u128,
    min_receive: Option<u128>,
    to: Option<usize>,
    max_spread: &Option<String>,
    fault: Fault,
) {
    if path.len() < 2 || path.iter().any(|p| *p > 2) || path.windows(2).any(|w| w[0] == w[1]) {
        return;
    }
    let who = s.user(actor);
    let recv = to.unwrap_or(actor) % s.cfg.n_users;
    let last = *path.last().unwrap();
    let before = match observe(s) {
        Ok(o) => o,
        Err(e) => {
            ctx.fail("C01", "solvency", "queries_fail", None, e);
            return;
        }
    };
    if before.router_bal != [0, 0, 0] {
        ctx.fail("C14", "router_keeps_nothing", "before", None, format!("router holds {:?}", before.router_bal));
    }
    let quote: Result<SimulateSwapOperationsResponse, String> = query(
        &s.app,
        &s.router,
        &RouterQuery::SimulateSwapOperations {
            offer_amount: Uint128::new(amount),
            operations: s.router_ops(path),
        },
    );
    // pre-quote the hop that goes through pair (A,B) so that the fee ledger model can follow
    let mut hop_ab: Option<(usize, white_whale_std::pool_network::pair::SimulationResponse)> = None;
    {
        let mut amt = amount;
        for w in path.windows(2) {
            let (pair, offer_idx) = (s.pair_for(w[0], w[1]).to_string(), w[0]);
            match s.simulate(&pair, offer_idx, amt) {
                Ok(q) => {
                    if pair == s.pair {
                        hop_ab = Some((1 - w[0], q.clone()));
                    }
                    amt = q.return_amount.u128();
                }
                Err(_) => break,
            }
        }
    }
    let to_s = to.map(|t| USERS[t % s.cfg.n_users]);
    let msg = s.router_msg(path, amount, min_receive, to_s, max_spread.as_deref());
    let r = tx(&mut s.app, who, vec![msg], fault);
    ctx.op("router_swap", r.outcome.kind());
    if r.fault_fired {
        ctx.fault(match fault { Fault::SubCall(_) => "F1_subcall", Fault::Bank(_) => "F2_bank", _ => "F3_query" });
    }
    let after = match observe(s) {
        Ok(o) => o,
        Err(e) => {
            ctx.fail("C01", "solvency", "queries_fail", None, format!("after router swap: {e}"));
            return;
        }
    };
    ctx.trace(&format!("router:{}:{:?}:{amount}:{:?}", r.outcome.kind(), path, after.reserves));
    match &r.outcome {
        Outcome::Ok(_) => {
            if r.fault_fired {
                ctx.fail("C14", "fault_swallowed", "router", None, "router swap succeeded although a sub-call failed".into());
            }
            if let Some((ask, q)) = &hop_ab {
                s.model.charged[*ask] += q.protocol_fee_amount.u128();
                s.model.burned[*ask] += q.burn_fee_amount.u128();
            }
            let mut prev = before.users[recv][last];
            if recv == actor && last == path[0] {
                prev -= amount;
            }
            let delta = after.users[recv][last].saturating_sub(prev);
            ctx.eval("C14");
            match &quote {
                Ok(q) => {
                    if q.amount.u128() != delta {
                        ctx.fail("C14", "router_sim_eq_exec", "receiver_delta", None,
                            format!("route {:?} offer {amount}: SimulateSwapOperations {} but receiver got {delta}", path, q.amount));
                    }
                }
                Err(e) => ctx.fail("C14", "router_sim_eq_exec", "sim_failed_exec_ok", None, format!("route {:?}: simulation failed ({e}) but execution succeeded", path)),
            }
            if after.router_bal != [0, 0, 0] {
                ctx.fail("C14", "router_keeps_nothing", "after", None, format!("router holds {:?} after a swap", after.router_bal));
            }
            if let Some(m) = min_receive {
                ctx.eval("C15");
                if before.users[recv][last] > 0 { ctx.probe("min_receive_receiver_had_balance"); }
                if delta < m {
                    ctx.fail("C15", "minimum_receive", "accepted_below_minimum", None,
                        format!("route {:?}: receiver +{delta} < minimum_receive {m}", path));
                }
            }
            ctx.state_of(&format!("{:?}{:?}", after.reserves, after.users));
            crate::scen::pool2_oracle::post_router_invariants(s, ctx, &before, &after, true);
        }
        o => {
            let e = o.err_text();
            if e.contains("minimum receive amount") {
                ctx.eval("C15");
                ctx.probe("router_rejected_min_receive");
                if let (Some(m), Ok(q)) = (min_receive, &quote) {
                    if q.amount.u128() >= m {
                        ctx.fail("C15", "minimum_receive", "rejected_at_or_above_minimum", None,
                            format!("route {:?}: would deliver {} >= minimum_receive {m} but was rejected: {e}", path, q.amount));
                    }
                }
            }
            crate::scen::pool2_oracle::post_router_invariants(s, ctx, &before, &after, false);
        }
    }
}
